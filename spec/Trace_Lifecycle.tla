--------------------------- MODULE Trace_Lifecycle ---------------------------
(* X12, binding B1: the trace file (environment variable TRACE) holds, for every real population driven through the    *)
(* three phases of the real epoch executors, one "init" line (the population as constructed), then per epoch one     *)
(* "prep" line (observed after the real prepareForReproduction) and one "fin" line (after reproduce + finalize).      *)
(* The specification OWNS the life-cycle state (species records, population record, last species id) from the init   *)
(* line on: every later line is compared with what Lifecycle.tla derives from the spec's own state and the line's    *)
(* inputs (raw best fitness per species as dense ranks, which species kept a quota, the executor's sort order,       *)
(* which species received offspring).  Failing clauses are collected in `verdict`; the state then advances with the *)
(* logged values so that one defect is reported once.  An "abort" line (a turnover returned an error) ends a         *)
(* scenario; the next line is an init line.  (A species whose quota is 0 after delta coding or after its babies were  *)
(* stolen stays listed and may receive the offspring of OTHER species at speciation: which listed species survive is *)
(* an input of the fin line, not derived from the quotas - a first version demanded quota > 0 and was wrong.)         *)
EXTENDS Lifecycle, Json, IOUtils

Trace == ndJsonDeserialize(IOEnv.TRACE)

VARIABLES i, sp, hf, ehlc, last, repro, verdict
vars == <<i, sp, hf, ehlc, last, repro, verdict>>

F(ok, name) == IF ok THEN {} ELSE {name}
RecOf(x) == [id |-> x.id, age |-> x.age, aoli |-> x.aoli, mx |-> x.mx, novel |-> x.novel]
SpSeq(xs) == [k \in DOMAIN xs |-> RecOf(xs[k])]
BestFn(ev) == [id \in { ev.best[k][1] : k \in DOMAIN ev.best } |-> (CHOOSE k \in DOMAIN ev.best : ev.best[k][1] = id) ]
BestOf(ev, id) == ev.best[CHOOSE k \in DOMAIN ev.best : ev.best[k][1] = id][2]
Best(ev) == [id \in { ev.best[k][1] : k \in DOMAIN ev.best } |-> BestOf(ev, id)]
SetOf(s) == { s[k] : k \in DOMAIN s }
AbsI(a) == IF a < 0 THEN -a ELSE a
RECURSIVE SumTo(_, _)
SumTo(q, k) == IF k = 0 THEN 0 ELSE q[k][2] + SumTo(q, k - 1)

\* a population as constructed
InitClauses(ev) ==
    F(\A k \in DOMAIN ev.sp : ev.sp[k].age = 1 /\ ev.sp[k].aoli = 0 /\ ev.sp[k].mx = 0 /\ ev.sp[k].novel, "Init:species as constructed")
    \cup F(ev.hf = 0 /\ ev.ehlc = 0, "Init:population record")
    \cup F(IdsUnique(SpSeq(ev.sp), ev.last), "Init:species ids")
    \cup F([k \in DOMAIN ev.sp |-> ev.sp[k].id] = [k \in DOMAIN ev.sp |-> k] /\ ev.last = Len(ev.sp), "Init:ids consecutive from 1")

\* the adjusted fitness of a species' members is raw x (1/100 if penalised) x (AgeSignificance if young) / size:
\* ev.fac[k] = <<id, round(65536 x adjusted x size / raw)>> for the species with a positive raw fitness
FacOK(s, fac, ev) ==
    LET num == (IF Penalised(s, ev.dropoff) THEN 1 ELSE 100) * (IF Young(s) THEN ev.sig[1] ELSE ev.sig[2])
    IN  AbsI(fac * 100 * ev.sig[2] - 65536 * num) <= 200 * ev.sig[2]

PrepClauses(ev) ==
    LET best   == Best(ev)
        kept   == SetOf(ev.kept)
        okIn   == [k \in DOMAIN ev.best |-> ev.best[k][1]] = IdSeq(sp)
        okKept == kept # {} /\ kept \subseteq Ids(sp) /\ SetOf(ev.sorted) = kept /\ Len(ev.sorted) = Cardinality(kept)
    IN  F(okIn, "Prep:the species entering the epoch are the species the last one left")
        \cup F(okKept, "Prep:kept species")
        \cup (IF ~(okIn /\ okKept) THEN {} ELSE
              LET r == Prepared(sp, hf, ehlc, best, kept, ev.sorted, ev.dropoff)
                  post == SpSeq(ev.post.sp) IN
              F(IdSeq(post) = IdSeq(r.sp), "Prep:list order of the kept species")
              \cup F(SortedOK(ev.sorted, Kept(sp, best, kept), best), "Prep:sort order (best raw fitness first, younger first on ties)")
              \cup F(IdSeq(post) = IdSeq(r.sp) => \A k \in DOMAIN post : post[k].age = r.sp[k].age /\ post[k].novel = r.sp[k].novel,
                     "Prep:age / novel flag changed by the preparation")
              \cup F(IdSeq(post) = IdSeq(r.sp) => \A k \in DOMAIN post : post[k].mx = r.sp[k].mx, "Prep:MaxFitnessEver is the running maximum of the best raw fitness")
              \cup F(IdSeq(post) = IdSeq(r.sp) => \A k \in DOMAIN post : post[k].aoli = r.sp[k].aoli,
                     "Prep:AgeOfLastImprovement (age at the last rise of MaxFitnessEver; the two best species under delta coding)")
              \cup F(ev.post.hf = r.hf, "Prep:HighestFitness (record of the first species in sort order)")
              \cup F(ev.post.ehlc = r.ehlc, "Prep:EpochsHighestLastChanged (0 on a record or delta coding, else + 1)")
              \cup F(r.delta => \A k \in DOMAIN ev.q : ev.q[k][2] = DeltaQuota(ev.sorted, ev.q[k][1], ev.n), "Prep:delta coding quotas")
              \cup F(SumTo(ev.q, Len(ev.q)) = ev.n, "Prep:quotas total the population size")
              \cup F(\A k \in DOMAIN ev.fac : FacOK(SpOf(sp, ev.fac[k][1]), ev.fac[k][2], ev),
                     "Prep:stagnation penalty / youth boost decided with the age and improvement age the species ENTERED the epoch with"))
        \cup F(RecordBound(SpSeq(ev.post.sp), ev.post.hf), "Law:no listed species did better than the population record")
        \cup F(StagnationBound(ev.post.ehlc, ev.dropoff), "Law:never DropOffAge + 5 epochs without record or delta coding")
        \cup F(AgesOK(SpSeq(ev.post.sp)), "Law:ages")

FinClauses(ev) ==
    LET post == SpSeq(ev.post.sp)
        surv == Ids(post) \cap Ids(sp)
        nnew == Cardinality(Ids(post) \ Ids(sp))
    IN  F(post = Finalized(sp, surv, nnew, last),
          "Fin:survivors in order, one generation older unless novel; founded species follow with consecutive ids, age 1, no record")
        \cup F(ev.post.last = last + nnew, "Fin:LastSpecies")
        \cup F(ev.post.hf = hf /\ ev.post.ehlc = ehlc, "Fin:population record changed by reproduction")
        \cup F(IdsUnique(post, ev.post.last), "Law:species ids unique")
        \cup F(AgesOK(post), "Law:ages")

Init == i = 0 /\ sp = <<>> /\ hf = 0 /\ ehlc = 0 /\ last = 0 /\ repro = {} /\ verdict = {}

Next ==
    /\ i < Len(Trace)
    /\ i' = i + 1
    /\ LET ev == Trace[i + 1] IN
       CASE ev.k = "init" ->
              /\ verdict' = InitClauses(ev)
              /\ sp' = SpSeq(ev.sp) /\ hf' = ev.hf /\ ehlc' = ev.ehlc /\ last' = ev.last /\ repro' = {}
         [] ev.k = "prep" ->
              /\ verdict' = PrepClauses(ev)
              /\ sp' = SpSeq(ev.post.sp) /\ hf' = ev.post.hf /\ ehlc' = ev.post.ehlc /\ last' = last
              /\ repro' = { ev.q[k][1] : k \in { k \in DOMAIN ev.q : ev.q[k][2] > 0 } }
         [] ev.k = "fin" ->
              /\ verdict' = FinClauses(ev)
              /\ sp' = SpSeq(ev.post.sp) /\ last' = ev.post.last /\ hf' = ev.post.hf /\ ehlc' = ev.post.ehlc /\ repro' = {}
         [] OTHER -> /\ verdict' = {} /\ UNCHANGED <<sp, hf, ehlc, last, repro>>
Spec == Init /\ [][Next]_vars

Inv_Lifecycle == verdict = {}
TraceAccepted == TLCGet("stats").diameter = Len(Trace) + 1
=============================================================================

----------------------------- MODULE MC_Orders -----------------------------
(* X03: every list in scope is an initial state; the order laws are invariants over the elements of the list, the      *)
(* sorted arrangement and the champion / maximum / average are checked against their definitions; each state is handed *)
(* to the replayer with the Less matrix, the key sequence of the sorted result and the selected values.               *)
EXTENDS Orders, Json
CONSTANTS Fits, His, Ages, Times, Ids, MaxLen, MaxSpecies
VARIABLES kind, list, emitted
vars == <<kind, list, emitted>>

SeqsUpTo(S, n) == UNION { [1..k -> S] : k \in 0..n }
Orgs == [fit : Fits, hi : His]
Specs == [orig : Fits, age : Ages]
Stamped == [t : Times, id : Ids]
FitLists == SeqsUpTo(Fits, 2)

Init == /\ emitted = FALSE
        /\ \/ kind = "organisms" /\ list \in SeqsUpTo(Orgs, MaxLen)
           \/ kind = "species" /\ list \in SeqsUpTo(Specs, MaxSpecies)
           \/ kind = "spmax" /\ list \in SeqsUpTo(FitLists, 3)
           \/ kind = "timeid" /\ list \in SeqsUpTo(Stamped, MaxSpecies)

FitsOf(l) == [i \in DOMAIN l |-> l[i].fit]
OrgCase == LET f == FitsOf(list)  d == Desc(OrgLess, list) IN
    [kind |-> "organisms", list |-> list, less |-> LessMatrix(OrgLess, list),
     desc |-> d, asc |-> Asc(OrgLess, list),
     champion |-> IF list = <<>> THEN <<>> ELSE <<d[1]>>,          \* findChampion: any organism with this key
     find_idx |-> FindChampionIdx(f), first_max_idx |-> FirstMaxIdx(f),
     n |-> Len(list), sum |-> SumFit(f), coded_max |-> CodedMax(f),
     true_max |-> IF list = <<>> THEN 0 ELSE TrueMax(f),
     nonneg |-> \A i \in DOMAIN f : f[i] >= 0]
SpeciesCase == [kind |-> "species", list |-> list, less |-> LessMatrix(SpeciesLess, list),
                desc |-> Desc(SpeciesLess, list), asc |-> Asc(SpeciesLess, list)]
SpMaxCase == [kind |-> "spmax", list |-> list, less |-> LessMatrix(SpMaxLess, list),
              desc |-> [i \in DOMAIN list |-> CodedMax(Desc(SpMaxLess, list)[i])],
              asc |-> [i \in DOMAIN list |-> CodedMax(Asc(SpMaxLess, list)[i])]]
TimeIdCase == [kind |-> "timeid", list |-> list, less |-> LessMatrix(TimeIdLess, list),
               desc |-> Desc(TimeIdLess, list), asc |-> Asc(TimeIdLess, list),
               recent |-> IF list = <<>> THEN 0 ELSE Max({ list[i].t : i \in DOMAIN list })]
Emit == /\ ~emitted /\ emitted' = TRUE /\ UNCHANGED <<kind, list>>
        /\ IF kind = "organisms" THEN PrintT(ToJson(OrgCase))
           ELSE IF kind = "species" THEN PrintT(ToJson(SpeciesCase))
           ELSE IF kind = "spmax" THEN PrintT(ToJson(SpMaxCase))
           ELSE PrintT(ToJson(TimeIdCase))
Next == Emit
Spec == Init /\ [][Next]_vars

QuickFits == {0, 1, 2}
MixedFits == {-2, -1, 0, 1}
NonNegFits == {0, 1, 3}

(* ---- laws ---- *)
Elems == Range(list)
SortLaws(R(_, _)) ==
    /\ StrictWeakOrder(R, Elems)
    /\ SortedDesc(R, Desc(R, list)) /\ SortedAsc(R, Asc(R, list))
    /\ Len(list) <= 4 => IsPermutationOf(Desc(R, list), list) /\ IsPermutationOf(Asc(R, list), list)
    /\ Desc(R, list) = Reverse(Asc(R, list)) \/ \E a, b \in Elems : a # b /\ Incomparable(R, a, b)
OrganismsOrder == kind = "organisms" => SortLaws(OrgLess)
SpeciesOrder == kind = "species" => SortLaws(SpeciesLess)
SpMaxOrder == kind = "spmax" => SortLaws(SpMaxLess)
TimeIdOrder == kind = "timeid" => SortLaws(TimeIdLess)
\* within these three orders only equal elements are incomparable: the sorted arrangement is unique
TotalOnDistinct == kind \in {"organisms", "species", "timeid"} =>
    \A a, b \in Elems : a # b =>
        IF kind = "organisms" THEN OrgLess(a, b) \/ OrgLess(b, a)
        ELSE IF kind = "species" THEN SpeciesLess(a, b) \/ SpeciesLess(b, a)
        ELSE TimeIdLess(a, b) \/ TimeIdLess(b, a)
ChampionLaws == (kind = "organisms" /\ list # <<>>) =>
    LET f == FitsOf(list)  c == Desc(OrgLess, list)[1] IN
    /\ c \in Elems /\ \A o \in Elems : ~OrgLess(c, o)                 \* nothing beats the champion
    /\ c.fit = TrueMax(f)
    /\ (\A i \in DOMAIN f : f[i] >= 0) => CodedMax(f) = TrueMax(f)   \* the coded maximum is the maximum on the documented domain
    /\ (\A i \in DOMAIN f : f[i] > -1) => FindChampionIdx(f) = FirstMaxIdx(f)
    /\ FindChampionIdx(f) # 0 => f[FindChampionIdx(f)] = TrueMax(f)
    /\ Len(f) * CodedMax(f) >= SumFit(f)
    /\ \A i \in DOMAIN f : f[i] <= CodedMax(f)
SpeciesPromotesYounger == kind = "species" =>
    \A a, b \in Elems : (a.orig = b.orig /\ a.age < b.age) => SpeciesLess(b, a)    \* the younger one sorts first under Reverse
=============================================================================

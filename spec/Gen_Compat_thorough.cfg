INIT Init
NEXT Next
CONSTANT L = 40

---------------------------- MODULE MC_ActProtocol ----------------------------
(* X09.  modes "std" / "fast" / "static": a network of ANY topology (no link at all, isolated outputs, self-loops,       *)
(* cycles, time-delayed links, links marked recurrent) is built link by link over one of the node sets in Shapes and    *)
(* sealed with an allNodes order and activation functions.                                                              *)
(*   "static": sealed with every recurrence marking and construction method; the queries that need no call history are  *)
(*     handed out as one case (node / link counts of both solvers, Incoming / Outgoing lists, activation depth, whether  *)
(*     Activate can succeed on the fresh network, every Network.IsRecurrent query).                                      *)
(*   "std" / "fast": EVERY sequence of MaxOps API calls from the alphabet is applied to the standard network resp. the   *)
(*     fast solver, starting from the freshly built object; the observation after EVERY call (error class, returned     *)
(*     boolean, outputs, per node activation count / value / GetActiveOut / GetActiveOutTd / isActive / lastActivation2 *)
(*     / FlushbackCheck, resp. all signals of the fast solver) is logged and the call that completes the sequence prints *)
(*     the behaviour as one case.  The laws of ActProtocol.tla are invariants evaluated after every call on             *)
(*     (state before, call, result with its trace of passes).                                                           *)
(* modes "species" / "organism" / "damaged": the helper operations of Species and Organism as state machines over       *)
(* three organisms resp. a three-gene genome, every sequence of MaxOps operations; the CheckChampionChildDamaged table.  *)
EXTENDS ActProtocol, Json
CONSTANTS Modes, Inputs, Biases, Hidden, OutSet, Shapes, WeightScheme, TdFlags, RecKinds, BuildKinds, Variants,
          LinkCaps, Canonical, StdOps, FastOps, MaxOps, Thresholds, Limit,
          SpKeySets, SpAges, SpOps, OrgEnables, OrgPre, OrgOps, DamVals

VARIABLES mode, shape, inc, cap, ph, net, fm, par, X, ops, log, last
vars == <<mode, shape, inc, cap, ph, net, fm, par, X, ops, log, last>>
NetMode == mode \in {"std", "fast"}
BuildMode == mode \in {"std", "fast", "static"}
Ins == Inputs \cap shape
Bis == Biases \cap shape
Hid == Hidden \cap shape
Sensors == Ins \cup Bis
Neurons == Hid \cup (OutSet \cap shape)
Asc(S) == SetToSortSeq(S, <)
Outputs == Asc(OutSet \cap shape)

OrderOf(kind) ==
    CASE kind = "IBHO" -> Asc(Ins) \o Asc(Bis) \o Asc(Hid) \o Outputs
      [] kind = "IBOH" -> Asc(Ins) \o Asc(Bis) \o Outputs \o Asc(Hid)
      [] kind = "BIHO" -> Asc(Bis) \o Asc(Ins) \o Asc(Hid) \o Outputs
      [] kind = "BIOH" -> Asc(Bis) \o Asc(Ins) \o Outputs \o Asc(Hid)
      [] kind = "IBOHr" -> Asc(Ins) \o Asc(Bis) \o Outputs \o Reverse(Asc(Hid))
KindOf(n) == IF n \in Inputs THEN "I" ELSE IF n \in Biases THEN "B" ELSE IF n \in Hidden THEN "H" ELSE "O"
ActsOf(scheme) ==
    LET ns == Asc(Neurons) IN
    [n \in Sensors \cup Neurons |->
        IF n \in Sensors THEN "null"
        ELSE scheme[(((CHOOSE i \in DOMAIN ns : ns[i] = n) - 1) % Len(scheme)) + 1]]
LinkSet == UNION { { <<inc[n][i].src, n>> : i \in DOMAIN inc[n] } : n \in Neurons }
NumLinks == Cardinality(LinkSet)
AllNodes == Inputs \cup Biases \cup Hidden \cup OutSet
\* Link.IsRecurrent marks: none, the links that point backwards (or sideways) in the allNodes order, all
RecMark(rk, order, u, v) ==
    LET pos(x) == CHOOSE i \in DOMAIN order : order[i] = x IN
    CASE rk = "none" -> FALSE [] rk = "all" -> TRUE [] rk = "back" -> pos(u) >= pos(v)
NetOf(order, acts, rk) ==
    [order |-> order, kind |-> [n \in Sensors \cup Neurons |-> KindOf(n)], act |-> acts,
     inputs |-> SelectSeq(order, LAMBDA n : n \in Sensors), outputs |-> Outputs,
     inc |-> [n \in Sensors \cup Neurons |->
                IF n \in Neurons
                THEN [i \in DOMAIN inc[n] |-> [src |-> inc[n][i].src, w |-> inc[n][i].w, td |-> inc[n][i].td,
                                               rec |-> RecMark(rk, order, inc[n][i].src, n)]]
                ELSE <<>>]]
Unbounded(scheme) == \E i \in DOMAIN scheme : scheme[i] \in {"linear", "abs"}

(* ---- the calls ---- *)
S(o, k, d) == [op |-> o, k |-> k, d |-> d]
Palette(d) == IF d = 1 THEN <<2, 0 - 1, 3, 1>> ELSE <<1, 1, 0 - 2, 2>>
\* a symbolic call becomes concrete on the sealed network: load k = number of values relative to the number of input
\* neurons (-1 too few, 0 exact, +1 / +2 too many - with one bias +1 is "inputs and the bias value"), d = value palette;
\* sload k = 1 first node of `inputs`, 2 first output, d = value
Conc(s) ==
    CASE s.op = "load"  -> [op |-> "load", k |-> 0, d |-> 0, v |-> SubSeq(Palette(s.d), 1, NI(net) + s.k)]
      [] s.op = "sload" -> [op |-> "sload", k |-> IF s.k = 1 THEN net.inputs[1] ELSE net.outputs[1], d |-> 0, v |-> <<s.d>>]
      [] OTHER          -> [op |-> s.op, k |-> s.k, d |-> s.d, v |-> <<>>]
Alphabet ==
    IF ph # "ops" THEN {}
    ELSE IF NetMode THEN { Conc(s) : s \in { t \in (IF mode = "std" THEN StdOps ELSE FastOps) : t.op = "load" => NI(net) + t.k >= 0 } }
    ELSE IF mode = "species" THEN { [op |-> s.op, k |-> s.k, d |-> 0, v |-> <<>>] : s \in SpOps }
    ELSE IF mode = "organism" THEN { [op |-> s.op, k |-> s.k, d |-> 0, v |-> <<>>] : s \in OrgOps }
    ELSE {}

NoTrace(st, r) == [st |-> r.st, err |-> r.err, res |-> r.err = "nil", trace |-> <<st>>]
StdCall(o, st) ==
    CASE o.op = "load"  -> NoTrace(st, LoadSensorsStd(net, st, o.v))
      [] o.op = "sload" -> LET r == SensorLoadAny(net, st, o.k, o.v[1]) IN [st |-> r.st, err |-> "nil", res |-> r.res, trace |-> <<st>>]
      [] o.op = "act"   -> ActivateT(net, st)
      [] o.op = "steps" -> ActivateStepsT(net, st, o.k)
      [] o.op = "fwd"   -> ForwardStepsT(net, st, o.k)
      [] o.op = "rec"   -> RecursiveStepsT(net, st)
      [] o.op = "relax" -> RelaxStd(net, st)
      [] o.op = "flush" -> FlushT(net, st)
FastCall(o, fs) ==
    CASE o.op = "load"  -> FastLoadT(fm, fs, o.v)
      [] o.op = "fwd"   -> FastForwardT(fm, fs, o.k)
      [] o.op = "rec"   -> FastRecursiveT(fm, fs)
      [] o.op = "relax" -> FastRelaxT(fm, fs, o.k, o.d)
      [] o.op = "flush" -> FastFlushT(fm, fs)
\* result of a call on the object X: [X, obs, r] (r = the raw result the laws speak about)
Apply(o) ==
    CASE mode = "std"  -> LET r == TLCEval(StdCall(o, X)) IN [X |-> r.st, obs |-> StdObs(net, r.st, r.err, r.res), r |-> r]
      [] mode = "fast" -> LET r == TLCEval(FastCall(o, X)) IN [X |-> r.fs, obs |-> FastObs(fm, r.fs, r.err, r.res, r.steps), r |-> r]
      [] mode = "species" -> LET r == SpApply(par.key, X, o) IN [X |-> r.sp, obs |-> SpObs(par.key, r.sp, r.err, r.ret, par.age, par.imp), r |-> r]
      [] mode = "organism" -> LET r == OrgApply(par.genes, X, o) IN [X |-> r.X, obs |-> OrgObs(par.genes, r.X, r.err, r.ret), r |-> r]

(* ---- the fixed genome of the organism machine: 1 input, 2 bias, 3 output; a self-loop on the output ---- *)
OrgGenes == <<[src |-> 1, dst |-> 3, w |-> 2], [src |-> 2, dst |-> 3, w |-> 0 - 1], [src |-> 3, dst |-> 3, w |-> 1]>>
OrgStart(en, pre) ==
    IF pre THEN LET g == Genesis(OrgGenes, OrgFresh(en)) IN [g.X EXCEPT !.cache = g.id]   \* Genesis before NewOrganism
    ELSE OrgFresh(en)

Init == /\ mode \in Modes /\ ops = <<>> /\ log = <<>> /\ last = <<>> /\ net = <<>> /\ fm = <<>>
        /\ \/ /\ mode \in {"std", "fast", "static"} /\ shape \in Shapes /\ cap \in LinkCaps /\ ph = "build"
              /\ inc = [n \in Neurons |-> <<>>] /\ par = <<>> /\ X = <<>>
           \/ /\ mode = "species" /\ shape = {} /\ cap = 0 /\ ph = "ops" /\ inc = <<>>
              /\ par \in { [key |-> k, age |-> a[1], imp |-> a[2]] : k \in SpKeySets, a \in SpAges }
              /\ X = SpFresh
           \/ /\ mode = "organism" /\ shape = {} /\ cap = 0 /\ ph = "ops" /\ inc = <<>>
              /\ par \in { [genes |-> OrgGenes, en |-> e, pre |-> p] : e \in OrgEnables, p \in OrgPre }
              /\ X = OrgStart(par.en, par.pre)
           \/ /\ mode = "damaged" /\ shape = {} /\ cap = 0 /\ ph = "emit" /\ inc = <<>>
              /\ par \in [child : BOOLEAN, hi : DamVals, fit : DamVals] /\ X = <<>>

\* any simple digraph; the weight of the k-th link is dealt from WeightScheme
Addable(u, v) == \A i \in DOMAIN inc[v] : inc[v][i].src # u
AddLink(u, v, td) ==
    /\ ph = "build" /\ u \in shape /\ v \in shape /\ NumLinks < cap /\ Addable(u, v)
    /\ Canonical => \A e \in LinkSet : e[2] < v \/ (e[2] = v /\ e[1] < u)
    /\ inc' = [inc EXCEPT ![v] = Append(@, [src |-> u, w |-> WeightScheme[(NumLinks % Len(WeightScheme)) + 1], td |-> td])]
    /\ UNCHANGED <<mode, shape, cap, ph, net, fm, par, X, ops, log, last>>

IsRecQueries(nt) ==
    LET ns == nt.order
        qs == { <<i, j, t>> \in (DOMAIN ns) \X (DOMAIN ns) \X Thresholds : TRUE }
    IN  SetToSeq({ LET q == IsRec(nt, ns[x[1]], ns[x[2]], 0, x[3])
                   IN  [in |-> ns[x[1]], out |-> ns[x[2]], th |-> x[3], r |-> q.r, cnt |-> q.cnt,
                        def |-> WouldBeRecurrent(nt, ns[x[1]], ns[x[2]])] : x \in qs })
StaticCase(nt, m, bk) ==
    [kind |-> "static", net |-> NetJsonX(nt, bk),
     nodes |-> StdNodeCount(nt), links |-> StdLinkCount(nt), complexity |-> StdComplexity(nt),
     fnodes |-> FastNodeCount(m), flinks |-> FastLinkCount(m), depth |-> StdDepth(nt),
     incoming |-> [i \in DOMAIN nt.order |-> IncomingOf(nt, nt.order[i])],
     outgoing |-> [i \in DOMAIN nt.order |-> OutgoingOf(nt, nt.order[i])],
     shared |-> bk = "connect",
     cansucceed |-> CanTurnOn(nt, StdFresh(nt)),
     isrec |-> IsRecQueries(nt)]
\* mode "static" seals with every recurrence marking and construction method, prints the static case and stops; the call
\* sequences run on the "back" marking (the replayer builds every case by ConnectFrom, by AddIncoming + AddOutgoing and,
\* where a genome can say it, by Genesis)
Seal(var, rk, bk) ==
    /\ ph = "build"
    /\ mode # "static" => rk = "back" /\ bk = "connect"
    /\ LET nt == NetOf(OrderOf(var[1]), ActsOf(var[2]), rk)  m == FastModel(nt) IN
         /\ Unbounded(var[2]) => Acyclic(nt)                  \* unbounded activations only where values cannot grow for ever
         /\ net' = nt /\ fm' = m /\ par' = [build |-> bk]
         /\ X' = IF mode = "fast" THEN FastFresh(m) ELSE StdFresh(nt)
         /\ mode = "static" => PrintT(ToJson(StaticCase(nt, m, bk)))
    /\ ph' = IF mode = "static" THEN "sealed" ELSE "ops"
    /\ UNCHANGED <<mode, shape, inc, cap, ops, log, last>>
SeqCase(ops2, log2) ==
    IF NetMode THEN [kind |-> mode, net |-> NetJsonX(net, par.build), ops |-> ops2, log |-> log2]
    ELSE [kind |-> mode, par |-> par, ops |-> ops2, log |-> log2]
\* one call; the call that completes the sequence hands the whole behaviour to the replayer
Do(o) ==
    /\ ph = "ops" /\ Len(ops) < MaxOps
    /\ LET r == Apply(o) IN
         /\ X' = r.X /\ log' = Append(log, r.obs) /\ last' = [pre |-> X, op |-> o, r |-> r.r]
         /\ Len(ops) + 1 = MaxOps => PrintT(ToJson(SeqCase(Append(ops, o), Append(log, r.obs))))
    /\ ops' = Append(ops, o)
    /\ UNCHANGED <<mode, shape, inc, cap, ph, net, fm, par>>
EmitDamaged ==
    /\ ph = "emit" /\ PrintT(ToJson([kind |-> "damaged", par |-> par, want |-> Damaged(par.child, par.hi, par.fit)]))
    /\ ph' = "done" /\ UNCHANGED <<mode, shape, inc, cap, net, fm, par, X, ops, log, last>>

Next == \/ \E u \in AllNodes, v \in Hidden \cup OutSet, td \in TdFlags : AddLink(u, v, td)
        \/ \E var \in Variants, rk \in RecKinds, bk \in BuildKinds : Seal(var, rk, bk)
        \/ \E o \in Alphabet : Do(o)
        \/ EmitDamaged
Spec == Init /\ [][Next]_vars

(* ------------------------------------- laws ------------------------------------- *)
Called == ph = "ops" /\ Len(ops) > 0
StdLaws ==
    (mode = "std" /\ Called) =>
      LET o == last.op  st == last.pre  r == last.r IN
      /\ TraceLaws(net, r)
      /\ o.op = "act"   => ActivateLaws(net, st, MaxAttempts, r)
      /\ o.op = "steps" => ActivateLaws(net, st, o.k, r)
      /\ o.op = "fwd"   => ForwardLaws(net, st, o.k, r)
      /\ o.op = "rec"   => ForwardLaws(net, st, StdDepth(net), r)
      /\ o.op = "load"  => LoadLaws(net, st, o.v, [st |-> r.st, err |-> r.err])
      /\ o.op = "sload" => /\ r.res = IsSensor(net, o.k)
                           /\ \A n \in DOMAIN st : n # o.k => r.st[n] = st[n]
                           /\ r.res => r.st[o.k].a = o.v[1] /\ r.st[o.k].c = st[o.k].c + 1
                           /\ ~r.res => r.st = st
      /\ o.op = "relax" => r.err = "notimpl" /\ r.st = st
      /\ o.op = "flush" => FlushLaws(net, r) /\ r.err = "nil" /\ r.res
      \* an error that is not "exceeded" (and not the panic of a short load) leaves the network as it was
      /\ r.err \in {"zero", "notimpl"} => r.st = st
      \* counts never decrease except by Flush; sensors are only written by the load calls
      /\ o.op # "flush" => \A n \in DOMAIN st : r.st[n].c >= st[n].c
      /\ o.op \notin {"load", "sload", "flush"} => \A n \in SensorSet(net) : r.st[n] = st[n]
      \* an active neuron has been activated, a neuron that has been activated is active
      /\ \A n \in NeuronSet(net) : r.st[n].on = (r.st[n].c > 0)
FastLaws ==
    (mode = "fast" /\ Called) =>
      LET o == last.op  fs == last.pre  r == last.r IN
      /\ FastFrame(fm, fs, r.fs, o.op = "load" \/ o.op = "flush")
      /\ o.op = "relax" => RelaxLaws(fm, fs, o.k, o.d, r)
      /\ o.op = "fwd"   => r.err = "nil" /\ r.res = (o.k > 0) /\ (o.k <= 0 => r.fs = fs)
      /\ o.op = "rec"   => r.err = "nil" /\ r.res
      /\ o.op = "load"  => /\ (r.err = "nil") = (Len(o.v) = NI(net))
                           /\ r.err # "nil" => r.err = "size" /\ r.fs = fs
                           /\ r.err = "nil" => \A p \in (fm.ns + 1)..fm.n : r.fs.sig[p] = fs.sig[p]
      /\ o.op = "flush" => FastObservable(r.fs) = FastObservable(FastFresh(fm))
\* the two implementations of the Solver interface accept the plain input vector alike
BothAcceptInputs == (BuildMode /\ ph \in {"ops", "sealed"} /\ Len(ops) = 0) => LoadLengthSupported(net, NI(net)) /\ fm.ni = NI(net)
StaticLaws ==
    (BuildMode /\ ph \in {"ops", "sealed"} /\ Len(ops) = 0) =>
      /\ CountLaws(net, fm)
      /\ \A a, b \in NodeSet(net), t \in Thresholds : IsRecLaws(net, a, b, t)
      /\ \A n \in NodeSet(net) : /\ Len(IncomingOf(net, n)) = Len(net.inc[n])
                                 /\ \A i \in DOMAIN net.inc[n] : IncomingOf(net, n)[i].src = net.inc[n][i].src
SpeciesLaws ==
    (mode = "species" /\ Called) => SpLaws(par.key, last.pre, last.op, last.r) /\ SpSize(X) = Len(X.members)
OrganismLaws ==
    (mode = "organism" /\ Called) =>
      /\ OrgLaws(par.genes, last.pre, last.op, last.r)
      /\ X.cache <= Len(X.nets) /\ X.gph <= Len(X.nets) /\ (X.cache # 0 => X.gph # 0)
DamagedLaws == mode = "damaged" => (Damaged(par.child, par.hi, par.fit) => par.child /\ par.hi # par.fit)
\* What Network.LoadSensors SHOULD mean (the documented ErrNetUnsupportedSensorsArraySize; the fast solver does it): a vector
\* that is neither the input values nor the input and bias values is rejected with "size" and loads nothing.  The network
\* AS CODED does not do that (panic after a partial load / surplus silently ignored): this invariant is EXPECTED TO FAIL
\* (MC_ActProtocol_should.cfg, a model-sanity run) - it is the specification-level statement of that observation.
ShouldRejectBadLoads ==
    (mode = "std" /\ Called /\ last.op.op = "load" /\ LoadDeviates(net, Len(last.op.v))) =>
        last.r.err = "size" /\ last.r.st = last.pre
LogShape == Len(log) = Len(ops) /\ Len(ops) <= MaxOps
ValuesSmall == (ph = "ops" /\ mode = "std" => StdSmall(X, Limit)) /\ (ph = "ops" /\ mode = "fast" => FastSmall(X, Limit))

(* ---- palettes referred to by the configurations ---- *)
WS3 == <<1, 2, 0 - 1>>
WS4 == <<2, 0 - 1, 1, 0>>
VarQuick == {<<"IBHO", <<"clip">>>>, <<"IBOH", <<"step", "clip">>>>}
VarEdge == {<<"IBOH", <<"sign", "clip">>>>}
VarLinear == {<<"IBHO", <<"linear">>>>}
VarClip == {<<"IBHO", <<"clip">>>>}
VarWide == {<<"IBHO", <<"clip">>>>, <<"IBOHr", <<"step", "clip">>>>, <<"BIOH", <<"linear">>>>}
VarAll == {<<"IBHO", <<"clip">>>>, <<"IBOH", <<"step", "clip">>>>, <<"IBOHr", <<"sign", "step">>>>,
           <<"BIHO", <<"linear">>>>, <<"BIOH", <<"clip", "abs">>>>}
StdOpsCore == {S("load", 0, 1), S("load", 0 - 1, 1), S("load", 1, 1), S("act", 0, 0), S("steps", 0, 0), S("steps", 1, 0),
               S("steps", 2, 0), S("rec", 0, 0), S("flush", 0, 0)}
StdOpsEdge == {S("load", 0, 1), S("load", 0, 2), S("load", 1, 1), S("load", 2, 1), S("steps", 0 - 1, 0), S("steps", 1, 0), S("fwd", 0, 0),
               S("fwd", 2, 0), S("fwd", 0 - 1, 0), S("relax", 3, 0), S("sload", 1, 5), S("sload", 2, 5), S("act", 0, 0)}
StdOpsAll == StdOpsCore \cup StdOpsEdge
StdOpsSeq == {S("load", 0, 1), S("load", 0 - 1, 1), S("act", 0, 0), S("steps", 1, 0), S("steps", 2, 0), S("rec", 0, 0), S("flush", 0, 0)}
FastOpsCore == {S("load", 0, 1), S("load", 1, 1), S("fwd", 0, 0), S("fwd", 1, 0), S("rec", 0, 0), S("relax", 3, 2),
                S("relax", 2, 0), S("flush", 0, 0)}
FastOpsEdge == {S("load", 0, 1), S("flush", 0, 0), S("load", 0 - 1, 1), S("load", 0, 2), S("fwd", 2, 0), S("fwd", 0 - 1, 0), S("relax", 0, 2),
                S("relax", 3, 1), S("relax", 3, 4), S("relax", 2, 0 - 2), S("rec", 0, 0)}
FastOpsAll == FastOpsCore \cup FastOpsEdge
FastOpsSeq == {S("load", 0, 1), S("fwd", 1, 0), S("rec", 0, 0), S("relax", 3, 2), S("relax", 2, 0), S("flush", 0, 0)}
K(f, h) == [fit |-> f, hi |-> h]
SpKeysQuick == {<<K(1, 0), K(2, 0), K(2, 1)>>, <<K(2, 0), K(2, 0), K(1, 1)>>}
SpKeysAll == {<<K(1, 0), K(2, 0), K(2, 1)>>, <<K(2, 0), K(2, 0), K(1, 1)>>, <<K(1, 1), K(1, 1), K(1, 1)>>,
              <<K(3, 0), K(2, 1), K(1, 2)>>, <<K(0 - 1, 0), K(0, 0), K(0, 0 - 1)>>}
SpAgesQuick == {<<5, 3>>}
SpAgesAll == {<<5, 3>>, <<4, 4>>}
SpOpsAll == {S("add", 1, 0), S("add", 2, 0), S("add", 3, 0), S("remove", 1, 0), S("remove", 2, 0), S("remove", 3, 0), S("champ", 0, 0)}
OrgOpsAll == {S("pheno", 0, 0), S("update", 0, 0), S("toggle", 1, 0), S("toggle", 3, 0), S("drop", 0, 0)}
OrgEnQuick == {<<TRUE, TRUE, TRUE>>, <<TRUE, FALSE, FALSE>>}
OrgEnAll == {<<TRUE, TRUE, TRUE>>, <<TRUE, FALSE, FALSE>>, <<FALSE, FALSE, FALSE>>, <<FALSE, TRUE, TRUE>>}
=============================================================================

SPECIFICATION Spec
CONSTANTS
  MaxOrgs = 4
  Fits = {0, 1048576, 16252928, 16252929, 16777216}
  Ids = {0, 3, 4}
  PrintEvery = 2
  Kinds = {"xor", "pole"}
INVARIANTS SolvedIffWinner ChampionIsFirstBestWinner UnsolvedChampionIsBest FilesLaw UpdatesIncrease
CHECK_DEADLOCK FALSE

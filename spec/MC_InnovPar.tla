---------------------------- MODULE MC_InnovPar ----------------------------
(* Bounded configurations of InnovPar: the programs are chosen by Scenario; every terminal state prints its schedule *)
(* with the outcome the specification assigns, for replay on real goroutines (vh_par replay-schedules).              *)
EXTENDS InnovPar, TLC, Json
CONSTANT Scenario

Link(u, v, r) == [kind |-> "link", src |-> u, dst |-> v, rec |-> r, old |-> 0]
Node(u, v, o) == [kind |-> "node", src |-> u, dst |-> v, rec |-> FALSE, old |-> o]
(* genome A: nodes 1(I) 3(O), gene #1 1->3.   genome B: nodes 1(I) 2(B) 3(O), gene #1 2->3 (open pair 1->3). *)
Progs ==
    CASE Scenario = "split-split"  -> [t \in Threads |-> <<Node(1, 3, 1)>>]
      [] Scenario = "link-link"    -> [t \in Threads |-> <<Link(1, 3, FALSE)>>]
      [] Scenario = "split-link"   -> [t \in Threads |-> IF t = 1 THEN <<Node(1, 3, 1)>> ELSE <<Link(1, 3, FALSE)>>]
      \* a split recorded with NON-consecutive numbers (another thread draws a number between the two calls) and re-used later
      [] Scenario = "split-linksplit" -> [t \in Threads |-> IF t = 1 THEN <<Node(1, 3, 1)>> ELSE <<Link(1, 3, FALSE), Node(1, 3, 1)>>]
      [] Scenario = "two-each"     -> [t \in Threads |-> IF t = 1 THEN <<Node(1, 3, 1), Link(1, 3, FALSE)>> ELSE <<Link(1, 3, FALSE), Node(1, 3, 1)>>]
Emit == /\ AllDone /\ sched # <<>>
        /\ PrintT(ToJson([scenario |-> Scenario, threads |-> Cardinality(Threads), ninn0 |-> NInn0, nnode0 |-> NNode0,
                          sched |-> sched, out |-> [t \in Threads |-> out[t]], reglen |-> Len(reg), ninn |-> nInn, nnode |-> nNode]))
        /\ sched' = <<>> /\ UNCHANGED <<reg, nInn, nNode, pc, idx, tmp, out, accesses>>
MCNext == Next \/ Emit
MCSpec == Init /\ [][MCNext]_vars
=============================================================================

-------------------------- MODULE Trace_Speciation --------------------------
(* C08, binding B1: every call of Population.speciate observed on the real code (constructors, ReadPopulation, the   *)
(* reproduction phase of both epoch executors, direct calls on evolved populations) is one line of the trace file    *)
(* named by the environment variable TRACE.  Distances were recomputed by the recorder from the definition of the   *)
(* compatibility distance and are 2^-20 fixed-point integers; ev.tol is the tolerance of that projection.            *)
(*                                                                                                                 *)
(* "seq" event: arrival order known.  The rule of Speciation.tla (MayJoinTol / MayFoundTol) is re-executed arrival  *)
(*   by arrival: the species list starts with ev.pre (ids; the representative of the k-th is node k), arrival j is  *)
(*   node Len(pre) + j and carries its distance to every earlier node; the code's choice must be one the rule       *)
(*   allows, a founded species must get id LastSpecies + 1; the list then advances with the code's choice.          *)
(* "epoch" event: arrival order internal to the executor.  Checked per baby: founder of its species or within the   *)
(*   threshold of its representative; never founder when a species that existed before the call was definitely      *)
(*   compatible; never farther from its representative than from a definitely compatible species that existed       *)
(*   before the call; new ids fresh, increasing, LastSpecies advanced by the number of new species.                 *)
EXTENDS Speciation, TLC, Json, IOUtils

Trace == ndJsonDeserialize(IOEnv.TRACE)

VARIABLES i, verdict
vars == <<i, verdict>>

(* ---- seq ---- *)
\* st = [ids : Seq(species id), node : Seq(node of the representative), last]; returns 0 or the first bad arrival
RECURSIVE SeqFrom(_, _, _)
SeqFrom(ev, j, st) ==
    IF j > Len(ev.arr) THEN (IF st.last = ev.last1 THEN 0 ELSE Len(ev.arr) + 1)
    ELSE LET a == ev.arr[j]
             ds == [k \in DOMAIN st.ids |-> a.d[st.node[k]]]
             at == { k \in DOMAIN st.ids : st.ids[k] = a.sid }
         IN  IF at # {}
             THEN IF at \subseteq MayJoinTol(ds, ev.thr, ev.tol) /\ Cardinality(at) = 1 THEN SeqFrom(ev, j + 1, st) ELSE j
             ELSE IF MayFoundTol(ds, ev.thr, ev.tol) /\ a.sid = st.last + 1
                  THEN SeqFrom(ev, j + 1, [ids |-> Append(st.ids, a.sid), node |-> Append(st.node, Len(ev.pre) + j), last |-> a.sid])
                  ELSE j
SeqBad(ev) == SeqFrom(ev, 1, [ids |-> ev.pre, node |-> [k \in DOMAIN ev.pre |-> k], last |-> ev.last0])

(* ---- epoch ---- *)
BabyOK(ev, b) ==
    LET def == DefinitelyCompatible(b.dpre, ev.thr, ev.tol) IN
    /\ b.sid >= 0
    /\ IF b.founder THEN def = {} /\ b.sid \notin { ev.pre[k] : k \in DOMAIN ev.pre }
       ELSE /\ b.drep >= 0 /\ b.drep < ev.thr + ev.tol
            /\ \A k \in def : b.drep <= b.dpre[k] + ev.tol
IdsOK(ev) ==
    /\ \A k \in DOMAIN ev.newids : ev.newids[k] = ev.last0 + k
    /\ ev.last1 = ev.last0 + Len(ev.newids)
    /\ \A k \in DOMAIN ev.babies : ev.babies[k].founder => \E n \in DOMAIN ev.newids : ev.newids[n] = ev.babies[k].sid
    /\ \A n \in DOMAIN ev.newids : Cardinality({ k \in DOMAIN ev.babies : ev.babies[k].founder /\ ev.babies[k].sid = ev.newids[n] }) = 1
EpochBad(ev) == IF ~IdsOK(ev) THEN Len(ev.babies) + 1
                ELSE LET bad == { k \in DOMAIN ev.babies : ~BabyOK(ev, ev.babies[k]) } IN IF bad = {} THEN 0 ELSE Min(bad)

Bad(ev) == IF ev.k = "seq" THEN SeqBad(ev) ELSE EpochBad(ev)

Init == i = 0 /\ verdict = [ok |-> TRUE, at |-> 0]
Next == /\ i < Len(Trace)
        /\ i' = i + 1
        /\ LET b == Bad(Trace[i + 1]) IN verdict' = [ok |-> b = 0, at |-> b]
Spec == Init /\ [][Next]_vars

\* the property: every recorded speciate call obeys the rule (at = index of the first offending organism of line i)
Inv_C08 == verdict.ok
\* the whole trace was consumed (POSTCONDITION: one state per line plus the initial one)
TraceAccepted == TLCGet("stats").diameter = Len(Trace) + 1
=============================================================================

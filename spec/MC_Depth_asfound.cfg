SPECIFICATION Spec
CONSTANTS
  ClearOnError = FALSE
  Sensors = {1}
  Hidden = {2, 3}
  OutSet = {4}
  Caps = {0, 1, 2, 3}
  MaxQ = 2
  MaxEdges = 12
  Canonical = TRUE
INVARIANTS MarksClean DagDepth Bounds CapLaw Stable NoHiddenIsOne
CHECK_DEADLOCK FALSE

SPECIFICATION Spec
CONSTANTS
  RecursiveAddsBias = TRUE
  Inputs = {1, 2}
  Biases = {3}
  Hidden = {5, 6}
  OutSet = {8, 9}
  Shapes = {{1, 5, 8}}
  Weights <- W2
  PatternW = TRUE
  TdFlags = {FALSE}
  InVecs <- VecsOne
  OrderKinds = {"BIHO"}
  ActSchemes <- SchemesLinear
  LinkCaps = {2}
  MinLinks = 1
  Canonical = TRUE
  AcyclicOnly = TRUE
  Tight = FALSE
  ModuleActs = {"mul"}
  ModuleActs2 = {"max"}
  MaxMods = 2
  InsSizes = {1}
  OutArities = {0, 1, 2}
  SensorIns = TRUE
  FwdKs = {0, 1, 2}
  ActKs = {0, 2}
  Act0Ks = {}
  UseRec = FALSE
  LoadFirst = TRUE
  MaxHist = 3
  MaxSuf = 2
  Limit = 5000
INVARIANTS Settles SolversAgree FlushRestores SuffixEqual CountsAgree DepthTwoWays Refusals InScope
CHECK_DEADLOCK FALSE

SPECIFICATION Spec
CONSTANTS
  RecursiveAddsBias = FALSE
  Inputs = {1, 2}
  Biases = {3, 4}
  Hidden = {7, 8}
  OutSet = {5, 6}
  Shapes = {{1, 3, 5}}
  Weights <- W2
  InVals <- V3
  OrderKinds = {"IBOH", "BIHO"}
  ActSchemes <- SchemesQuick
  LinkCaps = {2}
  SealAtCap = FALSE
  Extra = 1
  Canonical = TRUE
INVARIANTS FeedForward
CHECK_DEADLOCK FALSE

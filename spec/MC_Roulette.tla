---------------------------- MODULE MC_Roulette ----------------------------
(* X01: every wheel in scope (probability vectors of length 0..MaxLen over Vals/Den, normalised or not), the sign    *)
(* table and every activator list x probability vector in scope is an initial state; the laws of Roulette.tla are     *)
(* invariants evaluated for every draw j/Grid; each state is handed to the replayer with the index table.             *)
EXTENDS Roulette, Json
CONSTANTS Vals, MaxLen, Den, Grid,       \* wheels
          ActNames, MaxActs, ActVals     \* activator choice
VARIABLES kind, wheel, acts, emitted
vars == <<kind, wheel, acts, emitted>>

SeqsUpTo(S, n) == UNION { [1..k -> S] : k \in 0..n }
Init == /\ emitted = FALSE
        /\ \/ kind = "wheel" /\ wheel \in SeqsUpTo(Vals, MaxLen) /\ acts = <<>>
           \/ kind = "sign" /\ wheel = <<>> /\ acts = <<>>
           \/ kind = "activator" /\ acts \in SeqsUpTo(ActNames, MaxActs) /\ wheel \in SeqsUpTo(ActVals, MaxActs)
Emit == /\ ~emitted /\ emitted' = TRUE /\ UNCHANGED <<kind, wheel, acts>>
        /\ IF kind = "wheel" THEN PrintT(ToJson(WheelCase(wheel, Den, Grid)))
           ELSE IF kind = "sign" THEN PrintT(ToJson(SignCase))
           ELSE PrintT(ToJson(ActivatorCase(acts, wheel, Den, Grid)))
Next == Emit
Spec == Init /\ [][Next]_vars

QuickVals == {0, 1, 2, 4}
ThoroughVals == {0, 1, 2, 3, 5}
Names == {"SigmoidSteepenedActivation", "TanhActivation", "NullActivation"}
QuickActVals == {0, 1, 4}

W == kind = "wheel"
WheelInRange == W => InRange(wheel, Grid)
WheelWalkIsDefinition == W => WalkIsDefinition(wheel, Grid)
WheelNeverZeroProbability == W => NeverZeroProbability(wheel, Grid)
WheelZeroDrawAndZeroWheel == W => ZeroDrawAndZeroWheel(wheel, Grid)
WheelMonotone == W => Monotone(wheel, Grid)
WheelTableIsFunction == W => TableIsFunction(wheel, Grid)
WheelProportional == W => Proportional(wheel, Grid)
SignLaws == RandSign(0) = -1 /\ RandSign(1) = 1 /\ \A v \in 0..9 : RandSign(v) \in {-1, 1} /\ RandSign(v) = -RandSign(v + 1)
ActivatorOK == kind = "activator" => ActivatorLaws(acts, wheel, Grid)
=============================================================================

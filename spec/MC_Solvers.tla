----------------------------- MODULE MC_Solvers -----------------------------
(* C12: a feed-forward network is built link by link over one of the node sets in Shapes (every simple DAG in BFS *)
(* mode, one canonical insertion order per link set; any insertion order in simulation mode, where the number of  *)
(* links is drawn at the start), sealed when every neuron is reachable from a sensor, given an allNodes order,     *)
(* activation functions and an input vector, and then evaluated by five solver instances, each starting from a    *)
(* freshly built state:                                                                                           *)
(*   std  : Network.LoadSensors; Network.ForwardSteps(d)        then ForwardSteps(1) ...                           *)
(*   fwd  : fast LoadSensors;    fast ForwardSteps(d)           then ForwardSteps(1) ...                           *)
(*   rec  : fast LoadSensors;    fast RecursiveSteps()          then RecursiveSteps() ...                          *)
(*   rlx  : fast LoadSensors;    fast Relax(d+1, delta)         then Relax(1, delta) ...                           *)
(*   rlxd : fast LoadSensors;    fast Relax(d, delta)           then Relax(1, delta) ...                           *)
(* where d is the number of links on the longest sensor-to-output path.  C12 is the invariant FeedForward: after  *)
(* every one of these calls the outputs of all five instances equal TopoEval.                                     *)
EXTENDS Solvers, Json, SequencesExt
CONSTANTS Inputs, Biases, Hidden, OutSet, Shapes,   \* node ids (sets); ids ascend inputs < biases < hidden/outputs freely
          Weights, InVals, OrderKinds, ActSchemes, LinkCaps, SealAtCap, Extra, Canonical

VARIABLES shape, inc, cap, ph, net, fm, inp, want, S, extra, log
vars == <<shape, inc, cap, ph, net, fm, inp, want, S, extra, log>>
\* the nodes of the network under construction are those of `shape`, one of the node sets in Shapes
Ins == Inputs \cap shape
Bis == Biases \cap shape
Hid == Hidden \cap shape
Sensors == Ins \cup Bis
Neurons == Hid \cup (OutSet \cap shape)
Asc(X) == SetToSortSeq(X, <)
Outputs == Asc(OutSet \cap shape)

\* Network.allNodes orders that occur: the genome keeps sensors first; hidden nodes usually come after the outputs
OrderOf(kind) ==
    CASE kind = "IBHO" -> Asc(Ins) \o Asc(Bis) \o Asc(Hid) \o Outputs
      [] kind = "IBOH" -> Asc(Ins) \o Asc(Bis) \o Outputs \o Asc(Hid)
      [] kind = "BIHO" -> Asc(Bis) \o Asc(Ins) \o Asc(Hid) \o Outputs
      [] kind = "BIOH" -> Asc(Bis) \o Asc(Ins) \o Outputs \o Asc(Hid)
      [] kind = "IBOHr" -> Asc(Ins) \o Asc(Bis) \o Outputs \o Reverse(Asc(Hid))
KindOf(n) == IF n \in Inputs THEN "I" ELSE IF n \in Biases THEN "B" ELSE IF n \in Hidden THEN "H" ELSE "O"
\* scheme = sequence of activation names dealt cyclically to the neurons in ascending id order
ActsOf(scheme) ==
    LET ns == Asc(Neurons) IN
    [n \in Sensors \cup Neurons |->
        IF n \in Sensors THEN "null"
        ELSE scheme[(((CHOOSE i \in DOMAIN ns : ns[i] = n) - 1) % Len(scheme)) + 1]]
NetOf(order, acts) ==
    [order |-> order, kind |-> [n \in Sensors \cup Neurons |-> KindOf(n)], act |-> acts,
     inputs |-> SelectSeq(order, LAMBDA n : n \in Sensors), outputs |-> Outputs,
     inc |-> [n \in Sensors \cup Neurons |-> IF n \in Neurons THEN inc[n] ELSE <<>>]]
\* the graph while it is being built
G0 == [sensors |-> Sensors, neurons |-> Neurons, outputs |-> Outputs,
       inc |-> [n \in Neurons |-> [i \in DOMAIN inc[n] |-> inc[n][i].src]]]
NumLinks == Cardinality(D!EdgeSet(G0))
\* input vectors are drawn with the length of the largest shape (a constant set, so that TLC's simulator can pick one
\* action instance at a time); a smaller shape uses the prefix, the rest being pinned to one value
FullVectors == [1..Cardinality(Inputs) -> InVals]
Padded(v) == \A i \in DOMAIN v : i > Cardinality(Ins) => v[i] = (CHOOSE x \in InVals : TRUE)
Trunc(v) == [i \in 1..Cardinality(Ins) |-> v[i]]
AllNodes == Inputs \cup Biases \cup Hidden \cup OutSet

Init == /\ shape \in Shapes /\ inc = [n \in Neurons |-> <<>>] /\ ph = "build" /\ cap \in LinkCaps
        /\ net = <<>> /\ fm = <<>> /\ inp = <<>> /\ want = <<>> /\ S = <<>> /\ extra = 0 /\ log = <<>>

Addable(u, v) ==
    /\ u # v
    /\ \A i \in DOMAIN inc[v] : inc[v][i].src # u                     \* simple graphs
    /\ v \notin D!Ancestors(G0, u)                                     \* stays acyclic
CanAdd == NumLinks < cap /\ \E u \in Sensors \cup Neurons, v \in Neurons : Addable(u, v)
AddLink(u, v, w) ==
    /\ ph = "build" /\ u \in shape /\ v \in shape /\ NumLinks < cap /\ Addable(u, v)
    /\ Canonical => \A e \in D!EdgeSet(G0) : e[2] < v \/ (e[2] = v /\ e[1] < u)
    /\ inc' = [inc EXCEPT ![v] = Append(@, [src |-> u, w |-> w, td |-> FALSE])]
    /\ UNCHANGED <<shape, cap, ph, net, fm, inp, want, S, extra, log>>

\* the quantifier of C12: every neuron reachable from a sensor
SealGuard == /\ ph = "build" /\ NumLinks >= 1 /\ (SealAtCap => ~CanAdd)
             /\ \A n \in Neurons : D!Ancestors(G0, n) \cap Sensors # {}
Seal(ok) ==
    /\ SealGuard
    /\ net' = NetOf(OrderOf(ok), ActsOf(<<"linear">>))
    /\ ph' = "sealed"
    /\ UNCHANGED <<shape, inc, cap, fm, inp, want, S, extra, log>>

Pick(vfull, scheme) ==
    /\ ph = "sealed" /\ Padded(vfull)
    /\ LET v  == Trunc(vfull)
           nt == [net EXCEPT !.act = ActsOf(scheme)]
           m  == FastModel(nt)
           fl == FastLoad(m, FastFresh(m), v)
       IN  /\ net' = nt /\ fm' = m /\ inp' = v
           /\ want' = TopoEval(nt, v)
           /\ S' = [std |-> StdLoad(nt, StdFresh(nt), v), fwd |-> fl, rec |-> fl, rlx |-> fl, rlxd |-> fl]
    /\ ph' = "loaded"
    /\ UNCHANGED <<shape, inc, cap, extra, log>>

Entry(proc, call, arg, outs, err) == [proc |-> proc, call |-> call, arg |-> arg, outs |-> outs, err |-> err]
Dp == LongestPath(net)
Run ==
    /\ ph = "loaded"
    /\ LET d  == Dp
           rs == StdForwardSteps(net, S.std, d)
           f  == FastForwardSteps(fm, S.fwd, d)
           r  == FastRecursiveSteps(fm, S.rec)
           x  == FastRelax(fm, S.rlx, d + 1, TRUE)
           y  == FastRelax(fm, S.rlxd, d, TRUE)
       IN  /\ S' = [std |-> rs.st, fwd |-> f, rec |-> r, rlx |-> x, rlxd |-> y]
           /\ log' = <<Entry("std", "forward", d, StdOutputs(net, rs.st), rs.err),
                       Entry("fwd", "forward", d, FastOutputs(fm, f), FALSE),
                       Entry("rec", "recursive", 0, FastOutputs(fm, r), FALSE),
                       Entry("rlx", "relax", d + 1, FastOutputs(fm, x), FALSE),
                       Entry("rlxd", "relax", d, FastOutputs(fm, y), FALSE)>>
    /\ ph' = "ran"
    /\ UNCHANGED <<shape, inc, cap, net, fm, inp, want, extra>>
\* propagating further ("at least as many steps")
More ==
    /\ ph = "ran" /\ extra < Extra
    /\ LET rs == StdForwardSteps(net, S.std, 1)
           f  == FastForwardSteps(fm, S.fwd, 1)
           r  == FastRecursiveSteps(fm, S.rec)
           x  == FastRelax(fm, S.rlx, 1, TRUE)
           y  == FastRelax(fm, S.rlxd, 1, TRUE)
       IN  /\ S' = [std |-> rs.st, fwd |-> f, rec |-> r, rlx |-> x, rlxd |-> y]
           /\ log' = log \o <<Entry("std", "forward", 1, StdOutputs(net, rs.st), rs.err),
                              Entry("fwd", "forward", 1, FastOutputs(fm, f), FALSE),
                              Entry("rec", "recursive", 0, FastOutputs(fm, r), FALSE),
                              Entry("rlx", "relax", 1, FastOutputs(fm, x), FALSE),
                              Entry("rlxd", "relax", 1, FastOutputs(fm, y), FALSE)>>
    /\ extra' = extra + 1
    /\ UNCHANGED <<shape, inc, cap, ph, net, fm, inp, want>>

\* B2: the case handed to the replayer
CaseOf == [kind |-> "solvers", net |-> NetJson(net), inp |-> inp, depth |-> Dp, topo |-> TopoOrder(net),
           want |-> want, log |-> log]
Emit == /\ ph = "ran" /\ extra = Extra /\ PrintT(ToJson(CaseOf))
        /\ ph' = "done" /\ UNCHANGED <<shape, inc, cap, net, fm, inp, want, S, extra, log>>

\* (the bound sets are constant so that the simulator draws one action instance at a time)
Next == \/ \E u \in AllNodes, v \in Hidden \cup OutSet, w \in Weights : AddLink(u, v, w)
        \/ \E ok \in OrderKinds : Seal(ok)
        \/ \E v \in FullVectors, sc \in ActSchemes : Pick(v, sc)
        \/ Run \/ More \/ Emit
Spec == Init /\ [][Next]_vars

(* ---- C12 ---- *)
FeedForward == \A i \in DOMAIN log : log[i].outs = want /\ ~log[i].err
\* the scope really is the quantifier's: acyclic, simple, every neuron sensor-reachable, depth >= 1
InScope == ph = "sealed" => Acyclic(net) /\ SimpleGraph(net) /\ AllSensorReachable(net) /\ LongestPath(net) >= 1
\* the standard solver's own depth query agrees with the definition whenever there is a hidden node (C14)
DepthAgrees == (ph = "sealed" /\ Hid # {}) => StdDepth(net) = LongestPath(net)

\* value palettes referred to by the configurations (a .cfg file cannot hold negative numbers or sequences)
W3 == {0 - 1, 1, 2}
W4 == {0 - 2, 0 - 1, 1, 3}
W2 == {0 - 1, 2}
V3 == {0 - 1, 0, 1}
V2 == {0 - 1, 2}
V4 == {0 - 2, 0, 1, 3}
V01 == {0, 1}
W1 == {2}
SchemesChain == {<<"linear", "step">>, <<"step", "linear", "linear">>, <<"clip", "step", "abs", "linear">>}
SchemesLinear == {<<"linear">>}
SchemesTwo    == {<<"linear">>, <<"step", "abs">>}
SchemesQuick  == {<<"linear">>, <<"step", "linear">>, <<"clip", "abs">>}
SchemesAll    == {<<"linear">>, <<"step", "linear">>, <<"clip", "abs">>, <<"sign", "step">>, <<"linear", "null", "step">>,
                  <<"step">>, <<"abs", "clip", "linear">>}
=============================================================================

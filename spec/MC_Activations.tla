--------------------------- MODULE MC_Activations ---------------------------
(* C18, binding B2: every state is one case - a registry query, an exactly representable activation at an exactly   *)
(* representable input, or a module reducer on a scaled integer vector; the laws of the property are invariants of  *)
(* the specification, and each case is printed with the value the specification assigns so that the replayer can   *)
(* put the same question to the real NodeActivators and compare.  The registry itself is built step by step        *)
(* (kind "reg") so that the one-to-one invariant is checked after every Register call.  Kind "factory" is a short    *)
(* behaviour over several factories: default; new private P (2); new private Q (3); one extra registration g on P;  *)
(* new R (4) - with "only P changed" as invariant of every step and the observable answers of an untouched and of   *)
(* the customised registry printed for the replayer.                                                               *)
EXTENDS Activations, TLC, Json, SequencesExt
CONSTANTS TypeCodes,        \* type codes asked for (NodeActivationType is a byte: 0..255 is every possible value)
          ProbeNames,       \* names that are not registered
          G, XMax,          \* inputs n / 2^G for |n| <= XMax * 2^G
          FineM,            \* and b +- m / 4096 for m in 1..FineM around the breakpoints b = -4, -1, 1, 4
          BigExps, TinyExps, \* inputs +-2^j for j in BigExps (j >= 4) and in TinyExps (j < -G)
          Vals, MaxLen, Scales, ProdScales,  \* module vectors over Vals of length 1..MaxLen, elements scaled by 2^s
          FirstSeed,        \* TRUE: reducers as they should be; FALSE: extremum seeds of the code as found (F6)
          FreshMaps         \* TRUE: NewNodeActivatorsFactory builds its own maps; FALSE: it shares the default factory's
VARIABLES kind, c, emitted
vars == <<kind, c, emitted>>

\* values for the configuration files
AllBytes == 0..255
UnknownNames == {"", "sigmoidplainactivation", "SIGMOIDPLAINACTIVATION", "SigmoidPlain", "SigmoidPlainActivation ",
                 " TanhActivation", "tanhactivation", "Tanh", "MultiplyModule", "maxmoduleactivation", "HIDN", "NEURON",
                 "UnknownActivation", "0", "1", "StepActivation1",
                 \* short names other NEAT libraries use, and lower-case stems of the registered names
                 "sigmoid", "tanh", "sin", "sine", "gauss", "gaussian", "relu", "identity", "linear", "clamped", "abs", "step", "sign",
                 "null", "product", "multiply", "sum", "max", "min", "mean", "Sigmoid", "Gaussian", "Linear", "Max", "Min", "Multiply"}
QuickBig == (4..70) \cup { 70 + 19 * k : k \in 1..48 } \cup {996}
QuickTiny == ((-70)..(-7)) \cup { -70 - 21 * k : k \in 1..47 } \cup {-1074, -1023, -1022}
ThoroughBig == 4..996
ThoroughTiny == (-1074)..(-13)
QuickVals == {-3, -1, 0, 1, 2}
ThoroughVals == {-5, -3, -1, 0, 1, 2, 4, 7}
AllScales == {0, 10, 62, 63, 64, 70, 300, 990, -30, -1000}
AllProdScales == {0, 1, 16, 64, 200, -64, -200}
\* longer vectors over fewer values (MC_Activations_long.cfg); the scalar part is reduced to a token grid there
LongVals == {-2, 1, 3}
LongProdScales == {0, 1, 16, 64, -64}
TokenBig == {4}
TokenTiny == {-1}

ASSUME RegisterLaw({1, 2}, {"a", "b"}, 2)
ASSUME ApproxContinuous(4, 5) /\ ApproxContinuous(1, 1)
ASSUME \A j \in BigExps : j >= 4 /\ j <= 996
ASSUME \A j \in TinyExps : j < -G /\ j >= -1074
ASSUME G <= 12 /\ XMax <= 16 /\ XMax > 4 /\ FineM * Pow2(G) < 4096

\* the single extra registrations applied to a private factory: new / existing scalar / existing module type code x
\* same / other existing / new name x scalar or module function (user functions "cube" and "sum")
ExtraRegs == { [type |-> t, name |-> n, kind |-> k, impl |-> IF k = "scalar" THEN "cube" ELSE "sum"] :
                 t \in {1, 14, 22, 24, 100, 200}, n \in {"SigmoidPlainActivation", "MaxModuleActivation", "CubeActivation"},
                 k \in {"scalar", "module"} }
\* every type code a caller can ask about (a registration with a high code must not make the codes below it known)
ObsTypes == [i \in 1..256 |-> i - 1]
ObsNames == <<"SigmoidPlainActivation", "LinearActivation", "MaxModuleActivation", "CubeActivation">>
Obs(r) == [types |-> [i \in DOMAIN ObsTypes |-> TypeObs(r, ObsTypes[i])],
           names |-> [i \in DOMAIN ObsNames |-> NameObs(r, ObsNames[i])]]
Private == 2

\* all inputs in ascending order
Asc(S) == SetToSortSeq(S, <)
Desc(S) == SetToSortSeq(S, >)
Pos2(js) == [i \in DOMAIN js |-> D(1, js[i])]
Neg2(js) == [i \in DOMAIN js |-> D(-1, js[i])]
GridSeq(lo, hi) == [i \in 1..(hi - lo + 1) |-> D(lo + i - 1, -G)]
FineAround(b) == [k \in 1..FineM |-> D(b * 4096 - (FineM + 1 - k), -12)] \o <<D(b * Pow2(G), -G)>>
                 \o [k \in 1..FineM |-> D(b * 4096 + k, -12)]
XSeq == LET P == Pow2(G) IN
        Neg2(Desc(BigExps)) \o GridSeq(-(XMax * P), -(4 * P) - 1) \o FineAround(-4) \o GridSeq(-(4 * P) + 1, -P - 1)
        \o FineAround(-1) \o GridSeq(-P + 1, -1) \o Neg2(Desc(TinyExps)) \o <<D(0, -G)>> \o Pos2(Asc(TinyExps))
        \o GridSeq(1, P - 1) \o FineAround(1) \o GridSeq(P + 1, 4 * P - 1) \o FineAround(4)
        \o GridSeq(4 * P + 1, XMax * P) \o Pos2(Asc(BigExps))
NX == Len(XSeq)
ASSUME \A i \in 1..(NX - 1) : DLt(XSeq[i], XSeq[i + 1])

Vectors == UNION { [1..n -> Vals] : n \in 1..MaxLen }
AltScales == {300, 600, -600}
OddCount(v) == (Len(v) + 1) \div 2
MultiplyAlt(v, s) == D(ProdFold(v, Len(v)), s * (OddCount(v) - (Len(v) - OddCount(v))))
ScalesOf(op) == IF op = "MultiplyModuleActivation" THEN ProdScales ELSE Scales
ModuleResult(op, v, s) ==
    CASE op = "MultiplyModuleActivation" -> MultiplyModule(v, s)
      [] op = "MaxModuleActivation" -> MaxModule(v, s, FirstSeed)
      [] op = "MinModuleActivation" -> MinModule(v, s, FirstSeed)

Init == /\ emitted = FALSE
        /\ \/ kind = "reg" /\ c = 0
           \/ kind = "bytype" /\ c \in TypeCodes
           \/ kind = "name" /\ c \in RegisteredNames \cup ProbeNames
           \/ kind = "scalar" /\ c \in { p \in [fn : ExactNames, xi : 1..NX] : ExactDomain(p.fn, XSeq[p.xi]) }
           \/ kind = "module" /\ \E op \in ModuleNames : c \in [op : {op}, v : Vectors, s : ScalesOf(op)]
           \* members of very different magnitude in ONE vector: odd positions scaled by 2^s, even positions by 2^-s (every
           \* left-to-right prefix of the product is an ordinary number; partial products in another order are not)
           \/ kind = "modalt" /\ c \in [op : {"MultiplyModuleActivation"}, v : { v \in Vectors : Len(v) >= 2 }, s : AltScales]
           \/ kind = "factory" /\ \E g \in ExtraRegs : c = [g |-> g, s |-> FacInit, pc |-> 0]

CaseOf ==
    CASE kind = "bytype" ->
            LET nm == NameFromType(FinalReg, c) IN
            [kind |-> kind, t |-> c, scalar |-> ActivateByTypeOk(FinalReg, c), module |-> ActivateModuleByTypeOk(FinalReg, c),
             named |-> nm.ok, name |-> nm.name]
      [] kind = "name" ->
            LET ty == TypeFromName(FinalReg, c) IN [kind |-> kind, name |-> c, ok |-> ty.ok, t |-> ty.type]
      [] kind = "scalar" ->
            LET x == XSeq[c.xi]  y == ExactApply(c.fn, x) IN
            [kind |-> kind, fn |-> c.fn, t |-> TypeOfName(c.fn), xn |-> x.n, xe |-> x.e, yn |-> y.n, ye |-> y.e]
      [] kind = "module" ->
            LET y == ModuleResult(c.op, c.v, c.s) IN
            [kind |-> kind, op |-> c.op, t |-> TypeOfName(c.op), v |-> c.v, s |-> c.s, yn |-> y.n, ye |-> y.e]
      [] kind = "modalt" ->
            LET y == MultiplyAlt(c.v, c.s) IN
            [kind |-> "module", alt |-> TRUE, op |-> c.op, t |-> TypeOfName(c.op), v |-> c.v, s |-> c.s, yn |-> y.n, ye |-> y.e]
      [] kind = "factory" ->
            [kind |-> kind, g |-> c.g, untouched |-> Obs(FacView(c.s, 1)), private |-> Obs(FacView(c.s, Private))]

RegStep == kind = "reg" /\ c < Len(Registrations) /\ c' = c + 1 /\ UNCHANGED <<kind, emitted>>
\* NewNodeActivatorsFactory (pc 0, 1, 3) and Register / RegisterModule on the private factory (pc 2)
FacStep == /\ kind = "factory" /\ c.pc < 4
           /\ c' = [c EXCEPT !.pc = @ + 1,
                             !.s = IF c.pc = 2 THEN FacRegister(@, Private, c.g) ELSE FacNew(@, FreshMaps)]
           /\ UNCHANGED <<kind, emitted>>
Emit == /\ kind # "reg" /\ (kind = "factory" => c.pc = 4) /\ ~emitted
        /\ emitted' = TRUE /\ PrintT(ToJson(CaseOf)) /\ UNCHANGED <<kind, c>>
Next == RegStep \/ FacStep \/ Emit
Spec == Init /\ [][Next]_vars

(* ---- C18, registry ---- *)
RegOneToOne == kind = "reg" => OneToOne(RegAfter(c)) /\ KindsPartition(RegAfter(c))
UnknownIsError == kind = "bytype" =>
    LET r == FinalReg IN
    IF c \in RegisteredTypes
    THEN /\ NameFromType(r, c).ok
         /\ ActivateByTypeOk(r, c) # ActivateModuleByTypeOk(r, c)           \* exactly one kind; the other is an error
         /\ TypeFromName(r, NameFromType(r, c).name) = [ok |-> TRUE, type |-> c]
    ELSE ~NameFromType(r, c).ok /\ ~ActivateByTypeOk(r, c) /\ ~ActivateModuleByTypeOk(r, c)
NameRoundTrip == kind = "name" =>
    LET ty == TypeFromName(FinalReg, c) IN
    IF c \in RegisteredNames THEN ty.ok /\ NameFromType(FinalReg, ty.type) = [ok |-> TRUE, name |-> c] ELSE ~ty.ok
ASSUME AllTypesProbed == RegisteredTypes \subseteq TypeCodes

\* a registry is per factory: whatever was registered with the private factory, every other factory (the default one,
\* one created before and one created after the registration) still is the registry of NewNodeActivatorsFactory
FactoryIndependent == kind = "factory" =>
    \A f \in DOMAIN c.s.fac :
        FacView(c.s, f) = IF f = Private /\ c.pc >= 3 THEN Register(NewFactory, c.g) ELSE NewFactory
FactoryStepLaw == [][kind = "factory" /\ c.pc = 2 /\ c'.pc = 3 => OthersUnchanged(c.s, c'.s, Private)]_vars

(* ---- C18, exactly representable activations ---- *)
ScalarInRange == kind = "scalar" => InRangeD(c.fn, ExactApply(c.fn, XSeq[c.xi]))
ScalarMonotone == (kind = "scalar" /\ c.fn \in MonotoneNames /\ c.xi < NX /\ ExactDomain(c.fn, XSeq[c.xi + 1])) =>
                      DLe(ExactApply(c.fn, XSeq[c.xi]), ExactApply(c.fn, XSeq[c.xi + 1]))
\* fixed points that pin the definitions: saturation outside the squashing range, the midpoint, symmetry
ScalarShape == kind = "scalar" =>
    LET x == XSeq[c.xi]  y == ExactApply(c.fn, x)  mx == D(-x.n, x.e) IN
    /\ c.fn \in {"SigmoidApproximationActivation", "SigmoidSteepenedApproximationActivation"} =>
          /\ x.n = 0 => DEq(y, D(1, -1))
          /\ ExactDomain(c.fn, mx) => DEq(D(Pow2(-y.e) - y.n, y.e), ExactApply(c.fn, mx))      \* f(-x) = 1 - f(x)
          /\ (x.e >= 4 /\ x.n > 0) => DEq(y, DInt(1))
          /\ (x.e >= 4 /\ x.n < 0) => DEq(y, DInt(0))
    /\ c.fn = "LinearClippedActivation" => (DEq(y, x) \/ DEq(y, DInt(1)) \/ DEq(y, DInt(-1)))
    /\ c.fn = "LinearAbsActivation" => (DEq(y, x) \/ DEq(y, mx))

(* ---- C18, module reducers ---- *)
ModuleAltDefinition == kind = "modalt" => MultiplyAlt(c.v, c.s) = D(ProdDef(c.v), c.s * (OddCount(c.v) - (Len(c.v) - OddCount(c.v))))
ModuleDefinition == kind = "module" =>
    LET y == ModuleResult(c.op, c.v, c.s) IN
    CASE c.op = "MultiplyModuleActivation" -> y = D(ProdDef(c.v), c.s * Len(c.v))
      [] c.op = "MaxModuleActivation" -> IsMaxOf(y, c.v, c.s)
      [] c.op = "MinModuleActivation" -> IsMinOf(y, c.v, c.s)
=============================================================================

--------------------------- MODULE MC_RandGenome ---------------------------
(* X05: every parameter set in scope crossed with every connection matrix (small totals) or a family of matrices (larger  *)
(* totals) is an initial state; the shape laws are invariants; one case per parameter set (node list + per-cell table)    *)
(* is handed to the replayer, which looks the bits the real code draws up in the table.                                   *)
EXTENDS RandGenome, Json
CONSTANTS MaxIn, MaxOut, MaxHidden, AllMatricesUpTo
VARIABLES params, bits, emitted
vars == <<params, bits, emitted>>

ParamSet == { p \in [nin : 1..MaxIn, nout : 1..MaxOut, mh : 0..MaxHidden, n : 0..MaxHidden, rec : BOOLEAN] : p.n <= p.mh }
Family(p) == LET T == Total(p)  C == Cells(p) IN
    { {}, C } \cup { {c} : c \in C } \cup { C \ {c} : c \in C }
    \cup { { c \in C : Col(p, c) > Row(p, c) }, { c \in C : Col(p, c) < Row(p, c) }, { c \in C : Col(p, c) = Row(p, c) },
           { c \in C : c % 2 = 0 }, { c \in C : c % 3 = 1 } }
Matrices(p) == IF Total(p) <= AllMatricesUpTo THEN SUBSET Cells(p) ELSE Family(p)
Init == /\ emitted = FALSE /\ params \in ParamSet /\ bits \in Matrices(params)
Emit == /\ ~emitted /\ bits = {} /\ emitted' = TRUE /\ UNCHANGED <<params, bits>>
        /\ PrintT(ToJson([kind |-> "shape", p |-> params, total |-> Total(params), nodes |-> NodeList(params),
                          cells |-> CellTable(params),
                          draws_one_activator |-> Draws(params, {}, 1), draws_two_activators |-> Draws(params, {}, 2)]))
Next == Emit
Spec == Init /\ [][Next]_vars
Shape == ShapeLaws(params, bits)
TableIsDefinition == \A c \in Cells(params) : CellTable(params)[c + 1].c = c
=============================================================================

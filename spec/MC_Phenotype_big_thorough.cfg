\* size: genomes of 33, 48 and 70 nodes x every module over four positions
SPECIFICATION Spec
CONSTANTS
  Shapes <- ShapesBigThorough
  AllowOverlap = FALSE
  MaxIo = 3
INVARIANTS GenomesWellFormed Inv_Faithful Inv_GraphView Inv_Counts Inv_CountsOfGenome
CHECK_DEADLOCK FALSE

----------------------------- MODULE Trace_Quota -----------------------------
(* C09, binding B1: one line of the trace file (environment variable TRACE) per epoch of a real population evolved    *)
(* with real-valued fitness, observed after the real prepareForReproduction (and after reproduce / finalize for the  *)
(* offspring counts).  Species appear in the order in which countOffspring visited them.  Fixed point: U = 2^20      *)
(* units per offspring; ev.tol is the tolerance of the projection of float64 sums (units).                           *)
(*                                                                                                                   *)
(* Checked per epoch (the clauses of C09 that are observable there):                                                 *)
(*   TotalN        the quotas of the species that reproduce total the population size - in every mode (plain,       *)
(*                 babies stolen, delta coding)                                                                      *)
(*   ExpectSum     the expected offspring of all organisms total the population size                                 *)
(*   FloorCarry    plain mode: the running total of the quotas is the floor of the running sum of expectations       *)
(*                 (either floor within tol of an integer), apart from ONE make-up offspring given to one species    *)
(*                 when the final total came out one short; hence every quota is within one of its members' sum      *)
(*   ZeroPurged    plain / stolen mode: exactly the species with a positive quota stay listed                        *)
(*   Parents       every species keeps min(n, floor(survival_thresh * n) + 1) organisms as parents                   *)
(*   TopKept       ... and they are the top ones by (adjusted) fitness                                                  *)
(*   Offspring     reproduction yields exactly the population size                                                   *)
EXTENDS Quota, Json, IOUtils

Trace == ndJsonDeserialize(IOEnv.TRACE)
U == 1048576

VARIABLES i, verdict
vars == <<i, verdict>>

Idx(ev) == DOMAIN ev.species
QCum(ev, k) == SumTo([j \in Idx(ev) |-> ev.species[j].q], k)
FloorLo(c, tol) == IF c - tol < 0 THEN 0 ELSE (c - tol) \div U
FloorHi(c, tol) == (c + tol) \div U

TotalN(ev) == Sum([j \in Idx(ev) |-> IF ev.species[j].listed THEN ev.species[j].q ELSE 0]) = ev.n
ExpectSum(ev) == AbsI(ev.sume - ev.n * U) <= ev.tol + Len(ev.species)
\* m = 0: no make-up offspring; m = k: species k received it
CarryWith(ev, m) ==
    /\ \A k \in Idx(ev) :
         LET raw == QCum(ev, k) - (IF m # 0 /\ k >= m THEN 1 ELSE 0)
             own == ev.species[k].q - (IF m = k THEN 1 ELSE 0)
         IN  /\ raw >= FloorLo(ev.species[k].cum, ev.tol) /\ raw <= FloorHi(ev.species[k].cum, ev.tol)
             /\ AbsI(own * U - ev.species[k].share) < U + ev.tol
             /\ own >= 0
FloorCarry(ev) == ev.mode = "none" => \E m \in 0..Len(ev.species) : CarryWith(ev, m)
ZeroPurged(ev) == ev.mode # "delta" => \A k \in Idx(ev) : ev.species[k].listed <=> ev.species[k].q > 0
Parents(ev) == \A k \in Idx(ev) :
    LET s == ev.species[k] IN
    \E f \in { FloorLo(s.tn, 2), FloorHi(s.tn, 2) } : s.kept = MinI(s.size, f + 1)
\* the parents are the TOP organisms: nobody eliminated has a better (adjusted) fitness than somebody kept
TopKept(ev) == \A k \in Idx(ev) : LET s == ev.species[k] IN s.er = 0 \/ s.kr <= s.er
Offspring(ev) == ev.babies = ev.n /\ ev.after = ev.n

Clauses(ev) == [TotalN |-> TotalN(ev), ExpectSum |-> ExpectSum(ev), FloorCarry |-> FloorCarry(ev),
                ZeroPurged |-> ZeroPurged(ev), Parents |-> Parents(ev), TopKept |-> TopKept(ev), Offspring |-> Offspring(ev)]
AllTrue(c) == \A f \in DOMAIN c : c[f]

Init == i = 0 /\ verdict = [ok |-> TRUE, clauses |-> <<>>]
Next == /\ i < Len(Trace)
        /\ i' = i + 1
        /\ LET c == Clauses(Trace[i + 1]) IN verdict' = [ok |-> AllTrue(c), clauses |-> c]
Spec == Init /\ [][Next]_vars

Inv_C09 == verdict.ok
TraceAccepted == TLCGet("stats").diameter = Len(Trace) + 1
=============================================================================

// Package vhu holds the helpers shared by the harness commands (report files, NDJSON reading, float rendering,
// a complete option set).
package vhu

import (
	"bufio"
	"encoding/json"
	"fmt"
	"math"
	"os"
	"runtime/debug"
	"strconv"
)

// ReadNDJSON calls fn for every line of an NDJSON file.
func ReadNDJSON(path string, fn func(line []byte) error) error {
	f, err := os.Open(path)
	if err != nil {
		return err
	}
	defer f.Close()
	sc := bufio.NewScanner(f)
	sc.Buffer(make([]byte, 1<<20), 1<<28)
	for sc.Scan() {
		b := sc.Bytes()
		if len(b) == 0 {
			continue
		}
		if err := fn(b); err != nil {
			return err
		}
	}
	return sc.Err()
}

// Report is what every replay/record command writes as its result file.
type Report struct {
	Command     string                   `json:"command"`
	Evaluations int                      `json:"evaluations"`
	Nontrivial  int                      `json:"distinct_nontrivial"`
	Cases       int                      `json:"cases"`
	Failures    []map[string]interface{} `json:"failures"`
	Samples     []interface{}            `json:"samples"`
	Extra       map[string]interface{}   `json:"extra,omitempty"`
}

func (r *Report) Fail(f map[string]interface{}) {
	if len(r.Failures) < 50 {
		r.Failures = append(r.Failures, f)
	} else {
		if r.Extra == nil {
			r.Extra = map[string]interface{}{}
		}
		n, _ := r.Extra["failures_dropped"].(int)
		r.Extra["failures_dropped"] = n + 1
	}
}

func (r *Report) Sample(s interface{}) {
	if len(r.Samples) < 3 {
		r.Samples = append(r.Samples, s)
	}
}

func (r *Report) Write(path string) int {
	if r.Failures == nil {
		r.Failures = []map[string]interface{}{}
	}
	if r.Samples == nil {
		r.Samples = []interface{}{}
	}
	b, err := json.MarshalIndent(r, "", " ")
	if err != nil {
		fmt.Fprintln(os.Stderr, "vh: cannot encode Report:", err)
		return 2
	}
	if err := os.WriteFile(path, b, 0o644); err != nil {
		fmt.Fprintln(os.Stderr, "vh: cannot write Report:", err)
		return 2
	}
	if len(r.Failures) > 0 {
		return 1
	}
	return 0
}

// Fstr renders a float64 exactly (shortest round-trip) for reports.
func Fstr(x float64) string { return strconv.FormatFloat(x, 'g', -1, 64) }

func Hexbits(x float64) string { return fmt.Sprintf("%016x", math.Float64bits(x)) }

func CloseRel(a, b, tol float64) bool {
	if a == b {
		return true
	}
	if math.IsNaN(a) || math.IsNaN(b) || math.IsInf(a, 0) || math.IsInf(b, 0) {
		return false
	}
	d := math.Abs(a - b)
	m := math.Max(math.Abs(a), math.Abs(b))
	return d <= tol*math.Max(m, 1)
}

// Guard runs fn and converts a panic into an error string.
func Guard(fn func()) (panicked string) {
	defer func() {
		if r := recover(); r != nil {
			panicked = fmt.Sprint(r)
			if os.Getenv("VERIF_STACK") != "" {
				fmt.Fprintf(os.Stderr, "panic: %v\n%s\n", r, debug.Stack())
			}
		}
	}()
	fn()
	return ""
}

package vhu

import (
	"bytes"
	"os"
	"strconv"

	"github.com/yaricom/goNEAT/v4/neat"
	"github.com/yaricom/goNEAT/v4/neat/genetics"
	neatmath "github.com/yaricom/goNEAT/v4/neat/math"
)

// BaseOptions returns a complete, valid option set (values of data/xor.neat) with the given population size.
func BaseOptions(popSize int) *neat.Options {
	return &neat.Options{
		TraitParamMutProb: 0.5, TraitMutationPower: 1.0, WeightMutPower: 2.5,
		DisjointCoeff: 1.0, ExcessCoeff: 1.0, MutdiffCoeff: 0.4, CompatThreshold: 3.0,
		AgeSignificance: 1.0, SurvivalThresh: 0.2,
		MutateOnlyProb: 0.25, MutateRandomTraitProb: 0.1, MutateLinkTraitProb: 0.1, MutateNodeTraitProb: 0.1,
		MutateLinkWeightsProb: 0.9, MutateToggleEnableProb: 0.0, MutateGeneReenableProb: 0.0,
		MutateAddNodeProb: 0.03, MutateAddLinkProb: 0.08, MutateConnectSensors: 0.5,
		InterspeciesMateRate: 0.001, MateMultipointProb: 0.3, MateMultipointAvgProb: 0.3, MateSinglepointProb: 0.3,
		MateOnlyProb: 0.2, RecurOnlyProb: 0.0,
		PopSize: popSize, DropOffAge: 50, NewLinkTries: 50, PrintEvery: 1000, BabiesStolen: 0,
		NumRuns: 1, NumGenerations: 1,
		EpochExecutorType: neat.EpochExecutorTypeSequential, GenCompatMethod: neat.GenomeCompatibilityMethodFast,
		NodeActivators:     []neatmath.NodeActivationType{neatmath.SigmoidSteepenedActivation},
		NodeActivatorsProb: []float64{1.0},
		LogLevel:           "error",
	}
}

const XorStartGenome = `genomestart 1
trait 1 0.1 0 0 0 0 0 0 0
trait 2 0.2 0 0 0 0 0 0 0
trait 3 0.3 0 0 0 0 0 0 0
node 1 0 1 3 NullActivation
node 2 0 1 1 NullActivation
node 3 0 1 1 NullActivation
node 4 0 0 2 SigmoidSteepenedActivation
gene 1 1 4 0.0 false 1 0 true
gene 2 2 4 0.0 false 2 0 true
gene 3 3 4 0.0 false 3 0 true
genomeend 1
`

func ReadGenomeString(s string, id int) *genetics.Genome {
	g, err := genetics.ReadGenome(bytes.NewBufferString(s), id)
	if err != nil {
		panic(err)
	}
	return g
}

func EnvSeed() int64 {
	if v, err := strconv.ParseInt(os.Getenv("VERIF_SEED"), 10, 64); err == nil {
		return v
	}
	return 1
}

package main

import (
	"encoding/json"
	"flag"
	"fmt"
	"math"
	"sort"
	"strings"

	neatmath "github.com/yaricom/goNEAT/v4/neat/math"
	"github.com/yaricom/goNEAT/v4/neat/network"

	"verifharness/vhu"
)

// C18 replay (B2): cases printed by MC_Activations are put to the real neatmath.NodeActivators registry.
//   bytype : every byte value as a type code - ActivateByType / ActivateModuleByType / ActivationNameFromType
//   name   : registered and unregistered names - ActivationTypeFromName
//   scalar : an exactly representable activation at the dyadic input xn*2^xe must return exactly yn*2^ye
//   module : a module reducer on the integer vector v scaled by 2^s must return exactly yn*2^ye
//   factory: a registration on a private factory must not be visible in any other factory (factory.go); these cases
//            are run BEFORE all others and once more AFTER them, so that a default registry damaged through a private
//            factory is also met by the ordinary cases
// The specification's names are bound to the code through the exported Go constants below, so a name registered
// for the wrong function or constant is seen as a wrong value.  A difference between the specification's registry
// table and the code's that does not break the property statement (a new registration, a renamed one) is reported as
// drift (not a verdict), never as a violation.

var goConst = map[string]neatmath.NodeActivationType{
	"SigmoidPlainActivation":                  neatmath.SigmoidPlainActivation,
	"SigmoidReducedActivation":                neatmath.SigmoidReducedActivation,
	"SigmoidBipolarActivation":                neatmath.SigmoidBipolarActivation,
	"SigmoidSteepenedActivation":              neatmath.SigmoidSteepenedActivation,
	"SigmoidApproximationActivation":          neatmath.SigmoidApproximationActivation,
	"SigmoidSteepenedApproximationActivation": neatmath.SigmoidSteepenedApproximationActivation,
	"SigmoidInverseAbsoluteActivation":        neatmath.SigmoidInverseAbsoluteActivation,
	"SigmoidLeftShiftedActivation":            neatmath.SigmoidLeftShiftedActivation,
	"SigmoidLeftShiftedSteepenedActivation":   neatmath.SigmoidLeftShiftedSteepenedActivation,
	"SigmoidRightShiftedSteepenedActivation":  neatmath.SigmoidRightShiftedSteepenedActivation,
	"TanhActivation":                          neatmath.TanhActivation,
	"GaussianBipolarActivation":               neatmath.GaussianBipolarActivation,
	"GaussianActivation":                      neatmath.GaussianActivation,
	"LinearActivation":                        neatmath.LinearActivation,
	"LinearAbsActivation":                     neatmath.LinearAbsActivation,
	"LinearClippedActivation":                 neatmath.LinearClippedActivation,
	"NullActivation":                          neatmath.NullActivation,
	"SignActivation":                          neatmath.SignActivation,
	"SineActivation":                          neatmath.SineActivation,
	"StepActivation":                          neatmath.StepActivation,
	"MultiplyModuleActivation":                neatmath.MultiplyModuleActivation,
	"MaxModuleActivation":                     neatmath.MaxModuleActivation,
	"MinModuleActivation":                     neatmath.MinModuleActivation,
}

type activCase struct {
	Kind string `json:"kind"`
	// registry
	T      int    `json:"t"`
	Scalar bool   `json:"scalar"`
	Module bool   `json:"module"`
	Named  bool   `json:"named"`
	Name   string `json:"name"`
	Ok     bool   `json:"ok"`
	// scalar
	Fn string `json:"fn"`
	Xn int64  `json:"xn"`
	Xe int    `json:"xe"`
	Yn int64  `json:"yn"`
	Ye int    `json:"ye"`
	// module
	Op string  `json:"op"`
	V  []int64 `json:"v"`
	S  int     `json:"s"`
	// alt: odd positions (1st, 3rd, ...) are scaled by 2^s, even positions by 2^-s
	Alt bool `json:"alt"`
	// factory: one extra registration on a private factory, and what an untouched / the customised registry answers
	G         *extraReg    `json:"g"`
	Untouched *registryObs `json:"untouched"`
	Private   *registryObs `json:"private"`
}

func init() { commands["replay-activ"] = replayActiv }

type verdict struct {
	bad   []string // violations of the property statement
	drift []string // specification table and code registry differ without breaking the statement
	info  []string // behaviour the statement leaves open differs from the code as specified (information only)
	evals int
}

func (v *verdict) fail(format string, a ...interface{}) {
	v.bad = append(v.bad, fmt.Sprintf(format, a...))
}
func (v *verdict) differ(format string, a ...interface{}) {
	v.drift = append(v.drift, fmt.Sprintf(format, a...))
}

// what the code's registry says about a type code
type typeView struct {
	scalarOk, moduleOk, named bool // a value was returned for some probe argument
	scalarAll, moduleAll      bool // ... for every probe argument
	name                      string
	roundTrip                 bool // named and ActivationTypeFromName(name) == t
	panicked                  string
}

func viewType(t neatmath.NodeActivationType) typeView {
	var tv typeView
	a := neatmath.NodeActivators
	tv.panicked = vhu.Guard(func() {
		// "a value instead of an error" for ANY argument counts: the lookup must not depend on the argument (inputs of several
		// magnitudes, vectors of one, two and three members)
		tv.scalarAll, tv.moduleAll = true, true
		for _, x := range []float64{0.5, 0, -3, 1e300} {
			_, err := a.ActivateByType(x, nil, t)
			tv.scalarOk = tv.scalarOk || err == nil
			tv.scalarAll = tv.scalarAll && err == nil
		}
		for _, xs := range [][]float64{{1, 2}, {7}, {3, -1, 4}} {
			_, err := a.ActivateModuleByType(xs, nil, t)
			tv.moduleOk = tv.moduleOk || err == nil
			tv.moduleAll = tv.moduleAll && err == nil
		}
		n, err := a.ActivationNameFromType(t)
		tv.named = err == nil
		if tv.named {
			tv.name = n
			back, err := a.ActivationTypeFromName(n)
			tv.roundTrip = err == nil && back == t
		}
	})
	return tv
}

// a registration the code is consistent about: named, round trip, exactly one kind of function
func (tv typeView) consistent() bool { return tv.named && tv.roundTrip && tv.scalarOk != tv.moduleOk }

func checkByType(c *activCase, v *verdict) {
	t := neatmath.NodeActivationType(c.T)
	tv := viewType(t)
	v.evals += 9
	if tv.panicked != "" {
		v.fail("lookup of type %d panicked: %s", c.T, tv.panicked)
		return
	}
	if tv.named && !tv.roundTrip {
		back, err := neatmath.NodeActivators.ActivationTypeFromName(tv.name)
		v.fail("type %d -> name %q -> (type %d, err %v): names and type codes are not one-to-one", c.T, tv.name, back, err)
	}
	specKnown := c.Named
	switch {
	case specKnown && tv.named:
		if tv.name != c.Name {
			v.differ("type %d is named %q by the code, %q by the specification", c.T, tv.name, c.Name)
		}
		if c.Scalar && tv.moduleOk {
			v.fail("ActivateModuleByType(%d %s) returned a value for a scalar activation type (error expected)", c.T, c.Name)
		}
		if c.Module && tv.scalarOk {
			v.fail("ActivateByType(%d %s) returned a value for a module activation type (error expected)", c.T, c.Name)
		}
		if c.Scalar && !tv.scalarAll {
			v.differ("ActivateByType(%d %s) returned an error; the specification has a scalar function there", c.T, c.Name)
		}
		if c.Module && !tv.moduleAll {
			v.differ("ActivateModuleByType(%d %s) returned an error; the specification has a module function there", c.T, c.Name)
		}
	case specKnown && !tv.named:
		if tv.scalarOk || tv.moduleOk {
			v.fail("type %d has a function but no name: ActivationNameFromType fails while activation succeeds", c.T)
		} else {
			v.differ("type %d (%s) is not registered in the code", c.T, c.Name)
		}
	case !specKnown && tv.consistent():
		v.differ("the code registers type %d as %q, unknown to the specification", c.T, tv.name)
		// no closed form is tabulated for it; what the statement says of EVERY registered scalar function can still be
		// checked: a finite value for every input of magnitude up to 1e300
		if tv.scalarOk {
			for _, x := range []float64{0, 1e-300, 1e-9, 0.5, 1, 2, 7.5, 40, 700, 710, 1e3, 1e6, 1e18, 1e150, 1e300} {
				for _, sx := range []float64{x, -x} {
					y, err := neatmath.NodeActivators.ActivateByType(sx, nil, t)
					v.evals++
					if err == nil && (math.IsNaN(y) || math.IsInf(y, 0)) {
						v.fail("registered scalar activation %q (type %d) returns %v for input %v: not a finite value", tv.name, c.T, y, sx)
						return
					}
				}
			}
		}
	case !specKnown:
		if tv.scalarOk {
			v.fail("ActivateByType(%d) returned a value for an unknown type (error expected)", c.T)
		}
		if tv.moduleOk {
			v.fail("ActivateModuleByType(%d) returned a value for an unknown type (error expected)", c.T)
		}
		if tv.named && tv.roundTrip {
			v.fail("type %d is named %q but has no usable function of exactly one kind", c.T, tv.name)
		}
	}
}

func queryName(name string) (t neatmath.NodeActivationType, ok bool, back string, backOk bool, panicked string) {
	a := neatmath.NodeActivators
	panicked = vhu.Guard(func() {
		var err error
		t, err = a.ActivationTypeFromName(name)
		ok = err == nil
		if ok {
			back, err = a.ActivationNameFromType(t)
			backOk = err == nil
		}
	})
	return
}

func checkUnknownName(name string, v *verdict) {
	t, ok, back, backOk, p := queryName(name)
	v.evals++
	if p != "" {
		v.fail("ActivationTypeFromName(%q) panicked: %s", name, p)
		return
	}
	if !ok {
		return
	}
	if backOk && back == name && viewType(t).consistent() {
		v.differ("the code registers the name %q (type %d), unknown to the specification", name, t)
		return
	}
	v.fail("ActivationTypeFromName(%q) returned type %d without an error for an unregistered name (that type's name is %q)", name, t, back)
}

func checkName(c *activCase, specNames map[string]bool, v *verdict) {
	if !c.Ok {
		checkUnknownName(c.Name, v)
		return
	}
	t, ok, back, backOk, p := queryName(c.Name)
	v.evals++
	if p != "" {
		v.fail("ActivationTypeFromName(%q) panicked: %s", c.Name, p)
		return
	}
	if !ok {
		v.differ("the name %q is not registered in the code", c.Name)
		return
	}
	if !backOk || back != c.Name {
		v.fail("name %q -> type %d -> name %q: names and type codes are not one-to-one", c.Name, t, back)
	}
	if k, has := goConst[c.Name]; !has {
		v.differ("the harness has no Go constant for the specification's name %q", c.Name)
	} else if int(k) != c.T {
		v.differ("constant %s = %d in the code, %d in the specification", c.Name, k, c.T)
	} else if t != k {
		v.fail("ActivationTypeFromName(%q) = %d but the constant %s is %d", c.Name, t, c.Name, k)
	}
	// spellings derived from a registered name are unknown names unless the specification registers them too
	for _, d := range []string{strings.ToLower(c.Name), strings.ToUpper(c.Name), c.Name + " ", " " + c.Name, c.Name[:len(c.Name)-1],
		strings.TrimSuffix(c.Name, "Activation")} {
		if !specNames[d] {
			checkUnknownName(d, v)
		}
	}
}

// typesFor returns the ways the activation called `name` by the specification is reached in the code
func typesFor(name string, v *verdict) map[string]neatmath.NodeActivationType {
	out := map[string]neatmath.NodeActivationType{}
	if k, ok := goConst[name]; ok {
		out["constant "+name] = k
	}
	if t, err := neatmath.NodeActivators.ActivationTypeFromName(name); err == nil {
		out["ActivationTypeFromName(\""+name+"\")"] = t
	}
	return out
}

func sameValue(got, want float64) bool { return got == want && !math.IsNaN(got) }

func checkScalar(c *activCase, v *verdict) {
	x := math.Ldexp(float64(c.Xn), c.Xe)
	want := math.Ldexp(float64(c.Yn), c.Ye)
	a := neatmath.NodeActivators
	paths := typesFor(c.Fn, v)
	if len(paths) == 0 {
		v.differ("activation %q is unknown to the code", c.Fn)
	}
	for how, t := range paths {
		for _, aux := range [][]float64{nil, {0.5, -3}} {
			var got float64
			var err error
			p := vhu.Guard(func() { got, err = a.ActivateByType(x, aux, t) })
			v.evals++
			switch {
			case p != "":
				v.fail("%s(%s) via %s panicked: %s", c.Fn, vhu.Fstr(x), how, p)
			case err != nil:
				v.differ("%s via %s: ActivateByType returned an error: %v", c.Fn, how, err)
			case !sameValue(got, want):
				v.fail("%s(%s) via %s = %s, definition gives %s (aux %v)", c.Fn, vhu.Fstr(x), how, vhu.Fstr(got), vhu.Fstr(want), aux)
			}
			if err != nil || p != "" {
				break
			}
		}
		// the same through a real neuron node (network.ActivateNode, neat/network/common.go)
		node := network.NewNNode(7, network.HiddenNeuron)
		node.ActivationType = t
		node.ActivationSum = x
		if xi := int(math.Float64bits(x) % 3); xi > 0 {
			node.Params = auxProbes[xi] // a node may carry trait-derived parameters; no closed form reads them
		}
		var err error
		p := vhu.Guard(func() { err = network.ActivateNode(node, a) })
		v.evals++
		if p != "" {
			v.fail("ActivateNode with %s(%s) panicked: %s", c.Fn, vhu.Fstr(x), p)
		} else if err == nil && (!sameValue(node.Activation, want) || node.ActivationsCount != 1) {
			v.fail("ActivateNode: %s(%s) via %s left activation %s (count %d), definition gives %s", c.Fn, vhu.Fstr(x), how,
				vhu.Fstr(node.Activation), node.ActivationsCount, vhu.Fstr(want))
		}
	}
}

func checkModule(c *activCase, v *verdict) {
	in := make([]float64, len(c.V))
	for i, k := range c.V {
		e := c.S
		if c.Alt && i%2 == 1 {
			e = -c.S
		}
		in[i] = math.Ldexp(float64(k), e)
	}
	want := math.Ldexp(float64(c.Yn), c.Ye)
	a := neatmath.NodeActivators
	paths := typesFor(c.Op, v)
	if len(paths) == 0 {
		v.differ("module activation %q is unknown to the code", c.Op)
	}
	show := func() string {
		s := make([]string, len(in))
		for i, x := range in {
			s[i] = vhu.Fstr(x)
		}
		return "[" + strings.Join(s, " ") + "]"
	}
	for how, t := range paths {
		arg := append([]float64(nil), in...)
		var got []float64
		var err error
		var modAux []float64
		if len(in)%2 == 0 {
			modAux = auxProbes[len(in)%len(auxProbes)]
		}
		p := vhu.Guard(func() { got, err = a.ActivateModuleByType(arg, modAux, t) })
		v.evals++
		switch {
		case p != "":
			v.fail("%s%s via %s panicked: %s", c.Op, show(), how, p)
		case err != nil:
			v.differ("%s via %s: ActivateModuleByType returned an error: %v", c.Op, how, err)
		case len(got) != 1:
			v.fail("%s%s via %s returned %d values, one expected", c.Op, show(), how, len(got))
		case !sameValue(got[0], want):
			v.fail("%s%s via %s = %s, definition gives %s", c.Op, show(), how, vhu.Fstr(got[0]), vhu.Fstr(want))
		}
		for i := range in {
			if arg[i] != in[i] {
				v.fail("%s%s modified its input vector", c.Op, show())
				break
			}
		}
		if err != nil || p != "" {
			continue
		}
		// the same through a real module node (network.ActivateModule)
		module := network.NewNNode(100, network.HiddenNeuron)
		module.ActivationType = t
		module.Params = modAux
		for i, x := range in {
			s := network.NewNNode(i+1, network.InputNeuron)
			s.SensorLoad(x)
			module.AddIncoming(s, 1.0)
		}
		out := network.NewNNode(200, network.OutputNeuron)
		module.AddOutgoing(out, 1.0)
		p = vhu.Guard(func() { err = network.ActivateModule(module, a) })
		v.evals++
		if p != "" {
			v.fail("ActivateModule with %s%s panicked: %s", c.Op, show(), p)
		} else if err != nil {
			v.fail("ActivateModule with %s%s returned an error: %v", c.Op, show(), err)
		} else if !sameValue(out.Activation, want) {
			v.fail("ActivateModule: %s%s via %s set the output node to %s, definition gives %s", c.Op, show(), how,
				vhu.Fstr(out.Activation), vhu.Fstr(want))
		}
	}
}

// nontrivial: the case exercises a branch where the defects of such code live (rule quoted in the evidence)
func nontrivial(c *activCase) bool {
	switch c.Kind {
	case "bytype":
		return !c.Named
	case "name":
		return !c.Ok
	case "scalar":
		if c.Xn == 0 || c.Xe >= 4 || c.Xe < -60 {
			return true
		}
		if c.Xe < 0 && c.Xe >= -12 {
			one := int64(1) << uint(-c.Xe)
			for _, b := range []int64{-4, -1, 1, 4} {
				if d := c.Xn - b*one; d >= -1 && d <= 1 {
					return true
				}
			}
		}
		return false
	case "module":
		allNeg := true
		for _, k := range c.V {
			allNeg = allNeg && k < 0
		}
		return (c.S >= 62 || allNeg) && len(c.V) > 1
	}
	return false
}

func replayActiv(args []string) int {
	fs := flag.NewFlagSet("replay-activ", flag.ExitOnError)
	cases := fs.String("cases", "", "NDJSON cases printed by MC_Activations")
	out := fs.String("out", "", "report file")
	_ = fs.Parse(args)
	rep := &vhu.Report{Command: "replay-activ", Extra: map[string]interface{}{}}
	// first pass: the specification's registered names (needed to classify derived spellings)
	specNames := map[string]bool{}
	extraNames := map[string]bool{}
	var factoryCases [][]byte
	err := vhu.ReadNDJSON(*cases, func(line []byte) error {
		var c activCase
		if err := json.Unmarshal(line, &c); err != nil {
			return err
		}
		if c.Kind == "name" && c.Ok {
			specNames[c.Name] = true
		}
		if c.Kind == "bytype" && c.Named {
			specNames[c.Name] = true
		}
		if c.Kind == "factory" {
			factoryCases = append(factoryCases, append([]byte(nil), line...))
			if c.G != nil {
				extraNames[c.G.Name] = true
			}
		}
		return nil
	})
	if err != nil {
		fmt.Println("vh_activ replay-activ:", err)
		return 2
	}
	for n := range goConst {
		specNames[n] = true
	}
	drift := map[string]bool{}
	openDiff := map[string]bool{} // differences in behaviour the statement leaves open (information)
	kinds := map[string]int{}
	sigs := map[string]int{}
	// names every factory is asked about in the factory cases: the specification's, the extra ones, a few unknown
	var askNames []string
	for n := range specNames {
		askNames = append(askNames, n)
	}
	for n := range extraNames {
		if !specNames[n] {
			askNames = append(askNames, n)
		}
	}
	askNames = append(askNames, "", "UnknownActivation", "sigmoidplainactivation")
	sort.Strings(askNames)
	factoryPass := func(pass string) error {
		for _, line := range factoryCases {
			var c activCase
			if err := json.Unmarshal(line, &c); err != nil {
				return err
			}
			v := &verdict{}
			if err := checkFactory(&c, askNames, v); err != nil {
				return err
			}
			rep.Evaluations += v.evals
			for _, d := range v.drift {
				drift[d] = true
			}
			for _, d := range v.info {
				openDiff[d] = true
			}
			if pass == "before" {
				rep.Cases++
				kinds[c.Kind]++
				if c.G.Type < 100 || specNames[c.G.Name] { // overrides an existing type code or takes an existing name
					rep.Nontrivial++
				}
			}
			if len(v.bad) > 0 {
				sigs[factorySignature]++
				if sigs[factorySignature] <= 12 {
					rep.Fail(map[string]interface{}{"case": json.RawMessage(line), "signature": factorySignature,
						"what": "(" + pass + " the other cases) " + strings.Join(v.bad, "; ")})
				}
			}
		}
		return nil
	}
	if err := factoryPass("before"); err != nil {
		fmt.Println("vh_activ replay-activ:", err)
		return 2
	}
	err = vhu.ReadNDJSON(*cases, func(line []byte) error {
		var c activCase
		if err := json.Unmarshal(line, &c); err != nil {
			return err
		}
		if c.Kind == "factory" {
			return nil
		}
		rep.Cases++
		kinds[c.Kind]++
		v := &verdict{}
		switch c.Kind {
		case "bytype":
			checkByType(&c, v)
		case "name":
			checkName(&c, specNames, v)
		case "scalar":
			checkScalar(&c, v)
		case "module":
			checkModule(&c, v)
		default:
			return fmt.Errorf("unknown case kind %q", c.Kind)
		}
		rep.Evaluations += v.evals
		raw := json.RawMessage(append([]byte(nil), line...))
		if nontrivial(&c) {
			rep.Nontrivial++
			if rep.Nontrivial%997 == 1 {
				rep.Sample(raw)
			}
		}
		for _, d := range v.drift {
			drift[d] = true
		}
		if len(v.bad) > 0 {
			sig := "activ " + c.Kind + " " + c.Fn + c.Op + c.Name
			if c.Kind == "bytype" {
				sig = fmt.Sprintf("activ bytype %d", c.T)
			}
			sigs[sig]++
			if sigs[sig] <= 12 { // keep room for other signatures among the recorded failures
				rep.Fail(map[string]interface{}{"case": raw, "what": strings.Join(v.bad, "; "), "signature": sig})
			}
		}
		return nil
	})
	if err == nil {
		err = factoryPass("after")
	}
	if err != nil {
		fmt.Println("vh_activ replay-activ:", err)
		return 2
	}
	// the registry as the code has it (every byte value probed), for the evidence and for drift diagnosis
	var reg []string
	for t := 0; t < 256; t++ {
		tv := viewType(neatmath.NodeActivationType(t))
		if tv.named || tv.scalarOk || tv.moduleOk {
			k := "scalar"
			if tv.moduleOk {
				k = "module"
			}
			reg = append(reg, fmt.Sprintf("%d:%s:%s", t, tv.name, k))
		}
	}
	rep.Extra["code_registry"] = reg
	rep.Extra["case_kinds"] = kinds
	if len(sigs) > 0 {
		rep.Extra["failing_cases_by_signature"] = sigs
	}
	if len(drift) > 0 {
		var ds []string
		for d := range drift {
			ds = append(ds, d)
		}
		sort.Strings(ds)
		if len(ds) > 40 {
			ds = ds[:40]
		}
		rep.Extra["drift"] = ds
	}
	if len(openDiff) > 0 {
		var od []string
		for d := range openDiff {
			od = append(od, d)
		}
		sort.Strings(od)
		if len(od) > 12 {
			od = od[:12]
		}
		rep.Extra["open_behaviour_differs"] = od
	}
	return rep.Write(*out)
}

package main

import (
	"encoding/json"
	"flag"
	"fmt"
	"math"
	"os"
	"strconv"

	neatmath "github.com/yaricom/goNEAT/v4/neat/math"

	"verifharness/vhu"
)

// C18 recording (B1): every scalar activation the code registers (found by probing all 256 type codes) is evaluated
// through NodeActivators.ActivateByType at every input of the grid written by bin/gen_acttables.py.  One row per input:
//   {"k": index, "x": [s,c1,c2,c3], "ys": {"<registered name>": [s,c1,c2,c3,q], ...}}
// where [s,c1,c2,c3] are the sign and the 63 magnitude bits of the float64 in three 21-bit chunks (the encoding of
// Activations.tla, part 3) and q = floor(y * 2^28) (+-2^30 when y is not finite or |y| >= 4).  The rows are judged by
// TLC (Trace_Activations.tla), not here.

// auxiliary parameter vectors a node may carry (NNode.Params, derived from a trait): none of the registered closed forms reads them
var auxProbes = [][]float64{{0.5, -3}, {0, 0}, {1, 2}, {0.1, 0, 0, 0, 0, 0, 0, 0}}

func init() { commands["eval-grid"] = evalGrid }

const qSentinel = 1 << 30

func chunks(x float64) []int64 {
	b := math.Float64bits(x)
	mag := b & (1<<63 - 1)
	return []int64{int64(b >> 63), int64(mag >> 42), int64((mag >> 21) & (1<<21 - 1)), int64(mag & (1<<21 - 1))}
}

func fixed28(y float64) int64 {
	if math.IsNaN(y) || y >= 4 {
		return qSentinel
	}
	if y <= -4 {
		return -qSentinel
	}
	return int64(math.Floor(y * (1 << 28)))
}

type scalarFn struct {
	t    neatmath.NodeActivationType
	name string
}

func evalGrid(args []string) int {
	fs := flag.NewFlagSet("eval-grid", flag.ExitOnError)
	grid := fs.String("grid", "", "NDJSON grid written by gen_acttables.py: {k, hex}")
	trace := fs.String("trace", "", "NDJSON trace to write")
	out := fs.String("out", "", "report file")
	_ = fs.Parse(args)
	rep := &vhu.Report{Command: "eval-grid", Extra: map[string]interface{}{}}
	a := neatmath.NodeActivators
	var fns []scalarFn
	for t := 0; t < 256; t++ {
		tt := neatmath.NodeActivationType(t)
		var name string
		var ok bool
		if p := vhu.Guard(func() {
			n, err := a.ActivationNameFromType(tt)
			_, err2 := a.ActivateByType(0.5, nil, tt)
			name, ok = n, err == nil && err2 == nil
		}); p != "" {
			rep.Fail(map[string]interface{}{"what": fmt.Sprintf("lookup of type %d panicked: %s", t, p), "signature": fmt.Sprintf("activ bytype %d", t)})
			continue
		}
		if ok {
			fns = append(fns, scalarFn{tt, name})
		}
	}
	names := make([]string, len(fns))
	for i, f := range fns {
		names[i] = f.name
	}
	rep.Extra["functions"] = names
	w, err := os.Create(*trace)
	if err != nil {
		fmt.Println("vh_activ eval-grid:", err)
		return 2
	}
	defer w.Close()
	enc := json.NewEncoder(w)
	err = vhu.ReadNDJSON(*grid, func(line []byte) error {
		var g struct {
			K   int    `json:"k"`
			Hex string `json:"hex"`
		}
		if err := json.Unmarshal(line, &g); err != nil {
			return err
		}
		bits, err := strconv.ParseUint(g.Hex, 16, 64)
		if err != nil {
			return err
		}
		x := math.Float64frombits(bits)
		ys := map[string][]int64{}
		for _, f := range fns {
			var y float64
			var ferr error
			if p := vhu.Guard(func() { y, ferr = a.ActivateByType(x, nil, f.t) }); p != "" || ferr != nil {
				rep.Fail(map[string]interface{}{"case": map[string]string{"fn": f.name, "hex": g.Hex},
					"what":      fmt.Sprintf("%s(%s) panicked or failed: %s %v", f.name, vhu.Fstr(x), p, ferr),
					"signature": "activ grid " + f.name + " panic"})
				y = math.NaN()
			}
			rep.Evaluations++
			ys[f.name] = append(chunks(y), fixed28(y))
			// the closed forms have no parameters: the auxiliary vector (a node's trait-derived Params) must not matter
			for _, aux := range auxProbes {
				var ya float64
				p := vhu.Guard(func() { ya, _ = a.ActivateByType(x, aux, f.t) })
				rep.Evaluations++
				if p != "" || math.Float64bits(ya) != math.Float64bits(y) && !(math.IsNaN(ya) && math.IsNaN(y)) {
					rep.Fail(map[string]interface{}{"case": map[string]string{"fn": f.name, "hex": g.Hex},
						"what": fmt.Sprintf("%s(%s) = %s with auxiliary parameters %v, %s without: the definition has no parameters %s",
							f.name, vhu.Fstr(x), vhu.Fstr(ya), aux, vhu.Fstr(y), p),
						"signature": "activ grid " + f.name + " aux"})
					break
				}
			}
		}
		rep.Cases++
		if rep.Cases%1201 == 7 {
			rep.Sample(map[string]interface{}{"x": vhu.Fstr(x), "SigmoidPlainActivation": ys["SigmoidPlainActivation"]})
		}
		return enc.Encode(map[string]interface{}{"k": g.K, "x": chunks(x), "ys": ys})
	})
	if err != nil {
		fmt.Println("vh_activ eval-grid:", err)
		return 2
	}
	return rep.Write(*out)
}

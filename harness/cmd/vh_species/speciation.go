package main

import (
	"context"
	"encoding/json"
	"flag"
	"fmt"

	"github.com/yaricom/goNEAT/v4/neat"
	"github.com/yaricom/goNEAT/v4/neat/genetics"
	"github.com/yaricom/goNEAT/v4/neat/network"

	"verifharness/vhu"
)

// C08 replay (B2): every behaviour of MC_Speciation - an existing population (species with representative genomes),
// a batch of arriving organisms, coefficients and threshold - is rebuilt from real genomes / organisms / species in a
// real Population and handed to the real Population.speciate under both compatibility methods, once as a single
// batch and once organism by organism. After every call each organism's species (by id), Population.LastSpecies,
// the membership lists and the back pointers are compared with what the specification assigns.

type specOrg struct {
	Oid   int     `json:"oid"`
	Genes []int64 `json:"genes"`
	Mut   int     `json:"mut"`
}
type specSpecies struct {
	Id      int       `json:"id"`
	Members []specOrg `json:"members"`
}
type specStep struct {
	Sid         int   `json:"sid"`
	Founded     bool  `json:"founded"`
	Last        int   `json:"last"`
	NSpecies    int   `json:"nspecies"`
	NCompat     int   `json:"ncompat"`
	NNearest    int   `json:"nnearest"`
	FirstCompat int   `json:"firstcompat"`
	Near        []int `json:"near"`
	Idx         int   `json:"idx"`
}
type specCase struct {
	Co struct {
		E int `json:"e"`
		D int `json:"d"`
		W int `json:"w"`
	} `json:"co"`
	Thr     int           `json:"thr"`
	Last0   int           `json:"last0"`
	Species []specSpecies `json:"species"`
	Batch   []specOrg     `json:"batch"`
	Steps   []specStep    `json:"steps"`
	Final   []struct {
		Id      int   `json:"id"`
		Members []int `json:"members"`
	} `json:"final"`
}

func init() { commands["replay-speciation"] = replaySpeciation }

// modelGenome builds a real genome with the given innovation numbers; every gene carries the mutation number mut.
func modelGenome(id int, genes []int64, mut int) *genetics.Genome {
	in := network.NewNNode(1, network.InputNeuron)
	out := network.NewNNode(2, network.OutputNeuron)
	gs := make([]*genetics.Gene, len(genes))
	for i, inn := range genes {
		gs[i] = genetics.NewGene(float64(mut), in, out, false, inn, float64(mut))
	}
	tr := neat.NewTrait()
	tr.Id = 1
	return genetics.NewGenome(id, []*neat.Trait{tr}, []*network.NNode{in, out}, gs)
}

type realPop struct {
	pop   *genetics.Population
	oidOf map[*genetics.Organism]int
	batch []*genetics.Organism
}

func (c *specCase) build() *realPop {
	rp := &realPop{pop: genetics.VerifNewEmptyPopulation(), oidOf: map[*genetics.Organism]int{}}
	rp.pop.LastSpecies = c.Last0
	for _, s := range c.Species {
		sp := genetics.NewSpecies(s.Id)
		for _, m := range s.Members {
			org, _ := genetics.NewOrganism(0, modelGenome(m.Oid, m.Genes, m.Mut), 1)
			org.Species = sp
			sp.VerifAddOrganism(org)
			rp.pop.Organisms = append(rp.pop.Organisms, org)
			rp.oidOf[org] = m.Oid
		}
		rp.pop.Species = append(rp.pop.Species, sp)
	}
	for _, m := range c.Batch {
		org, _ := genetics.NewOrganism(0, modelGenome(m.Oid, m.Genes, m.Mut), 1)
		rp.batch = append(rp.batch, org)
		rp.oidOf[org] = m.Oid
	}
	return rp
}

// expected population after the first k arrivals, derived from the recorded choices (bookkeeping only)
type expSpecies struct {
	id      int
	members []int
}

func (c *specCase) expectedAfter(k int) ([]expSpecies, int) {
	var sp []expSpecies
	for _, s := range c.Species {
		e := expSpecies{id: s.Id}
		for _, m := range s.Members {
			e.members = append(e.members, m.Oid)
		}
		sp = append(sp, e)
	}
	last := c.Last0
	for i := 0; i < k; i++ {
		st := c.Steps[i]
		if st.Founded {
			sp = append(sp, expSpecies{id: st.Sid, members: []int{c.Batch[i].Oid}})
		} else {
			sp[st.Idx-1].members = append(sp[st.Idx-1].members, c.Batch[i].Oid)
		}
		last = st.Last
	}
	return sp, last
}

// compareAfter checks the real population against the specification after the first k arrivals.
// It returns the violations of the statement and, separately, differences the statement does not speak about.
func (c *specCase) compareAfter(rp *realPop, k int) (bad string, info string, tieDiverged bool) {
	exp, last := c.expectedAfter(k)
	pop := rp.pop
	// which species object holds which organisms
	holder := map[*genetics.Organism][]*genetics.Species{}
	for _, sp := range pop.Species {
		for _, o := range sp.Organisms {
			holder[o] = append(holder[o], sp)
		}
	}
	for i := 0; i < k; i++ {
		org, st := rp.batch[i], c.Steps[i]
		if org.Species == nil {
			bad += fmt.Sprintf("arrival %d (oid %d) has no species; ", i+1, c.Batch[i].Oid)
			continue
		}
		if org.Species.Id != st.Sid {
			// with several equally close species the statement accepts any of them
			if !st.Founded && st.NNearest > 1 {
				okTie := false
				for _, n := range st.Near {
					if n-1 < len(pop.Species) && pop.Species[n-1] == org.Species {
						okTie = true
					}
				}
				if okTie {
					return bad, info, true
				}
			}
			bad += fmt.Sprintf("arrival %d (oid %d) was placed in species %d, the specification places it in species %d (%s, %d of %d species compatible); ",
				i+1, c.Batch[i].Oid, org.Species.Id, st.Sid, map[bool]string{true: "newly founded", false: "nearest compatible"}[st.Founded], st.NCompat, st.NSpecies)
		}
		hs := holder[org]
		if len(hs) != 1 || hs[0] != org.Species {
			bad += fmt.Sprintf("arrival %d (oid %d) is listed in %d species' organism lists / not in the species it points to; ", i+1, c.Batch[i].Oid, len(hs))
		}
	}
	if bad != "" {
		return
	}
	if pop.LastSpecies != last {
		bad += fmt.Sprintf("LastSpecies = %d after %d arrivals, the specification says %d; ", pop.LastSpecies, k, last)
	}
	// ids pairwise different
	ids := map[int]bool{}
	for _, sp := range pop.Species {
		if ids[sp.Id] {
			bad += fmt.Sprintf("species id %d occurs twice; ", sp.Id)
		}
		ids[sp.Id] = true
	}
	// species order and membership lists (order of the list is more than the statement says: information only)
	if len(pop.Species) != len(exp) {
		bad += fmt.Sprintf("%d species after %d arrivals, the specification says %d; ", len(pop.Species), k, len(exp))
		return
	}
	for i, sp := range pop.Species {
		if sp.Id != exp[i].id {
			info += fmt.Sprintf("species at position %d has id %d, specification %d; ", i+1, sp.Id, exp[i].id)
			continue
		}
		var got []int
		for _, o := range sp.Organisms {
			got = append(got, rp.oidOf[o])
			if o.Species != sp {
				bad += fmt.Sprintf("organism %d is listed in species %d but points elsewhere; ", rp.oidOf[o], sp.Id)
			}
		}
		if fmt.Sprint(got) != fmt.Sprint(exp[i].members) {
			info += fmt.Sprintf("species %d lists organisms %v, specification %v; ", sp.Id, got, exp[i].members)
		}
	}
	return
}

func (c *specCase) options(method neat.GenomeCompatibilityMethod) *neat.Options {
	opts := vhu.BaseOptions(8)
	opts.ExcessCoeff = float64(c.Co.E) / 4
	opts.DisjointCoeff = float64(c.Co.D) / 4
	opts.MutdiffCoeff = float64(c.Co.W) / 4
	opts.CompatThreshold = float64(c.Thr) / 4
	opts.GenCompatMethod = method
	return opts
}

func replaySpeciation(args []string) int {
	fs := flag.NewFlagSet("replay-speciation", flag.ExitOnError)
	cases := fs.String("cases", "", "NDJSON behaviours printed by MC_Speciation")
	out := fs.String("out", "", "report file")
	_ = fs.Parse(args)
	rep := &vhu.Report{Command: "replay-speciation", Extra: map[string]interface{}{}}
	infoN, tieN, joinedNonFirst, foundedAmongOthers := 0, 0, 0, 0
	var infoSample string
	methods := []struct {
		name string
		m    neat.GenomeCompatibilityMethod
	}{{"fast", neat.GenomeCompatibilityMethodFast}, {"linear", neat.GenomeCompatibilityMethodLinear}}
	err := vhu.ReadNDJSON(*cases, func(line []byte) error {
		var c specCase
		if err := json.Unmarshal(line, &c); err != nil {
			return err
		}
		if len(c.Steps) != len(c.Batch) {
			return fmt.Errorf("malformed case: %d steps for %d arrivals", len(c.Steps), len(c.Batch))
		}
		rep.Cases++
		raw := json.RawMessage(append([]byte(nil), line...))
		nontrivial := false
		for _, st := range c.Steps {
			if st.Founded && st.NSpecies > 0 {
				nontrivial = true
				foundedAmongOthers++
			}
			if !st.Founded && st.Idx != st.FirstCompat {
				nontrivial = true
				joinedNonFirst++
			}
		}
		if nontrivial {
			rep.Nontrivial++
		}
		for _, m := range methods {
			for _, mode := range []string{"batch", "single"} {
				rp := c.build()
				ctx := c.options(m.m).NeatContext()
				bad := ""
				run := func(orgs []*genetics.Organism, k int) bool {
					var err error
					if p := vhu.Guard(func() { err = rp.pop.VerifSpeciate(ctx, orgs) }); p != "" {
						bad = "speciate panicked: " + p
						return false
					}
					rep.Evaluations++
					if err != nil {
						bad = "speciate returned error: " + err.Error()
						return false
					}
					b, info, tie := c.compareAfter(rp, k)
					if tie {
						tieN++
						return false
					}
					if info != "" {
						infoN++
						if infoSample == "" {
							infoSample = info
						}
					}
					bad = b
					return b == ""
				}
				if mode == "batch" {
					run(rp.batch, len(rp.batch))
				} else {
					for k := range rp.batch {
						if !run(rp.batch[k:k+1], k+1) {
							break
						}
					}
				}
				if bad != "" {
					rep.Fail(map[string]interface{}{"case": raw, "method": m.name, "mode": mode,
						"what": fmt.Sprintf("[%s, %s] %s", m.name, mode, bad), "signature": "speciation " + string(line)})
				}
			}
		}
		if nontrivial {
			rep.Sample(raw)
		}
		return nil
	})
	if err != nil {
		fmt.Println("vh_species replay-speciation:", err)
		return 2
	}
	rep.Extra["joined_species_other_than_first_compatible"] = joinedNonFirst
	rep.Extra["founded_while_species_existed"] = foundedAmongOthers
	rep.Extra["beyond_statement_differences"] = infoN
	rep.Extra["tie_divergences"] = tieN
	if infoSample != "" {
		rep.Extra["beyond_statement_sample"] = infoSample
	}
	return rep.Write(*out)
}

var _ = context.Background

package main

import (
	"encoding/json"
	"flag"
	"fmt"
	"math"
	"math/rand"
	"os"
	"sort"
	"strings"

	"github.com/yaricom/goNEAT/v4/neat"
	"github.com/yaricom/goNEAT/v4/neat/genetics"

	"verifharness/vhu"
)

// C09 replay (B2): every behaviour of MC_Quota (a population of species with integer raw fitness, ages and stagnation
// state; options; the exact rational result of every stage of the preparation phase) is installed in a REAL
// population and taken through the real code:
//
//	copy A  the individual steps in the order of prepareForReproduction: Species.adjustFitness for every species,
//	        then Population.purgeZeroOffspringSpecies; compared after each;
//	copy B  the real SequentialPopulationEpochExecutor.prepareForReproduction, then Species.reproduce per listed species;
//	copy C  prepareForReproduction, reproduce and finalizeReproduction of the executor (what NextEpoch does).
//
// float64: the specification is exact; the code's running total of expected offspring may be one ulp short of an
// integer exactly where the exact cumulative expectation at the end of a species is an integer ("boundary"). The
// behaviours enumerate every admissible loss vector; a behaviour whose loss vector is not the one the real
// arithmetic took is skipped (its sibling with the right vector is compared), after checking that the real vector
// is admissible at all.

type frac struct {
	N int `json:"n"`
	D int `json:"d"`
}

func (f frac) val() float64 { return float64(f.N) / float64(f.D) }

type quotaSpecies struct {
	Id   int   `json:"id"`
	Age  int   `json:"age"`
	Aoli int   `json:"aoli"`
	Mx   int   `json:"mx"`
	Fit  []int `json:"fit"`
}
type quotaAdj struct {
	A       []int `json:"a"`
	Orig    []int `json:"orig"`
	Aoli    int   `json:"aoli"`
	Mx      int   `json:"mx"`
	Parents int   `json:"parents"`
	Pen     bool  `json:"pen"`
	Young   bool  `json:"young"`
}
type quotaCase struct {
	N       int            `json:"n"`
	DropOff int            `json:"dropoff"`
	Sig     frac           `json:"sig"`
	St      frac           `json:"st"`
	Bs      int            `json:"bs"`
	Hf0     int            `json:"hf0"`
	Ehlc0   int            `json:"ehlc0"`
	Species []quotaSpecies `json:"species"`
	LDen    int            `json:"lden"`
	Adj     []quotaAdj     `json:"adj"`
	T       int            `json:"T"`
	E       [][]int        `json:"e"`
	Fc      []int          `json:"fc"`
	Bnd     []bool         `json:"bnd"`
	Exact   bool           `json:"exact"`
	Lost    []int          `json:"lost"`
	Raw     []int          `json:"raw"`
	Q1      []int          `json:"q1"`
	Mk      int            `json:"mk"`
	Died    bool           `json:"died"`
	Kept    []int          `json:"kept"`
	Sorted  []int          `json:"sorted"`
	SortTie bool           `json:"sorttie"`
	Mode    string         `json:"mode"`
	Q2      []int          `json:"q2"`
	Sc      []int          `json:"sc"`
	Aoli2   []int          `json:"aoli2"`
	Hf      int            `json:"hf"`
	Ehlc    int            `json:"ehlc"`
	Taken   int            `json:"taken"`
	Coins   []bool         `json:"coins"`
	Flips   []bool         `json:"flips"`
}

func init() { commands["replay-quota"] = replayQuota }

type quotaPop struct {
	pop     *genetics.Population
	species []*genetics.Species
	orgs    [][]*genetics.Organism // per species, in installation order
	opts    *neat.Options
}

func (c *quotaCase) options() *neat.Options {
	o := vhu.BaseOptions(c.N)
	o.DropOffAge = c.DropOff
	o.AgeSignificance = c.Sig.val()
	o.SurvivalThresh = c.St.val()
	o.BabiesStolen = c.Bs
	o.CompatThreshold = 1000
	o.MutateAddNodeProb = 0.1
	o.MutateAddLinkProb = 0.2
	return o
}

// build installs the case in a real population. Organisms are installed in ASCENDING order of fitness so that the
// sort inside adjustFitness has work to do.
func (c *quotaCase) build() *quotaPop {
	qp := &quotaPop{pop: genetics.VerifNewEmptyPopulation(), opts: c.options()}
	qp.pop.HighestFitness = float64(c.Hf0)
	qp.pop.EpochsHighestLastChanged = c.Ehlc0
	qp.pop.VerifSetCounters(3, 5)
	gid := 0
	for _, s := range c.Species {
		sp := genetics.NewSpecies(s.Id)
		sp.Age, sp.AgeOfLastImprovement, sp.MaxFitnessEver = s.Age, s.Aoli, float64(s.Mx)
		var list []*genetics.Organism
		for i := len(s.Fit) - 1; i >= 0; i-- {
			gid++
			g, derr := baseGenome().VerifDuplicate(gid)
			if derr != nil {
				panic(derr)
			}
			// every organism its own weights: an unmodified copy of a champion can be told from everything else
			for gi, gene := range g.Genes {
				gene.Link.ConnectionWeight = float64(gid) + 0.25*float64(gi)
				gene.MutationNum = gene.Link.ConnectionWeight
			}
			org, _ := genetics.NewOrganism(float64(s.Fit[i]), g, 1)
			org.Species = sp
			sp.VerifAddOrganism(org)
			qp.pop.Organisms = append(qp.pop.Organisms, org)
			list = append(list, org)
		}
		qp.pop.Species = append(qp.pop.Species, sp)
		qp.species = append(qp.species, sp)
		qp.orgs = append(qp.orgs, list)
		if s.Id > qp.pop.LastSpecies {
			qp.pop.LastSpecies = s.Id
		}
	}
	return qp
}

var xorBase *genetics.Genome

// baseGenome is the XOR start genome every organism of a replayed population is a duplicate of.
func baseGenome() *genetics.Genome {
	if xorBase == nil {
		xorBase = vhu.ReadGenomeString(vhu.XorStartGenome, 1)
	}
	return xorBase
}

// coinSeed finds a seed of the global source whose first draws give the wanted outcomes of rand.Float64() > 0.1.
func coinSeed(want []bool, base int64) int64 {
	for s := base; ; s++ {
		r := rand.New(rand.NewSource(s))
		ok := true
		for _, w := range want {
			if (r.Float64() > 0.1) != w {
				ok = false
				break
			}
		}
		if ok {
			return s
		}
	}
}

type quotaStats struct {
	skippedLoss, matched, info int
	infoKinds                  map[string]int
	infoSample                 string
	lossSeen, makeupSeen       int
	lastRealLost               string
	champChecked               int // species with quota > 5 whose champion copy was looked for after a whole epoch
}

func (st *quotaStats) note(kind, msg string) {
	st.info++
	st.infoKinds[kind]++
	if st.infoSample == "" {
		st.infoSample = kind + ": " + msg
	}
}

// stepwise runs copy A. It returns (violation text, matched): matched is false when the real arithmetic took another
// admissible loss vector than this behaviour describes.
func (c *quotaCase) stepwise(st *quotaStats) (bad string, matched bool) {
	qp := c.build()
	// ---- Species.adjustFitness
	for k, sp := range qp.species {
		if p := vhu.Guard(func() { sp.VerifAdjustFitness(qp.opts) }); p != "" {
			return "adjustFitness panicked: " + p, true
		}
		a := c.Adj[k]
		n := len(c.Species[k].Fit)
		if len(sp.Organisms) != n {
			return fmt.Sprintf("species %d has %d organisms after adjustFitness, installed %d; ", sp.Id, len(sp.Organisms), n), true
		}
		marked := 0
		for i, o := range sp.Organisms {
			want := float64(a.A[i]) / float64(c.LDen)
			if !vhu.CloseRel(o.Fitness, want, 1e-9) && math.Abs(o.Fitness-want) > 1e-300 {
				bad += fmt.Sprintf("species %d organism #%d: adjusted shared fitness %s, specification %d/%d = %s (raw %d, size %d, penalised %v, young %v); ",
					sp.Id, i, vhu.Fstr(o.Fitness), a.A[i], c.LDen, vhu.Fstr(want), a.Orig[i], n, a.Pen, a.Young)
			}
			if i > 0 && o.Fitness > sp.Organisms[i-1].Fitness {
				bad += fmt.Sprintf("species %d is not sorted by fitness after adjustFitness; ", sp.Id)
			}
			vs := o.VerifState()
			if vs.OriginalFitness != float64(a.Orig[i]) {
				bad += fmt.Sprintf("species %d organism #%d: original fitness %s, specification %d; ", sp.Id, i, vhu.Fstr(vs.OriginalFitness), a.Orig[i])
			}
			if vs.ToEliminate {
				marked++
				if i < a.Parents {
					bad += fmt.Sprintf("species %d: organism at rank %d of %d is marked for elimination although floor(t*n)+1 = %d parents are kept; ", sp.Id, i, n, a.Parents)
				}
			} else if i >= a.Parents {
				bad += fmt.Sprintf("species %d: organism at rank %d of %d is not marked for elimination, only the top %d may remain parents; ", sp.Id, i, n, a.Parents)
			}
		}
		_ = marked
		if sp.AgeOfLastImprovement != a.Aoli || sp.MaxFitnessEver != float64(a.Mx) {
			st.note("age_of_last_improvement", fmt.Sprintf("species %d: AgeOfLastImprovement %d MaxFitnessEver %s, specification %d / %d",
				sp.Id, sp.AgeOfLastImprovement, vhu.Fstr(sp.MaxFitnessEver), a.Aoli, a.Mx))
		}
	}
	if bad != "" {
		return bad, true
	}
	// ---- Population.purgeZeroOffspringSpecies
	if p := vhu.Guard(func() { qp.pop.VerifPurgeZeroOffspringSpecies(1) }); p != "" {
		return "purgeZeroOffspringSpecies panicked: " + p, true
	}
	for k, sp := range qp.species {
		for i, o := range sp.Organisms {
			want := float64(c.E[k][i]) / float64(c.T)
			if !vhu.CloseRel(o.ExpectedOffspring, want, 1e-9) {
				bad += fmt.Sprintf("species %d organism #%d: expected offspring %s, specification (shared adjusted fitness / population mean) = %d/%d = %s; ",
					sp.Id, i, vhu.Fstr(o.ExpectedOffspring), c.E[k][i], c.T, vhu.Fstr(want))
			}
		}
	}
	if bad != "" {
		return bad, true
	}
	// the floor-and-carry of the real arithmetic, species by species (real Species.countOffspring on the real expectations)
	skim, cum := 0.0, 0
	realLost := make([]int, len(qp.species))
	realRaw := make([]int, len(qp.species))
	for k, sp := range qp.species {
		var q int
		q, skim = sp.VerifCountOffspring(skim)
		realRaw[k] = q
		cum += q
		realLost[k] = c.Fc[k] - cum
		if realLost[k] != 0 && !(realLost[k] == 1 && c.Bnd[k] && !c.Exact) {
			bad += fmt.Sprintf("countOffspring: after species %d (position %d) the running quota total is %d, floor of the cumulative expectation is %d "+
				"(integer boundary: %v, float64 arithmetic exact on this input: %v) - fractions are not carried over in species order; ",
				sp.Id, k+1, cum, c.Fc[k], c.Bnd[k], c.Exact)
		}
	}
	if bad != "" {
		return bad, true
	}
	if fmt.Sprint(realLost) != fmt.Sprint(c.Lost) {
		st.lastRealLost = fmt.Sprint(realLost, " boundaries ", c.Bnd, " floor-cum ", c.Fc, " e ", c.E, " T ", c.T)
		return "", false
	}
	for _, l := range realLost {
		if l != 0 {
			st.lossSeen++
			break
		}
	}
	// quotas after the make-up offspring
	total, diffAt, diffs := 0, -1, 0
	for k, sp := range qp.species {
		total += sp.ExpectedOffspring
		if d := sp.ExpectedOffspring - realRaw[k]; d != 0 {
			diffs++
			if d == 1 {
				diffAt = k
			} else {
				diffAt = -2
			}
		}
	}
	if total != c.N {
		bad += fmt.Sprintf("quotas total %d after purgeZeroOffspringSpecies, population size %d; ", total, c.N)
	}
	wantMk := c.Lost[len(c.Lost)-1] == 1
	if !wantMk && diffs != 0 {
		bad += fmt.Sprintf("quotas %v differ from floor-and-carry %v although rounding lost nothing; ", quotasOf(qp.species), realRaw)
	}
	if wantMk {
		st.makeupSeen++
		if diffs != 1 || diffAt < 0 {
			bad += fmt.Sprintf("rounding lost one offspring: exactly one species must receive one make-up offspring, got quotas %v for floor-and-carry %v; ",
				quotasOf(qp.species), realRaw)
		} else if diffAt != c.Mk-1 {
			st.note("makeup_recipient", fmt.Sprintf("make-up offspring went to position %d, specification %d", diffAt+1, c.Mk))
		}
	}
	if bad == "" && fmt.Sprint(quotasOf(qp.species)) != fmt.Sprint(c.Q1) && diffAt == c.Mk-1 {
		bad += fmt.Sprintf("quotas %v, specification %v; ", quotasOf(qp.species), c.Q1)
	}
	// the list of species that will reproduce
	var keptIds, wantIds []int
	for _, sp := range qp.pop.Species {
		keptIds = append(keptIds, sp.Id)
	}
	for _, k := range c.Kept {
		wantIds = append(wantIds, c.Species[k-1].Id)
	}
	if fmt.Sprint(keptIds) != fmt.Sprint(wantIds) {
		st.note("species_list", fmt.Sprintf("species listed after the purge %v, specification %v", keptIds, wantIds))
	}
	return bad, true
}

func quotasOf(sps []*genetics.Species) []int {
	q := make([]int, len(sps))
	for i, sp := range sps {
		q[i] = sp.ExpectedOffspring
	}
	return q
}

func (c *quotaCase) wantedCoins() []bool {
	var w []bool
	for i, f := range c.Flips {
		if f {
			w = append(w, c.Coins[i])
		}
	}
	return w
}

// prepared runs copy B: the real prepareForReproduction, then Species.reproduce per listed species.
func (c *quotaCase) prepared(st *quotaStats, seed int64) (bad string) {
	qp := c.build()
	ctx := qp.opts.NeatContext()
	ex := &genetics.SequentialPopulationEpochExecutor{}
	rand.Seed(coinSeed(c.wantedCoins(), seed))
	var err error
	if p := vhu.Guard(func() { err = ex.VerifPrepare(ctx, 1, qp.pop) }); p != "" {
		return "prepareForReproduction panicked: " + p
	}
	if err != nil {
		return "prepareForReproduction returned error: " + err.Error()
	}
	listed := map[*genetics.Species]bool{}
	total := 0
	for _, sp := range qp.pop.Species {
		listed[sp] = true
		total += sp.ExpectedOffspring
	}
	if total != c.N {
		bad += fmt.Sprintf("after prepareForReproduction (%s) the quotas of the listed species %v total %d, population size %d; ",
			map[string]string{"none": "no redistribution", "steal": "babies stolen", "delta": "delta coding"}[c.Mode], quotasOf(qp.pop.Species), total, c.N)
	}
	for k, sp := range qp.species {
		if !listed[sp] {
			if c.Q2[k] != 0 {
				bad += fmt.Sprintf("species %d (quota %d in the specification) was removed from the population's species; ", sp.Id, c.Q2[k])
			}
			continue
		}
		if sp.ExpectedOffspring < 0 {
			bad += fmt.Sprintf("species %d has negative quota %d; ", sp.Id, sp.ExpectedOffspring)
		}
		// parents
		a := c.Adj[k]
		if len(sp.Organisms) != a.Parents {
			bad += fmt.Sprintf("species %d of size %d keeps %d parents, floor(%d/%d * n) + 1 capped at n = %d; ",
				sp.Id, len(c.Species[k].Fit), len(sp.Organisms), c.St.N, c.St.D, a.Parents)
		} else {
			var got []int
			for _, o := range sp.Organisms {
				got = append(got, int(o.VerifState().OriginalFitness))
			}
			sort.Sort(sort.Reverse(sort.IntSlice(got)))
			if fmt.Sprint(got) != fmt.Sprint(a.Orig[:a.Parents]) {
				bad += fmt.Sprintf("species %d: the parents kept have raw fitness %v, the top %d are %v; ", sp.Id, got, a.Parents, a.Orig[:a.Parents])
			}
		}
	}
	if bad != "" {
		return bad
	}
	// beyond the statement: who got what
	if got := quotasOf(qp.species); fmt.Sprint(got) != fmt.Sprint(c.Q2) && !c.SortTie {
		st.note("quota_after_"+c.Mode, fmt.Sprintf("quotas %v, specification %v", got, c.Q2))
	}
	var sortedIds, wantSorted []int
	for _, sp := range ex.VerifSortedSpecies() {
		sortedIds = append(sortedIds, sp.Id)
	}
	for _, k := range c.Sorted {
		wantSorted = append(wantSorted, c.Species[k-1].Id)
	}
	if fmt.Sprint(sortedIds) != fmt.Sprint(wantSorted) && !c.SortTie {
		st.note("sorted_species", fmt.Sprintf("sorted species %v, specification %v", sortedIds, wantSorted))
	}
	if int(qp.pop.HighestFitness) != c.Hf || qp.pop.EpochsHighestLastChanged != c.Ehlc {
		st.note("population_stagnation", fmt.Sprintf("HighestFitness %s EpochsHighestLastChanged %d, specification %d / %d",
			vhu.Fstr(qp.pop.HighestFitness), qp.pop.EpochsHighestLastChanged, c.Hf, c.Ehlc))
	}
	for k, sp := range qp.species {
		if listed[sp] && !c.SortTie {
			if sc := sp.Organisms[0].VerifState().SuperChampOffspring; sc != c.Sc[k] {
				st.note("super_champion_offspring", fmt.Sprintf("species %d: %d, specification %d", sp.Id, sc, c.Sc[k]))
			}
			if sp.AgeOfLastImprovement != c.Aoli2[k] {
				st.note("age_of_last_improvement", fmt.Sprintf("species %d after %s: %d, specification %d", sp.Id, c.Mode, sp.AgeOfLastImprovement, c.Aoli2[k]))
			}
		}
	}
	// ---- Species.reproduce: every listed species produces exactly its quota, a zero quota produces nothing
	babiesTotal := 0
	for _, sp := range qp.pop.Species {
		var babies []*genetics.Organism
		var rerr error
		quota := sp.ExpectedOffspring
		if p := vhu.Guard(func() { babies, rerr = sp.VerifReproduce(ctx, 1, qp.pop, ex.VerifSortedSpecies()) }); p != "" {
			return fmt.Sprintf("Species.reproduce of species %d (quota %d) panicked: %s", sp.Id, quota, p)
		}
		if rerr != nil {
			return fmt.Sprintf("Species.reproduce of species %d (quota %d) failed: %v", sp.Id, quota, rerr)
		}
		if len(babies) != quota {
			bad += fmt.Sprintf("species %d with quota %d produced %d offspring; ", sp.Id, quota, len(babies))
		}
		babiesTotal += len(babies)
	}
	if babiesTotal != c.N {
		bad += fmt.Sprintf("%d offspring in total, population size %d; ", babiesTotal, c.N)
	}
	return bad
}

// epoch runs copy C: the three phases of the sequential executor, as NextEpoch does.
func (c *quotaCase) epoch(st *quotaStats, seed int64) (bad string) {
	qp := c.build()
	ctx := qp.opts.NeatContext()
	ex := &genetics.SequentialPopulationEpochExecutor{}
	rand.Seed(coinSeed(c.wantedCoins(), seed))
	var err error
	if p := vhu.Guard(func() { err = ex.VerifPrepare(ctx, 1, qp.pop) }); p != "" || err != nil {
		return fmt.Sprintf("prepareForReproduction failed: %v %s", err, p)
	}
	// C10: what the preparation phase left: per species its quota and the genomes of its fittest organism(s) (with tied
	// fitness any of them is "the fittest")
	type champs struct {
		id, quota int
		sigs      map[string]bool
	}
	var want []champs
	for _, sp := range qp.pop.Species {
		if sp.ExpectedOffspring <= 5 || len(sp.Organisms) == 0 {
			continue
		}
		top := math.Inf(-1)
		for _, o := range sp.Organisms {
			top = math.Max(top, o.Fitness)
		}
		c := champs{id: sp.Id, quota: sp.ExpectedOffspring, sigs: map[string]bool{}}
		for _, o := range sp.Organisms {
			if o.Fitness == top {
				c.sigs[genomeSig(o.Genotype)] = true
			}
		}
		want = append(want, c)
	}
	if p := vhu.Guard(func() { err = ex.VerifReproduce(ctx, 1, qp.pop) }); p != "" {
		return "reproduce panicked: " + p
	}
	if err != nil {
		if strings.Contains(err.Error(), "progeny size") {
			return "reproduce: " + err.Error()
		}
		st.note("reproduce_error", err.Error())
		return ""
	}
	if p := vhu.Guard(func() { err = ex.VerifFinalize(ctx, qp.pop) }); p != "" {
		return "finalizeReproduction panicked: " + p
	}
	if err != nil {
		st.note("finalize_error", err.Error())
	}
	if len(qp.pop.Organisms) != c.N {
		bad += fmt.Sprintf("population has %d organisms after the epoch, population size %d; ", len(qp.pop.Organisms), c.N)
	}
	have := map[string]bool{}
	for _, o := range qp.pop.Organisms {
		have[genomeSig(o.Genotype)] = true
	}
	for _, w := range want {
		found := false
		for sg := range w.sigs {
			found = found || have[sg]
		}
		st.champChecked++
		if !found {
			bad += fmt.Sprintf("champion: species %d had quota %d (> 5) after the preparation phase (%s), but the new generation holds no unmodified copy of (any of) its fittest organism(s); ",
				w.id, w.quota, c.Mode)
		}
	}
	return bad
}

// genomeSig is the genetic content of a genome (not its id) as a string: equal strings <=> equal in every genetic field
func genomeSig(g *genetics.Genome) string {
	var b strings.Builder
	for _, t := range g.Traits {
		fmt.Fprintf(&b, "t%d:%v|", t.Id, t.Params)
	}
	for _, n := range g.Nodes {
		tr := -1
		if n.Trait != nil {
			tr = n.Trait.Id
		}
		fmt.Fprintf(&b, "n%d:%d:%d:%d|", n.Id, n.NeuronType, n.ActivationType, tr)
	}
	for _, x := range g.Genes {
		tr := -1
		if x.Link.Trait != nil {
			tr = x.Link.Trait.Id
		}
		fmt.Fprintf(&b, "g%d:%d>%d:%x:%x:%v:%v:%d|", x.InnovationNum, x.Link.InNode.Id, x.Link.OutNode.Id, math.Float64bits(x.Link.ConnectionWeight),
			math.Float64bits(x.MutationNum), x.IsEnabled, x.Link.IsRecurrent, tr)
	}
	return b.String()
}

func replayQuota(args []string) int {
	fs := flag.NewFlagSet("replay-quota", flag.ExitOnError)
	cases := fs.String("cases", "", "NDJSON behaviours printed by MC_Quota")
	out := fs.String("out", "", "report file")
	_ = fs.Parse(args)
	rep := &vhu.Report{Command: "replay-quota", Extra: map[string]interface{}{}}
	st := &quotaStats{infoKinds: map[string]int{}}
	seed0 := vhu.EnvSeed() * 1000003
	byMode := map[string]int{}
	inputsSeen, inputsMatched := map[string]bool{}, map[string]bool{}
	realOf := map[string]string{}
	idx := int64(0)
	err := vhu.ReadNDJSON(*cases, func(line []byte) error {
		var c quotaCase
		if err := json.Unmarshal(line, &c); err != nil {
			return err
		}
		idx++
		rep.Cases++
		raw := json.RawMessage(append([]byte(nil), line...))
		// the input of the behaviour (everything the code sees; the loss vector and the coins belong to the behaviour)
		inKey := fmt.Sprint(c.N, c.DropOff, c.Sig, c.St, c.Bs, c.Hf0, c.Ehlc0, c.Species)
		inputsSeen[inKey] = true
		fail := func(stage, what string) {
			rep.Fail(map[string]interface{}{"case": raw, "stage": stage, "what": "[" + stage + "] " + what,
				"signature": "quota " + stage + " " + string(line)})
		}
		bad, matched := c.stepwise(st)
		rep.Evaluations++
		if bad != "" {
			fail("adjustFitness / purgeZeroOffspringSpecies", bad)
			return nil
		}
		if !matched {
			st.skippedLoss++
			realOf[inKey] = st.lastRealLost
			return nil
		}
		st.matched++
		inputsMatched[inKey] = true
		byMode[c.Mode]++
		carried := false
		for k := 0; k+1 < len(c.Bnd); k++ {
			if !c.Bnd[k] && c.Fc[k] > 0 || (!c.Bnd[k] && sum(c.E[k]) > 0) {
				carried = true
			}
		}
		nontrivial := carried || c.Mk > 0 || c.Taken > 0 || c.Mode == "delta"
		if nontrivial {
			rep.Nontrivial++
			rep.Sample(raw)
		}
		if b := c.prepared(st, seed0+idx*64); b != "" {
			fail("prepareForReproduction / Species.reproduce", b)
			return nil
		}
		rep.Evaluations++
		if b := c.epoch(st, seed0+idx*64+32); b != "" {
			fail("epoch", b)
			return nil
		}
		rep.Evaluations++
		return nil
	})
	if err != nil {
		fmt.Println("vh_species replay-quota:", err)
		return 2
	}
	// every input must have been compared under the loss vector the real arithmetic took
	unmatched := 0
	for k := range inputsSeen {
		if !inputsMatched[k] {
			unmatched++
			if os.Getenv("VH_DEBUG_LOSS") != "" {
				fmt.Println("UNMATCHED", k, "real loss", realOf[k])
			}
			if _, has := rep.Extra["unmatched_sample"]; !has {
				rep.Extra["unmatched_sample"] = k + " real loss " + realOf[k]
			}
		}
	}
	rep.Extra["champion_copies_checked"] = st.champChecked
	rep.Extra["behaviours_compared"] = st.matched
	rep.Extra["behaviours_skipped_other_loss_vector"] = st.skippedLoss
	rep.Extra["inputs"] = len(inputsSeen)
	rep.Extra["inputs_without_matching_behaviour"] = unmatched
	rep.Extra["compared_by_mode"] = byMode
	rep.Extra["float_loss_observed"] = st.lossSeen
	rep.Extra["makeup_offspring_observed"] = st.makeupSeen
	rep.Extra["beyond_statement_differences"] = st.info
	rep.Extra["beyond_statement_kinds"] = st.infoKinds
	if st.infoSample != "" {
		rep.Extra["beyond_statement_sample"] = st.infoSample
	}
	return rep.Write(*out)
}

func sum(xs []int) int {
	t := 0
	for _, x := range xs {
		t += x
	}
	return t
}

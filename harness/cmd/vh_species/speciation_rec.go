package main

import (
	"bytes"
	"encoding/json"
	"flag"
	"fmt"
	"math"
	"math/rand"
	"os"

	"github.com/yaricom/goNEAT/v4/neat"
	"github.com/yaricom/goNEAT/v4/neat/genetics"

	"verifharness/vhu"
)

// C08 recorder (B1): real populations are built by NewPopulation / NewPopulationRandom / ReadPopulation, evolved
// through the phases of both epoch executors, and organisms of one evolved population are speciated into another.
// Every call of speciate becomes one trace event for spec/Trace_Speciation.tla. The distances in the events are
// computed HERE from the definition of the compatibility distance over innovation numbers (sets and maps, no
// walk, none of goNEAT's compatibility functions) and shipped as 2^-20 fixed-point integers.
//
//	"seq"   events (constructors, direct speciate): the arrival order is known, so the event carries for every
//	        arrival its real species id and its distance to every earlier representative candidate; the trace spec
//	        re-executes the assignment rule arrival by arrival.
//	"epoch" events (reproduction phase of an executor): the arrival order of the babies is internal to the executor;
//	        the event carries for every baby its species, whether it founded it, the distance to its species'
//	        representative and to the representative of every species that existed before the call.

type seqArrival struct {
	Sid int   `json:"sid"`
	D   []int `json:"d"`
}
type seqEvent struct {
	K     string       `json:"k"`
	Src   string       `json:"src"`
	Thr   int          `json:"thr"`
	Tol   int          `json:"tol"`
	Last0 int          `json:"last0"`
	Last1 int          `json:"last1"`
	Pre   []int        `json:"pre"`
	Arr   []seqArrival `json:"arr"`
}
type epochBaby struct {
	Sid     int   `json:"sid"`
	Founder bool  `json:"founder"`
	DRep    int   `json:"drep"`
	DPre    []int `json:"dpre"`
}
type epochEvent struct {
	K      string      `json:"k"`
	Src    string      `json:"src"`
	Thr    int         `json:"thr"`
	Tol    int         `json:"tol"`
	Last0  int         `json:"last0"`
	Last1  int         `json:"last1"`
	Pre    []int       `json:"pre"`
	NewIds []int       `json:"newids"`
	Babies []epochBaby `json:"babies"`
}

func init() { commands["rec-speciation"] = recSpeciation }

// defDistance is the NEAT compatibility distance from its definition: genes are matched by innovation number,
// a non-matching gene is excess when its number is beyond the other genome's largest number, disjoint otherwise.
// ok is false when a genome is outside the quantifier of C07/C08 (genes not strictly ascending by innovation number).
func defDistance(a, b *genetics.Genome, opts *neat.Options) (d float64, ok bool) {
	index := func(g *genetics.Genome) (map[int64]float64, int64, bool) {
		m := make(map[int64]float64, len(g.Genes))
		last := int64(math.MinInt64)
		for _, gn := range g.Genes {
			if gn.InnovationNum <= last {
				return nil, 0, false
			}
			last = gn.InnovationNum
			m[gn.InnovationNum] = gn.MutationNum
		}
		return m, last, true
	}
	ma, la, oka := index(a)
	mb, lb, okb := index(b)
	if !oka || !okb {
		return 0, false
	}
	var e, dj, s, m float64
	for inn, mu := range ma {
		if mv, both := mb[inn]; both {
			m++
			s += math.Abs(mu - mv)
		} else if inn > lb {
			e++
		} else {
			dj++
		}
	}
	for inn := range mb {
		if _, both := ma[inn]; !both {
			if inn > la {
				e++
			} else {
				dj++
			}
		}
	}
	d = opts.ExcessCoeff*e + opts.DisjointCoeff*dj
	if m > 0 {
		d += opts.MutdiffCoeff * (s / m)
	}
	return d, true
}

type specRecorder struct {
	enc        *json.Encoder
	rep        *vhu.Report
	events     int
	skipped    int
	joinedNF   int // organisms that joined a species other than the first compatible one
	foundedAO  int // organisms that founded a species while other species existed
	nontrivEv  int
	aborted    []string
	bySource   map[string]int
	sampleDone int
}

// recordSeq turns one speciate call with known arrival order into a "seq" event.
// pre: the species that existed before the call with their representatives (snapshot taken before the call).
func (sr *specRecorder) recordSeq(src string, opts *neat.Options, last0 int, preIds []int, preReps []*genetics.Organism,
	arrivals []*genetics.Organism, pop *genetics.Population) {
	ev := seqEvent{K: "seq", Src: src, Thr: toFix(opts.CompatThreshold), Tol: 2, Last0: last0, Last1: pop.LastSpecies, Pre: preIds}
	if ev.Pre == nil {
		ev.Pre = []int{}
	}
	nodes := append([]*genetics.Organism{}, preReps...)
	// coverage bookkeeping only (which species were compatible at the time), derived from the real assignment
	repNode := map[int]int{} // species id -> node index of its representative
	var order []int          // species ids in list order
	for i, id := range preIds {
		repNode[id] = i
		order = append(order, id)
	}
	nontrivial := false
	for _, o := range arrivals {
		a := seqArrival{D: make([]int, len(nodes))}
		if o.Species != nil {
			a.Sid = o.Species.Id
		}
		raw := make([]float64, len(nodes))
		for j, n := range nodes {
			d, ok := defDistance(o.Genotype, n.Genotype, opts)
			if !ok {
				sr.skipped++
				return
			}
			raw[j] = d
			a.D[j] = toFix(d)
		}
		// coverage
		firstCompat, existed := -1, len(order) > 0
		for k, id := range order {
			if raw[repNode[id]] < opts.CompatThreshold {
				firstCompat = k
				break
			}
		}
		if _, known := repNode[a.Sid]; !known {
			if existed {
				sr.foundedAO++
				nontrivial = true
			}
			repNode[a.Sid] = len(nodes)
			order = append(order, a.Sid)
		} else if firstCompat >= 0 && order[firstCompat] != a.Sid {
			sr.joinedNF++
			nontrivial = true
		}
		nodes = append(nodes, o)
		ev.Arr = append(ev.Arr, a)
		sr.rep.Evaluations++
	}
	sr.emit(ev, src, nontrivial)
}

func (sr *specRecorder) emit(ev interface{}, src string, nontrivial bool) {
	_ = sr.enc.Encode(ev)
	sr.events++
	sr.bySource[src]++
	if nontrivial {
		sr.nontrivEv++
		if sr.sampleDone < 2 {
			b, _ := json.Marshal(ev)
			if len(b) < 3000 {
				sr.rep.Sample(json.RawMessage(b))
				sr.sampleDone++
			}
		}
	}
}

func recSpeciation(args []string) int {
	fs := flag.NewFlagSet("rec-speciation", flag.ExitOnError)
	out := fs.String("out", "", "trace file (NDJSON)")
	repFile := fs.String("report", "", "report file")
	nScen := fs.Int("scenarios", 6, "number of evolved populations")
	epochs := fs.Int("epochs", 6, "epochs per population")
	_ = fs.Parse(args)
	f, err := os.Create(*out)
	if err != nil {
		fmt.Println("vh_species rec-speciation:", err)
		return 2
	}
	defer f.Close()
	sr := &specRecorder{enc: json.NewEncoder(f), rep: &vhu.Report{Command: "rec-speciation", Extra: map[string]interface{}{}},
		bySource: map[string]int{}}
	seed := vhu.EnvSeed()
	master := rand.New(rand.NewSource(seed*7919 + 17))
	var evolved []*genetics.Population
	var evolvedOpts []*neat.Options
	for i := 0; i < *nScen; i++ {
		sc := randomScenario(master, i, *epochs)
		rand.Seed(sc.Seed)
		r := rand.New(rand.NewSource(sc.Seed + 1))
		opts := sc.options()
		var pop *genetics.Population
		if p := vhu.Guard(func() { pop, err = sc.newPopulation(opts) }); p != "" || err != nil {
			sr.aborted = append(sr.aborted, fmt.Sprintf("%s: construction failed: %v %s", sc.Name, err, p))
			continue
		}
		src := "NewPopulation"
		if sc.Start == "random" {
			src = "NewPopulationRandom"
		}
		sr.recordSeq(src, opts, 0, nil, nil, pop.Organisms, pop)

		// epochs: observe the reproduction phase (the only place where speciate runs inside an epoch)
		var preSpecies []*genetics.Species
		var preReps map[*genetics.Species]*genetics.Organism
		var old map[*genetics.Organism]bool
		var last0 int
		ob := phaseObserver{
			beforeReproduce: func(gen int, pop *genetics.Population) {
				preSpecies = append([]*genetics.Species{}, pop.Species...)
				preReps = map[*genetics.Species]*genetics.Organism{}
				old = map[*genetics.Organism]bool{}
				for _, sp := range pop.Species {
					if len(sp.Organisms) > 0 {
						preReps[sp] = sp.Organisms[0]
					}
					for _, o := range sp.Organisms {
						old[o] = true
					}
				}
				last0 = pop.LastSpecies
			},
			afterReproduce: func(gen int, pop *genetics.Population) {
				srcE := "NextEpoch/sequential"
				if sc.Parallel {
					srcE = "NextEpoch/parallel"
				}
				ev := epochEvent{K: "epoch", Src: srcE, Thr: toFix(opts.CompatThreshold), Tol: 2, Last0: last0, Last1: pop.LastSpecies,
					Pre: []int{}, NewIds: []int{}}
				isPre := map[*genetics.Species]bool{}
				var preWithRep []*genetics.Species
				for _, sp := range preSpecies {
					isPre[sp] = true
					if preReps[sp] != nil {
						preWithRep = append(preWithRep, sp)
						ev.Pre = append(ev.Pre, sp.Id)
					}
				}
				nontrivial := false
				for _, sp := range pop.Species {
					var rep *genetics.Organism
					if isPre[sp] {
						rep = preReps[sp]
					} else {
						ev.NewIds = append(ev.NewIds, sp.Id)
					}
					for k, o := range sp.Organisms {
						if old[o] {
							continue
						}
						b := epochBaby{Sid: sp.Id, DPre: make([]int, len(preWithRep)), DRep: -1}
						if o.Species != sp {
							b.Sid = -1 // back pointer disagrees with the membership list
						}
						firstCompat := -1
						for j, ps := range preWithRep {
							d, ok := defDistance(o.Genotype, preReps[ps].Genotype, opts)
							if !ok {
								sr.skipped++
								return
							}
							b.DPre[j] = toFix(d)
							if firstCompat < 0 && d < opts.CompatThreshold {
								firstCompat = j
							}
						}
						if rep == nil && k == 0 {
							b.Founder = true
							if len(preWithRep) > 0 {
								sr.foundedAO++
								nontrivial = true
							}
						} else {
							r0 := rep
							if r0 == nil {
								r0 = sp.Organisms[0]
							}
							d, ok := defDistance(o.Genotype, r0.Genotype, opts)
							if !ok {
								sr.skipped++
								return
							}
							b.DRep = toFix(d)
							if firstCompat >= 0 && preWithRep[firstCompat] != sp {
								sr.joinedNF++
								nontrivial = true
							}
						}
						ev.Babies = append(ev.Babies, b)
						sr.rep.Evaluations++
					}
				}
				sr.emit(ev, srcE, nontrivial)
			},
		}
		geneless := false
		for _, o := range pop.Organisms {
			if len(o.Genotype.Genes) == 0 {
				geneless = true
			}
		}
		if geneless {
			// NewPopulationRandom can produce genomes without genes; mating them panics inside the library (outside C08)
			sr.aborted = append(sr.aborted, fmt.Sprintf("%s: random population contains a gene-less genome, not evolved", sc.Name))
			continue
		}
		done, rerr := 0, error(nil)
		if p := vhu.Guard(func() { done, rerr = runEpochs(&sc, r, &opts, pop, ob) }); p != "" {
			sr.aborted = append(sr.aborted, fmt.Sprintf("%s: panic after %d epochs: %s", sc.Name, done, p))
			continue
		}
		if rerr != nil {
			sr.aborted = append(sr.aborted, fmt.Sprintf("%s: stopped after %d epochs: %v", sc.Name, done, rerr))
			continue
		}
		evolved = append(evolved, pop)
		evolvedOpts = append(evolvedOpts, opts)

		// ReadPopulation of the evolved population (possibly under another threshold / method)
		// (both file layouts: genome by genome, and by species - there the organisms arrive best first within each species, under
		// species headers that are comments to the reader; the evolved organisms carry fitness values, so the order differs)
		var buf bytes.Buffer
		write := pop.Write
		if i%2 == 1 {
			write = pop.WriteBySpecies
		}
		if err := write(&buf); err == nil {
			ropts := sc.options()
			ropts.CompatThreshold = opts.CompatThreshold * []float64{1, 0.5, 2}[i%3]
			if i%2 == 0 {
				ropts.GenCompatMethod = neat.GenomeCompatibilityMethodLinear
			}
			var rpop *genetics.Population
			var rerr error
			if p := vhu.Guard(func() { rpop, rerr = genetics.ReadPopulation(&buf, ropts) }); p == "" && rerr == nil {
				sr.recordSeq("ReadPopulation", ropts, 0, nil, nil, rpop.Organisms, rpop)
			} else {
				sr.aborted = append(sr.aborted, fmt.Sprintf("%s: ReadPopulation failed: %v %s", sc.Name, rerr, p))
			}
		}
	}
	// organisms of one evolved population arrive in another one (direct call of speciate, known order, existing species)
	for i := 0; i+1 < len(evolved); i += 2 {
		host, guest, opts := evolved[i], evolved[i+1], evolvedOpts[i]
		var preIds []int
		var preReps []*genetics.Organism
		for _, sp := range host.Species {
			if len(sp.Organisms) > 0 {
				preIds = append(preIds, sp.Id)
				preReps = append(preReps, sp.Organisms[0])
			}
		}
		var batch []*genetics.Organism
		for _, o := range guest.Organisms {
			no, _ := genetics.NewOrganism(0, o.Genotype, 1)
			batch = append(batch, no)
		}
		master.Shuffle(len(batch), func(a, b int) { batch[a], batch[b] = batch[b], batch[a] })
		last0 := host.LastSpecies
		var serr error
		if p := vhu.Guard(func() { serr = host.VerifSpeciate(opts.NeatContext(), batch) }); p != "" || serr != nil {
			sr.aborted = append(sr.aborted, fmt.Sprintf("direct speciate failed: %v %s", serr, p))
			continue
		}
		sr.recordSeq("speciate/evolved", opts, last0, preIds, preReps, batch, host)
	}
	sr.rep.Cases = sr.events
	sr.rep.Nontrivial = sr.nontrivEv
	sr.rep.Extra["events_by_source"] = sr.bySource
	sr.rep.Extra["joined_species_other_than_first_compatible"] = sr.joinedNF
	sr.rep.Extra["founded_while_species_existed"] = sr.foundedAO
	sr.rep.Extra["events_skipped_unsorted_genome"] = sr.skipped
	sr.rep.Extra["aborted_scenarios"] = len(sr.aborted)
	if len(sr.aborted) > 4 {
		sr.aborted = sr.aborted[:4]
	}
	sr.rep.Extra["aborted_first"] = sr.aborted
	code := sr.rep.Write(*repFile)
	if code == 1 {
		code = 0
	}
	return code
}

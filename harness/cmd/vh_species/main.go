// Command vh_species is the Go side of the checks C08 (speciation) and C09 (offspring quotas): it replays
// TLC-generated behaviours of spec/MC_Speciation.tla and spec/MC_Quota.tla on the real goNEAT code (B2) and records
// real populations / epochs as traces for the TLC trace specifications Trace_Speciation and Trace_Quota (B1).
package main

import (
	"fmt"
	"os"

	"github.com/yaricom/goNEAT/v4/neat"
)

type command func(args []string) int

var commands = map[string]command{}

func main() {
	_ = neat.InitLogger("error")
	if len(os.Args) < 2 {
		fmt.Fprintln(os.Stderr, "usage: vh_species <command> [flags]")
		os.Exit(2)
	}
	cmd, ok := commands[os.Args[1]]
	if !ok {
		fmt.Fprintf(os.Stderr, "vh_species: unknown command %q\n", os.Args[1])
		os.Exit(2)
	}
	os.Exit(cmd(os.Args[2:]))
}

package main

import (
	"encoding/json"
	"flag"
	"fmt"
	"math"
	"math/rand"
	"os"
	"sort"

	"github.com/yaricom/goNEAT/v4/neat"
	"github.com/yaricom/goNEAT/v4/neat/genetics"

	"verifharness/vhu"
)

// X12 recorder (B1) for spec/Trace_Lifecycle.tla: real populations evolve through the three phases of both executors
// (the driver of the C09 recorder: synthetic fitness families, randomised options, small drop-off ages so that the
// stagnation penalty and delta coding fire, an Options object replaced mid-run).  Written per population: an "init"
// line, per epoch a "prep" line (after the real prepareForReproduction) and a "fin" line (after reproduce + finalize);
// "abort" when a phase returned an error.  float64 values (raw best fitness, MaxFitnessEver, HighestFitness) are written
// as dense ranks over all values of the whole trace (0.0 has rank 0: the scenarios use non-negative fitness).

type lcSpecies struct {
	Id    int     `json:"id"`
	Age   int     `json:"age"`
	Aoli  int     `json:"aoli"`
	Mx    int     `json:"mx"`
	Novel bool    `json:"novel"`
	mxF   float64 // raw value, ranked at the end
}
type lcPost struct {
	Sp   []*lcSpecies `json:"sp"`
	Hf   int          `json:"hf"`
	Ehlc int          `json:"ehlc"`
	Last int          `json:"last"`
	hfF  float64
}
type lcEvent struct {
	K       string       `json:"k"`
	Src     string       `json:"src,omitempty"`
	Gen     int          `json:"gen"`
	Sp      []*lcSpecies `json:"sp,omitempty"` // init
	Hf      int          `json:"hf"`
	Ehlc    int          `json:"ehlc"`
	Last    int          `json:"last"`
	Dropoff int          `json:"dropoff"`
	N       int          `json:"n"`
	Sig     [2]int       `json:"sig"`
	Best    [][2]int     `json:"best"`   // [id, rank of the best raw fitness] of every species entering the epoch, list order
	Kept    []int        `json:"kept"`   // ids listed after the preparation
	Sorted  []int        `json:"sorted"` // the executor's sorted species
	Q       [][2]int     `json:"q"`      // [id, ExpectedOffspring] of the kept species
	Fac     [][2]int     `json:"fac"`    // [id, round(65536 * adjusted * size / raw)] for the first-listed member with raw > 0
	Post    *lcPost      `json:"post,omitempty"`
	Err     string       `json:"err,omitempty"`
	hfF     float64
	bestF   []float64
}

func init() { commands["rec-lifecycle"] = recLifecycle }

func lcSnapshot(pop *genetics.Population) []*lcSpecies {
	out := make([]*lcSpecies, 0, len(pop.Species))
	for _, s := range pop.Species {
		out = append(out, &lcSpecies{Id: s.Id, Age: s.Age, Aoli: s.AgeOfLastImprovement, Novel: s.IsNovel, mxF: s.MaxFitnessEver})
	}
	return out
}

func sigFraction(x float64) [2]int {
	for d := 1; d <= 40; d++ {
		n := x * float64(d)
		if math.Abs(n-math.Round(n)) < 1e-9 {
			return [2]int{int(math.Round(n)), d}
		}
	}
	return [2]int{int(math.Round(x * 1000)), 1000}
}

func recLifecycle(args []string) int {
	fs := flag.NewFlagSet("rec-lifecycle", flag.ExitOnError)
	out := fs.String("out", "", "trace file (NDJSON)")
	repFile := fs.String("report", "", "report file")
	nScen := fs.Int("scenarios", 8, "number of evolved populations")
	epochs := fs.Int("epochs", 14, "epochs per population")
	_ = fs.Parse(args)
	rep := &vhu.Report{Command: "rec-lifecycle", Extra: map[string]interface{}{}}
	seed := vhu.EnvSeed()
	master := rand.New(rand.NewSource(seed*7919 + 12))
	var events []*lcEvent
	values := map[float64]bool{0: true}
	note := func(x float64) float64 { values[x] = true; return x }
	stats := map[string]int{}
	var aborted []string
	for i := 0; i < *nScen; i++ {
		sc := randomScenario(master, i, *epochs)
		sc.Start = "xor"
		if i%4 == 3 {
			sc.Thr = 50 // one species: the record of the population is the record of that species
		}
		if i%2 == 0 {
			sc.DropOff = 1 + i%3 // delta coding after 6..8 epochs without a record
		}
		rand.Seed(sc.Seed)
		r := rand.New(rand.NewSource(sc.Seed + 1))
		opts := sc.options()
		var pop *genetics.Population
		var err error
		if p := vhu.Guard(func() { pop, err = sc.newPopulation(opts) }); p != "" || err != nil {
			aborted = append(aborted, fmt.Sprintf("%s: construction failed: %v %s", sc.Name, err, p))
			continue
		}
		src := "sequential"
		if sc.Parallel {
			src = "parallel"
		}
		events = append(events, &lcEvent{K: "init", Src: src + " " + sc.Family, Sp: lcSnapshot(pop), hfF: note(pop.HighestFitness), Ehlc: pop.EpochsHighestLastChanged, Last: pop.LastSpecies})
		for _, s := range pop.Species {
			note(s.MaxFitnessEver)
		}
		var cur *lcEvent
		hfBefore := 0.0
		ob := phaseObserver{
			beforePrepare: func(gen int, pop *genetics.Population) {
				hfBefore = pop.HighestFitness
				cur = &lcEvent{K: "prep", Src: src, Gen: gen, Dropoff: opts.DropOffAge, N: opts.PopSize, Sig: sigFraction(opts.AgeSignificance)}
				for _, s := range pop.Species {
					b := 0.0
					for k, o := range s.Organisms {
						if k == 0 || o.Fitness > b {
							b = o.Fitness
						}
					}
					cur.Best = append(cur.Best, [2]int{s.Id, 0})
					cur.bestF = append(cur.bestF, note(b))
				}
				// the raw fitness and the size of every species, for the penalty / boost factor
				// (marked on a fittest member: the champion is always kept as a parent)
				for _, s := range pop.Species {
					var bo *genetics.Organism
					for _, o := range s.Organisms {
						o.Data = nil
						if bo == nil || o.Fitness > bo.Fitness {
							bo = o
						}
					}
					if bo != nil && bo.Fitness > 0 {
						bo.Data = &genetics.OrganismData{Value: [2]float64{bo.Fitness, float64(len(s.Organisms))}}
					}
				}
			},
			afterPrepare: func(gen int, pop *genetics.Population, sorted []*genetics.Species) {
				for _, s := range pop.Species {
					cur.Kept = append(cur.Kept, s.Id)
					cur.Q = append(cur.Q, [2]int{s.Id, s.ExpectedOffspring})
					note(s.MaxFitnessEver)
				}
				for _, s := range sorted {
					cur.Sorted = append(cur.Sorted, s.Id)
				}
				cur.Post = &lcPost{Sp: lcSnapshot(pop), hfF: note(pop.HighestFitness), Ehlc: pop.EpochsHighestLastChanged, Last: pop.LastSpecies}
				if cur.Post.Ehlc == 0 && pop.HighestFitness == hfBefore {
					stats["epochs with delta coding"]++
				}
				if cur.Post.Ehlc == 0 && len(events) > 0 {
					stats["epochs with a new record or delta coding"]++
				}
				events = append(events, cur)
				stats["prep"]++
				if len(pop.Species) > 1 {
					stats["prep with several species"]++
				}
			},
			afterFinalize: func(gen int, pop *genetics.Population) {
				e := &lcEvent{K: "fin", Src: src, Gen: gen, Post: &lcPost{Sp: lcSnapshot(pop), hfF: note(pop.HighestFitness), Ehlc: pop.EpochsHighestLastChanged, Last: pop.LastSpecies}}
				for _, s := range pop.Species {
					note(s.MaxFitnessEver)
				}
				events = append(events, e)
				stats["fin"]++
			},
		}
		// the factor is read between adjustFitness and the purge of the eliminated organisms: the members still carry the Data marker
		ob.beforeReproduce = nil
		inner := ob.afterPrepare
		ob.afterPrepare = func(gen int, pop *genetics.Population, sorted []*genetics.Species) {
			for _, s := range pop.Species {
				for _, o := range s.Organisms {
					if o.Data != nil {
						if v, ok := o.Data.Value.([2]float64); ok && v[0] > 0 {
							cur.Fac = append(cur.Fac, [2]int{s.Id, int(math.Round(65536 * o.Fitness * v[1] / v[0]))})
							o.Data = nil
							break
						}
					}
				}
			}
			if cur.Fac == nil {
				cur.Fac = [][2]int{}
			}
			inner(gen, pop, sorted)
		}
		var done int
		var rerr error
		if p := vhu.Guard(func() { done, rerr = runEpochs(&sc, r, &opts, pop, ob) }); p != "" {
			rerr = fmt.Errorf("panic: %s", p)
		}
		if rerr != nil {
			aborted = append(aborted, fmt.Sprintf("%s after %d epochs: %v", sc.Name, done, rerr))
			events = append(events, &lcEvent{K: "abort", Err: rerr.Error()})
		}
		rep.Cases++
	}
	// dense ranks
	vs := make([]float64, 0, len(values))
	for v := range values {
		vs = append(vs, v)
	}
	sort.Float64s(vs)
	if vs[0] != 0 {
		fmt.Println("vh_species rec-lifecycle: a negative value among the recorded fitness values")
		return 2
	}
	rank := map[float64]int{}
	for k, v := range vs {
		rank[v] = k
	}
	rk := func(sp []*lcSpecies) {
		for _, s := range sp {
			s.Mx = rank[s.mxF]
		}
	}
	f, err := os.Create(*out)
	if err != nil {
		fmt.Println("vh_species rec-lifecycle:", err)
		return 2
	}
	defer f.Close()
	enc := json.NewEncoder(f)
	penalisedSeen := 0
	for _, e := range events {
		rk(e.Sp)
		e.Hf = rank[e.hfF]
		for k := range e.Best {
			e.Best[k][1] = rank[e.bestF[k]]
		}
		if e.Post != nil {
			rk(e.Post.Sp)
			e.Post.Hf = rank[e.Post.hfF]
		}
		if e.K == "prep" {
			for _, fc := range e.Fac {
				if fc[1] < 65536*e.Sig[0]/e.Sig[1]/50 {
					penalisedSeen++
				}
			}
		}
		if e.Best == nil {
			e.Best = [][2]int{}
		}
		if e.Kept == nil {
			e.Kept = []int{}
		}
		if e.Sorted == nil {
			e.Sorted = []int{}
		}
		if e.Q == nil {
			e.Q = [][2]int{}
		}
		if e.Fac == nil {
			e.Fac = [][2]int{}
		}
		if err := enc.Encode(e); err != nil {
			fmt.Println("vh_species rec-lifecycle:", err)
			return 2
		}
		rep.Evaluations++
	}
	rep.Nontrivial = stats["prep with several species"]
	rep.Extra["events"] = stats
	rep.Extra["species_seen_under_stagnation_penalty"] = penalisedSeen
	rep.Extra["aborted_scenarios"] = len(aborted)
	if len(aborted) > 3 {
		aborted = aborted[:3]
	}
	rep.Extra["aborted_first"] = aborted
	_ = neat.LogLevel
	return rep.Write(*repFile)
}

package main

import (
	"encoding/json"
	"flag"
	"fmt"
	"math/rand"
	"os"
	"sort"

	"github.com/yaricom/goNEAT/v4/neat"
	"github.com/yaricom/goNEAT/v4/neat/genetics"

	"verifharness/vhu"
)

// C09 recorder (B1): real populations evolve with real-valued fitness families (constant, linear, heavy-tailed, one
// dominant, stagnating so that the stagnation penalty and delta coding fire, sparse) under randomised options (small
// compatibility thresholds = many species, survival thresholds, drop-off ages, babies stolen up to half the
// population) through the three phases of both executors. After the preparation phase one "quota" event per epoch
// is written for spec/Trace_Quota.tla: per species (in the order in which countOffspring visited them) the quota,
// the sum of its members' expected offspring (all members, also those marked for elimination - this is what the
// code sums), the running sum, size, parents kept and survival_thresh * size; fixed point 2^-20.

type quotaSpEvent struct {
	Id     int  `json:"id"`
	Q      int  `json:"q"`
	Share  int  `json:"share"`
	Cum    int  `json:"cum"`
	Size   int  `json:"size"`
	Kept   int  `json:"kept"`
	Tn     int  `json:"tn"`
	Listed bool `json:"listed"`
	// dense ranks (1 = best) of the members' adjusted fitness as the library left it: the worst rank among the organisms
	// kept as parents and the best rank among those eliminated (0: none eliminated)
	Kr int `json:"kr"`
	Er int `json:"er"`
}
type quotaEvent struct {
	K       string         `json:"k"`
	Src     string         `json:"src"`
	Gen     int            `json:"gen"`
	N       int            `json:"n"`
	Mode    string         `json:"mode"`
	Tol     int            `json:"tol"`
	SumE    int            `json:"sume"`
	Species []quotaSpEvent `json:"species"`
	Babies  int            `json:"babies"`
	After   int            `json:"after"`
}

func init() { commands["rec-quota"] = recQuota }

func recQuota(args []string) int {
	fs := flag.NewFlagSet("rec-quota", flag.ExitOnError)
	out := fs.String("out", "", "trace file (NDJSON)")
	repFile := fs.String("report", "", "report file")
	nScen := fs.Int("scenarios", 6, "number of evolved populations")
	epochs := fs.Int("epochs", 8, "epochs per population")
	_ = fs.Parse(args)
	f, err := os.Create(*out)
	if err != nil {
		fmt.Println("vh_species rec-quota:", err)
		return 2
	}
	defer f.Close()
	enc := json.NewEncoder(f)
	rep := &vhu.Report{Command: "rec-quota", Extra: map[string]interface{}{}}
	seed := vhu.EnvSeed()
	master := rand.New(rand.NewSource(seed*104729 + 5))
	byMode := map[string]int{}
	byFamily := map[string]int{}
	var aborted []string
	makeup, multi, penalised := 0, 0, 0
	for i := 0; i < *nScen; i++ {
		sc := randomScenario(master, i, *epochs)
		sc.Start = "xor" // quota arithmetic does not depend on the topology; the XOR start genome never yields gene-less genomes
		if sc.Thr > 1.0 {
			sc.Thr = 0.6
		}
		if i%5 == 4 {
			sc.Thr = 50 // one species
		}
		rand.Seed(sc.Seed)
		r := rand.New(rand.NewSource(sc.Seed + 1))
		opts := sc.options()
		var pop *genetics.Population
		if p := vhu.Guard(func() { pop, err = sc.newPopulation(opts) }); p != "" || err != nil {
			aborted = append(aborted, fmt.Sprintf("%s: construction failed: %v %s", sc.Name, err, p))
			continue
		}
		var ev *quotaEvent
		var order []*genetics.Species
		var members map[*genetics.Species][]*genetics.Organism
		var hfBefore float64
		ob := phaseObserver{
			beforePrepare: func(gen int, pop *genetics.Population) {
				order = append([]*genetics.Species{}, pop.Species...)
				members = map[*genetics.Species][]*genetics.Organism{}
				for _, sp := range pop.Species {
					members[sp] = append([]*genetics.Organism{}, sp.Organisms...)
				}
				hfBefore = pop.HighestFitness
			},
			afterPrepare: func(gen int, pop *genetics.Population, sorted []*genetics.Species) {
				src := "prepareForReproduction/sequential"
				if sc.Parallel {
					src = "prepareForReproduction/parallel"
				}
				ev = &quotaEvent{K: "quota", Src: src, Gen: gen, N: 0, Tol: 4, Babies: -1, After: -1}
				switch {
				case pop.EpochsHighestLastChanged == 0 && pop.HighestFitness == hfBefore:
					ev.Mode = "delta"
				case opts.BabiesStolen > 0:
					ev.Mode = "steal"
				default:
					ev.Mode = "none"
				}
				listed := map[*genetics.Species]bool{}
				for _, sp := range pop.Species {
					listed[sp] = true
				}
				cum, total := 0.0, 0.0
				for _, sp := range order {
					share := 0.0
					for _, o := range members[sp] {
						share += o.ExpectedOffspring
					}
					cum += share
					total += share
					n := len(members[sp])
					ev.N += n
					keptSet := map[*genetics.Organism]bool{}
					for _, o := range sp.Organisms {
						keptSet[o] = true
					}
					vals := make([]float64, 0, n)
					for _, o := range members[sp] {
						vals = append(vals, o.Fitness)
					}
					sort.Sort(sort.Reverse(sort.Float64Slice(vals)))
					rank := map[float64]int{}
					for _, v := range vals {
						if _, ok := rank[v]; !ok {
							rank[v] = len(rank) + 1
						}
					}
					kr, er := 0, 0
					for _, o := range members[sp] {
						rk := rank[o.Fitness]
						if keptSet[o] {
							if rk > kr {
								kr = rk
							}
						} else if er == 0 || rk < er {
							er = rk
						}
					}
					ev.Species = append(ev.Species, quotaSpEvent{Id: sp.Id, Q: sp.ExpectedOffspring, Share: toFix(share), Cum: toFix(cum),
						Size: n, Kept: len(sp.Organisms), Tn: toFix(opts.SurvivalThresh * float64(n)), Listed: listed[sp], Kr: kr, Er: er})
					if (sp.Age-sp.AgeOfLastImprovement+1)-opts.DropOffAge >= 0 {
						penalised++
					}
				}
				ev.SumE = toFix(total)
				if len(order) > 1 {
					multi++
				}
			},
			afterReproduce: func(gen int, pop *genetics.Population) {
				old := map[*genetics.Organism]bool{}
				for _, ms := range members {
					for _, o := range ms {
						old[o] = true
					}
				}
				n := 0
				for _, sp := range pop.Species {
					for _, o := range sp.Organisms {
						if !old[o] {
							n++
						}
					}
				}
				ev.Babies = n
			},
			afterFinalize: func(gen int, pop *genetics.Population) {
				ev.After = len(pop.Organisms)
				_ = enc.Encode(ev)
				rep.Cases++
				rep.Evaluations += len(ev.Species)
				byMode[ev.Mode]++
				byFamily[sc.Family]++
				// coverage: a make-up offspring or a fraction carried over a species boundary, stolen babies or delta coding
				nontrivial := ev.Mode != "none"
				tq := 0
				for k, s := range ev.Species {
					tq += s.Q
					if k+1 < len(ev.Species) && s.Cum%fixOne > 16 && s.Cum%fixOne < fixOne-16 {
						nontrivial = true
					}
				}
				if nontrivial {
					rep.Nontrivial++
					if b, _ := json.Marshal(ev); len(b) < 2500 {
						rep.Sample(json.RawMessage(b))
					}
				}
				ev = nil
			},
		}
		done, rerr := 0, error(nil)
		if p := vhu.Guard(func() { done, rerr = runEpochs(&sc, r, &opts, pop, ob) }); p != "" {
			aborted = append(aborted, fmt.Sprintf("%s: panic after %d epochs: %s", sc.Name, done, p))
		} else if rerr != nil {
			aborted = append(aborted, fmt.Sprintf("%s: stopped after %d epochs: %v", sc.Name, done, rerr))
		}
		// an epoch that prepared but failed to reproduce is still an observation: the quotas were wrong or the run broke
		if ev != nil {
			_ = enc.Encode(ev)
			rep.Cases++
		}
	}
	_ = makeup
	rep.Extra["events_by_mode"] = byMode
	rep.Extra["events_by_fitness_family"] = byFamily
	rep.Extra["epochs_with_several_species"] = multi
	rep.Extra["species_under_stagnation_penalty"] = penalised
	rep.Extra["aborted_scenarios"] = len(aborted)
	if len(aborted) > 4 {
		aborted = aborted[:4]
	}
	rep.Extra["aborted_first"] = aborted
	code := rep.Write(*repFile)
	if code == 1 {
		code = 0
	}
	return code
}

var _ = neat.LogLevel

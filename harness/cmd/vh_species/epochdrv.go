package main

import (
	"context"
	"fmt"
	"math"
	"math/rand"

	"github.com/yaricom/goNEAT/v4/neat"
	"github.com/yaricom/goNEAT/v4/neat/genetics"

	"verifharness/vhu"
)

// Shared driver of the B1 recorders: real populations evolved with synthetic fitness families through the three
// phases of the real epoch executors (exactly the calls NextEpoch makes), with observation points between them.

const fixOne = 1 << 20 // fixed-point unit of the traces: 2^-20

func toFix(x float64) int {
	if math.IsNaN(x) {
		return -1
	}
	v := math.Floor(x * fixOne)
	if v > float64(1<<30) {
		return 1 << 30
	}
	if v < -float64(1<<30) {
		return -(1 << 30)
	}
	return int(v)
}

// scenario describes one evolved population.
type scenario struct {
	Name     string  `json:"name"`
	Seed     int64   `json:"seed"`
	PopSize  int     `json:"pop_size"`
	Family   string  `json:"fitness_family"`
	Parallel bool    `json:"parallel"`
	Method   string  `json:"compat_method"`
	Thr      float64 `json:"compat_threshold"`
	DropOff  int     `json:"dropoff_age"`
	Stolen   int     `json:"babies_stolen"`
	Surv     float64 `json:"survival_thresh"`
	AgeSig   float64 `json:"age_significance"`
	Start    string  `json:"start"` // "xor" | "random"
	Epochs   int     `json:"epochs"`
	// Persist: one executor value serves all epochs of the run (as in Experiment.Execute); otherwise a fresh one per epoch.
	Persist bool `json:"persistent_executor"`
	// Switch > 0: from that epoch on the context carries ANOTHER Options object with other values (thresholds, coefficients,
	// survival threshold, age significance, drop-off age, stolen babies): every epoch is governed by the options it is given.
	Switch int `json:"options_switch_epoch"`
}

var fitnessFamilies = []string{"constant", "linear", "heavy", "dominant", "stagnating", "uniform", "sparse", "close", "tiny"}

// randomScenario draws the options within the documented ranges so that the interesting branches are reached:
// thresholds inside the distance distribution (many species), small drop-off ages (stagnation penalty and delta
// coding fire), stolen babies up to half of the population.
func randomScenario(r *rand.Rand, idx int, epochs int) scenario {
	s := scenario{Seed: r.Int63n(1 << 40), Epochs: epochs}
	s.Name = fmt.Sprintf("scenario-%d", idx)
	s.PopSize = []int{3, 5, 8, 13, 20, 30, 45, 60}[r.Intn(8)]
	s.Family = fitnessFamilies[idx%len(fitnessFamilies)]
	s.Parallel = idx%3 == 2
	s.Method = []string{"fast", "linear"}[idx%2]
	s.Start = []string{"xor", "xor", "random"}[r.Intn(3)]
	if s.Start == "xor" {
		s.Thr = []float64{0.25, 0.4, 0.6, 1.0, 2.0}[r.Intn(5)]
	} else {
		s.Thr = []float64{1.5, 3.0, 4.5, 6.0}[r.Intn(4)]
	}
	s.DropOff = 1 + r.Intn(6)
	if r.Intn(2) == 0 {
		s.Stolen = r.Intn(s.PopSize/2 + 1)
	}
	s.Surv = []float64{0.2, 0.25, 0.5, 0.1, 0.75, 1.0, 0.33, 0.6}[r.Intn(8)]
	s.AgeSig = []float64{1.0, 1.5, 2.0, 1.1, 0.5, 0.8}[r.Intn(6)]
	s.Persist = idx%4 < 3
	if idx%3 == 1 && epochs >= 2 {
		s.Switch = 2 + (idx/3)%(epochs-1)
	}
	return s
}

func (s *scenario) options() *neat.Options {
	o := vhu.BaseOptions(s.PopSize)
	o.CompatThreshold = s.Thr
	o.DropOffAge = s.DropOff
	o.BabiesStolen = s.Stolen
	o.SurvivalThresh = s.Surv
	o.AgeSignificance = s.AgeSig
	o.MutateAddNodeProb = 0.1
	o.MutateAddLinkProb = 0.25
	o.MutateToggleEnableProb = 0.05
	o.MutateGeneReenableProb = 0.05
	o.RecurOnlyProb = 0.1
	o.InterspeciesMateRate = 0.05
	if s.Method == "linear" {
		o.GenCompatMethod = neat.GenomeCompatibilityMethodLinear
	} else {
		o.GenCompatMethod = neat.GenomeCompatibilityMethodFast
	}
	if s.Parallel {
		o.EpochExecutorType = neat.EpochExecutorTypeParallel
	}
	return o
}

func (s *scenario) newPopulation(opts *neat.Options) (*genetics.Population, error) {
	if s.Start == "random" {
		return genetics.NewPopulationRandom(3, 2, 4, false, 0.4, opts)
	}
	return genetics.NewPopulation(vhu.ReadGenomeString(vhu.XorStartGenome, 1), opts)
}

// assignFitness sets the raw fitness of every organism according to the family (always > 0 for at least one).
func assignFitness(r *rand.Rand, family string, gen int, pop *genetics.Population) {
	n := len(pop.Organisms)
	dom := r.Intn(n)
	for i, o := range pop.Organisms {
		var f float64
		switch family {
		case "constant":
			f = 1.0
		case "linear":
			f = float64(i+1) * 0.37
		case "heavy":
			f = math.Exp(3 * r.NormFloat64())
		case "dominant":
			f = 0.01 + 0.01*r.Float64()
			if i == dom {
				f = 1000
			}
		case "stagnating":
			// never better than the first generation: species stagnate, delta coding fires
			f = 5.0 / (1.0 + 0.2*float64(gen)) * (0.5 + 0.5*r.Float64())
		case "sparse":
			f = 0
			if i == dom || r.Intn(4) == 0 {
				f = float64(1 + r.Intn(3))
			}
		case "close":
			// pairwise different values that agree in their first nine digits (in an order unrelated to the list order)
			f = 1.0 + float64((i*7919+gen*31)%(4*n))*1e-10
		case "tiny":
			f = float64(1+(i*104729+gen*17)%(4*n)) * 1e-12
		default: // uniform
			f = 10 * r.Float64()
		}
		o.Fitness = f
	}
	// what an evaluator leaves in the organisms besides the fitness: winner flags (on organisms that need not be the
	// fittest), error values, a built phenotype.  A turnover is governed by the fitness values.
	for i, o := range pop.Organisms {
		o.IsWinner = (i*7+gen*3)%5 == 0
		o.Error = float64((i*13+gen)%7) / 7
		if (i+gen)%3 == 0 {
			_, _ = o.Phenotype()
		}
	}
}

type phaseObserver struct {
	// called after the preparation phase; sorted = the executor's sorted species
	afterPrepare func(gen int, pop *genetics.Population, sorted []*genetics.Species)
	// called before fitness adjustment
	beforePrepare   func(gen int, pop *genetics.Population)
	beforeReproduce func(gen int, pop *genetics.Population)
	afterReproduce  func(gen int, pop *genetics.Population)
	afterFinalize   func(gen int, pop *genetics.Population)
}

// runEpochs evolves pop for s.Epochs generations through the three phases of the selected executor.
// It returns the number of completed epochs and the error that stopped the run, if any.
func runEpochs(s *scenario, r *rand.Rand, optsVar **neat.Options, pop *genetics.Population, ob phaseObserver) (int, error) {
	ctx := neat.NewContext(context.Background(), *optsVar)
	var seq *genetics.SequentialPopulationEpochExecutor
	var par *genetics.ParallelPopulationEpochExecutor
	for gen := 1; gen <= s.Epochs; gen++ {
		if s.Switch > 0 && gen == s.Switch {
			// a new Options object (the old one keeps its values); the observers read the caller's variable
			n := **optsVar
			k := int(s.Seed % 4)
			n.CompatThreshold *= []float64{0.5, 2, 0.75, 3}[k]
			n.DisjointCoeff, n.ExcessCoeff, n.MutdiffCoeff = []float64{2, 1, 0.5, 1}[k], []float64{1, 2, 1, 0.5}[k], []float64{0.4, 1, 0.2, 0.8}[k]
			n.SurvivalThresh = []float64{0.5, 0.2, 0.9, 0.34}[k]
			n.AgeSignificance = []float64{2.0, 0.6, 1.25, 1.5}[k]
			n.DropOffAge = n.DropOffAge + []int{2, -1, 5, 1}[k]
			if n.DropOffAge < 1 {
				n.DropOffAge = 1
			}
			if n.BabiesStolen > 0 {
				n.BabiesStolen = 0
			} else {
				n.BabiesStolen = s.PopSize / 3
			}
			*optsVar = &n
			ctx = neat.NewContext(context.Background(), *optsVar)
		}
		assignFitness(r, s.Family, gen, pop)
		if ob.beforePrepare != nil {
			ob.beforePrepare(gen, pop)
		}
		if seq == nil || !s.Persist || s.Parallel { // (the parallel executor makes itself a fresh inner executor in every NextEpoch)
			if s.Parallel {
				par = &genetics.ParallelPopulationEpochExecutor{}
				par.VerifInit()
				seq = par.VerifSequential()
			} else {
				seq = &genetics.SequentialPopulationEpochExecutor{}
			}
		}
		if err := seq.VerifPrepare(ctx, gen, pop); err != nil {
			return gen - 1, fmt.Errorf("prepare: %w", err)
		}
		if ob.afterPrepare != nil {
			ob.afterPrepare(gen, pop, seq.VerifSortedSpecies())
		}
		if ob.beforeReproduce != nil {
			ob.beforeReproduce(gen, pop)
		}
		var err error
		if s.Parallel {
			err = par.VerifReproduce(ctx, gen, pop)
		} else {
			err = seq.VerifReproduce(ctx, gen, pop)
		}
		if err != nil {
			return gen - 1, fmt.Errorf("reproduce: %w", err)
		}
		if ob.afterReproduce != nil {
			ob.afterReproduce(gen, pop)
		}
		if err := seq.VerifFinalize(ctx, pop); err != nil {
			return gen - 1, fmt.Errorf("finalize: %w", err)
		}
		if ob.afterFinalize != nil {
			ob.afterFinalize(gen, pop)
		}
	}
	return s.Epochs, nil
}

// Command vh_x06 is the Go side of growth suite X06 (spec/Formats.tla): it replays the networks TLC enumerates from
// MC_Formats on the real graph writers of neat/network/formats (WriteCytoscapeJSON, WriteCytoscapeJSONWithStyle,
// WriteDOT) and on the file writers of experiment/utils, PARSES what they wrote (JSON / a small DOT reader) and compares
// the element sets with the ones the specification assigns (B2).
package main

import (
	"fmt"
	"os"

	"github.com/yaricom/goNEAT/v4/neat"
)

type command func(args []string) int

var commands = map[string]command{}

func main() {
	_ = neat.InitLogger("error")
	if len(os.Args) < 2 {
		fmt.Fprintln(os.Stderr, "usage: vh_x06 <command> [flags]")
		os.Exit(2)
	}
	cmd, ok := commands[os.Args[1]]
	if !ok {
		fmt.Fprintf(os.Stderr, "vh_x06: unknown command %q\n", os.Args[1])
		os.Exit(2)
	}
	os.Exit(cmd(os.Args[2:]))
}

package main

import (
	"bytes"
	"encoding/json"
	"errors"
	"flag"
	"fmt"
	"os"
	"path/filepath"
	"regexp"
	"runtime"
	"runtime/debug"
	"sort"
	"strconv"
	"strings"

	"verifharness/vhu"

	"github.com/yaricom/goNEAT/v4/experiment"
	"github.com/yaricom/goNEAT/v4/experiment/utils"
	"github.com/yaricom/goNEAT/v4/neat/genetics"
	"github.com/yaricom/goNEAT/v4/neat/network"
	"github.com/yaricom/goNEAT/v4/neat/network/formats"
)

// X06 replay (B2).  For every network of MC_Formats:
//   (1) the network is built through the network API, WriteCytoscapeJSON (or ...WithStyle with the case's options) is
//       called, its output is decoded as JSON and the node / edge elements - every member of every element - are compared
//       as bags with the elements the specification assigns; so are the top-level members (layout, style);
//   (2) WriteDOT is called, its output is read by the DOT reader of dotparse.go and header, node statements and edge
//       statements with their attribute lists are compared likewise;
//   (3) NodeCount / LinkCount and the file-name suffix built from them are compared with the specification's;
//   (4) where the specification marks the network as expressible by a genome, a real organism is built and written with
//       utils.WriteGenomePlain / WriteGenomeDOT / WriteGenomeCytoscapeJSON: returned path, file name, and the parsed
//       content of the files are compared (the same expected elements);
//   (5) where it marks the case for the failing writer, both writers are run against a writer that fails after k bytes,
//       for EVERY k in 0 .. output length + 1, and the outcome is compared with the specification's table.

type cyNodeExp struct {
	Id       string `json:"id"`
	Parent   string `json:"parent"`
	Sel      bool   `json:"selectable"`
	Val      int    `json:"activation_value"`
	Func     string `json:"activation_function"`
	Neuron   string `json:"neuron_type"`
	NodeType string `json:"node_type"`
	Nin      int    `json:"nin"`
	Nout     int    `json:"nout"`
	Control  bool   `json:"control_node"`
	Bg       string `json:"bg"`
	Border   string `json:"border"`
	Shape    string `json:"shape"`
	Trait    int    `json:"trait"`
}
type cyEdgeExp struct {
	Id     string `json:"id"`
	Source string `json:"source"`
	Target string `json:"target"`
	Weight int    `json:"weight"`
	Rec    bool   `json:"recurrent"`
	Td     bool   `json:"time_delayed"`
	Trait  int    `json:"trait"`
	Sel    bool   `json:"selectable"`
}
type dotNodeExp struct {
	Id     string `json:"id"`
	Neuron string `json:"neuron_type"`
	Act    string `json:"act"`
	Par    []int  `json:"par"`
}
type dotEdgeExp struct {
	Src   string `json:"src"`
	Dst   string `json:"dst"`
	Attrs bool   `json:"attrs"`
	Fin   bool   `json:"fin"`
	W     struct {
		Neg bool  `json:"neg"`
		Ip  int64 `json:"ip"`
		Fp  int64 `json:"fp"`
	} `json:"w"`
	Rec bool  `json:"rec"`
	Par []int `json:"par"`
}
type styleOpt struct {
	Mode   string `json:"mode"`
	Layout int    `json:"layout"`
	Styles []int  `json:"styles"`
}
type fmtCase struct {
	Kind string   `json:"kind"`
	Pat  int      `json:"pat"`
	Net  aNet     `json:"net"`
	St   styleOpt `json:"st"`
	Cy   struct {
		Ok        bool        `json:"ok"`
		Nodes     []cyNodeExp `json:"nodes"`
		Edges     []cyEdgeExp `json:"edges"`
		HasLayout bool        `json:"has_layout"`
		Layout    int         `json:"layout"`
		HasStyle  bool        `json:"has_style"`
		Styles    []int       `json:"styles"`
	} `json:"cy"`
	Dot struct {
		Strict   bool         `json:"strict"`
		Directed bool         `json:"directed"`
		Name     string       `json:"name"`
		Nodes    []dotNodeExp `json:"nodes"`
		Edges    []dotEdgeExp `json:"edges"`
	} `json:"dot"`
	File struct {
		Gx    bool   `json:"gx"`
		Nc    int    `json:"nc"`
		Lc    int    `json:"lc"`
		Trial int    `json:"trial"`
		Plain string `json:"plain"`
		Dot   string `json:"dot"`
		Cyjs  string `json:"cyjs"`
	} `json:"file"`
	Sink  bool `json:"sink"`
	Flags struct {
		Parallel  bool `json:"parallel"`
		Overlap   bool `json:"overlap"`
		Selfloop  bool `json:"selfloop"`
		Recurrent bool `json:"recurrent"`
		Ctrl      bool `json:"ctrl"`
		Rounded   bool `json:"rounded"`
	} `json:"flags"`
}

func init() { commands["replay-formats"] = replayFormats }

// ---------------------------------------------------------------- canonical elements

// an element is a set of members; it is compared through its canonical text (members sorted by name)
type elem map[string]string

func (e elem) String() string {
	ks := make([]string, 0, len(e))
	for k := range e {
		ks = append(ks, k)
	}
	sort.Strings(ks)
	var b strings.Builder
	for i, k := range ks {
		if i > 0 {
			b.WriteString(" ")
		}
		b.WriteString(k)
		b.WriteString("=")
		b.WriteString(e[k])
	}
	return b.String()
}

func fnum(x float64) string { return strconv.FormatFloat(x, 'g', -1, 64) }
func q(s string) string     { return strconv.Quote(s) }

// canonJSON renders a decoded JSON value (decoder with UseNumber) with sorted members and numbers by VALUE
func canonJSON(v interface{}) string {
	switch x := v.(type) {
	case nil:
		return "null"
	case bool:
		return strconv.FormatBool(x)
	case string:
		return q(x)
	case json.Number:
		f, err := strconv.ParseFloat(string(x), 64)
		if err != nil {
			return "badnum:" + string(x)
		}
		return fnum(f)
	case float64:
		return fnum(x)
	case []interface{}:
		parts := make([]string, len(x))
		for i, y := range x {
			parts[i] = canonJSON(y)
		}
		return "[" + strings.Join(parts, ",") + "]"
	case map[string]interface{}:
		ks := make([]string, 0, len(x))
		for k := range x {
			ks = append(ks, k)
		}
		sort.Strings(ks)
		parts := make([]string, len(ks))
		for i, k := range ks {
			parts[i] = q(k) + ":" + canonJSON(x[k])
		}
		return "{" + strings.Join(parts, ",") + "}"
	}
	return fmt.Sprintf("?%T", v)
}

func decodeJSON(b []byte) (interface{}, error) {
	d := json.NewDecoder(bytes.NewReader(b))
	d.UseNumber()
	var v interface{}
	if err := d.Decode(&v); err != nil {
		return nil, err
	}
	if d.More() {
		return nil, errors.New("more than one JSON value")
	}
	return v, nil
}

// jsonElement flattens one member of "nodes" / "edges": the members of "data" by name, every other member as "@name"
func jsonElement(v interface{}) elem {
	e := elem{}
	obj, ok := v.(map[string]interface{})
	if !ok {
		e["@notobject"] = canonJSON(v)
		return e
	}
	for k, x := range obj {
		if k != "data" {
			e["@"+k] = canonJSON(x)
			continue
		}
		d, ok := x.(map[string]interface{})
		if !ok {
			e["@data"] = canonJSON(x)
			continue
		}
		for dk, dv := range d {
			e[dk] = canonJSON(dv)
		}
	}
	return e
}

func (t *tables) cyNodeElem(n *cyNodeExp, ts traitSet) elem {
	e := elem{
		"id": q(n.Id), "parent": q(n.Parent), "@selectable": strconv.FormatBool(n.Sel),
		"activation_value": fnum(t.num(n.Val)), "activation_function": q(n.Func),
		"neuron_type": q(n.Neuron), "node_type": q(n.NodeType),
		"in_connections_count": strconv.Itoa(n.Nin), "out_connections_count": strconv.Itoa(n.Nout),
		"control_node":     strconv.FormatBool(n.Control),
		"background-color": q(n.Bg), "border-color": q(n.Border), "shape": q(n.Shape),
	}
	if n.Trait != 0 {
		e["trait"] = q(ts[n.Trait].String())
	}
	return e
}

func (t *tables) cyEdgeElem(x *cyEdgeExp, ts traitSet) elem {
	e := elem{
		"id": q(x.Id), "source": q(x.Source), "target": q(x.Target), "@selectable": strconv.FormatBool(x.Sel),
		"weight": fnum(t.num(x.Weight)), "recurrent": strconv.FormatBool(x.Rec), "time_delayed": strconv.FormatBool(x.Td),
	}
	if x.Trait != 0 {
		e["trait"] = q(ts[x.Trait].String())
	}
	return e
}

// fmt's %v of a []float64, written independently: shortest representation of every element, blanks between
func (t *tables) paramText(par []int) string {
	parts := make([]string, len(par))
	for i, p := range par {
		parts[i] = fnum(t.num(p))
	}
	return "[" + strings.Join(parts, " ") + "]"
}

func (t *tables) dotNodeElem(n *dotNodeExp) elem {
	e := elem{"@id": n.Id, "@list": "true", "neuron_type": n.Neuron}
	if n.Act != "" {
		e["activation_type"] = n.Act
	}
	if len(n.Par) > 0 {
		e["parameters"] = t.paramText(n.Par)
	}
	return e
}

func (t *tables) dotEdgeElem(x *dotEdgeExp) elem {
	e := elem{"@from": x.Src, "@to": x.Dst, "@arrow": "->", "@list": strconv.FormatBool(x.Attrs)}
	if !x.Attrs {
		return e
	}
	if x.Fin {
		m := x.W.Ip*1000000 + x.W.Fp
		if x.W.Neg {
			m = -m
		}
		e["weight"] = "micro:" + strconv.FormatInt(m, 10)
	} else {
		e["weight"] = "raw:+Inf"
	}
	e["recurrent"] = strconv.FormatBool(x.Rec)
	if len(x.Par) > 0 {
		e["parameters"] = t.paramText(x.Par)
	}
	return e
}

var fixed6 = regexp.MustCompile(`^(-?)(\d+)\.(\d{6})$`)

// a weight token of the form [-]d+.dddddd as an integer number of millionths; anything else is kept verbatim
func microOf(tok string) string {
	m := fixed6.FindStringSubmatch(tok)
	if m == nil {
		return "raw:" + tok
	}
	n, err := strconv.ParseInt(m[2]+m[3], 10, 64)
	if err != nil {
		return "raw:" + tok
	}
	if m[1] == "-" {
		n = -n
	}
	return "micro:" + strconv.FormatInt(n, 10)
}

func dotStmtElem(s *dotStmt) elem {
	e := elem{"@list": strconv.FormatBool(s.hasList)}
	if s.isEdge {
		e["@from"], e["@to"], e["@arrow"] = s.from, s.to, s.arrow
	} else {
		e["@id"] = s.from
	}
	for _, a := range s.attrs {
		v := a.val
		if s.isEdge && a.key == "weight" {
			v = microOf(v)
		}
		if old, dup := e[a.key]; dup {
			v = old + " AND AGAIN " + v
		}
		e[a.key] = v
	}
	return e
}

// compareBags: the emitted elements against the expected ones, each exactly once; returns "" / a description, and
// whether the two only differ in order
func compareBags(what string, got, want []elem) (diff string, orderOnly bool) {
	g := make([]string, len(got))
	w := make([]string, len(want))
	same := len(got) == len(want)
	for i := range got {
		g[i] = got[i].String()
	}
	for i := range want {
		w[i] = want[i].String()
		if same && g[i] != w[i] {
			same = false
		}
	}
	if same {
		return "", false
	}
	gs, ws := append([]string{}, g...), append([]string{}, w...)
	sort.Strings(gs)
	sort.Strings(ws)
	if len(gs) == len(ws) {
		eq := true
		for i := range gs {
			if gs[i] != ws[i] {
				eq = false
				break
			}
		}
		if eq {
			return "", true
		}
	}
	// the first element on either side that the other side lacks
	count := map[string]int{}
	for _, s := range ws {
		count[s]++
	}
	var extra, missing []string
	for _, s := range gs {
		if count[s] > 0 {
			count[s]--
		} else {
			extra = append(extra, s)
		}
	}
	for _, s := range ws {
		if count[s] > 0 {
			count[s]--
			missing = append(missing, s)
		}
	}
	clip := func(l []string) string {
		if len(l) > 2 {
			return fmt.Sprintf("%s ... (%d in all)", strings.Join(l[:2], " | "), len(l))
		}
		return strings.Join(l, " | ")
	}
	return fmt.Sprintf("%s: %d emitted, %d expected; emitted but not expected: {%s}; expected but not emitted: {%s}",
		what, len(got), len(want), clip(extra), clip(missing)), false
}

// ---------------------------------------------------------------- the failing writer

var errSink = errors.New("sink is full")

// sink takes `budget` bytes in total and then fails
type sink struct {
	budget   int
	accepted []byte
	calls    int
}

func (s *sink) Write(p []byte) (int, error) {
	s.calls++
	room := s.budget - len(s.accepted)
	if len(p) <= room {
		s.accepted = append(s.accepted, p...)
		return len(p), nil
	}
	s.accepted = append(s.accepted, p[:room]...)
	return room, errSink
}

// ---------------------------------------------------------------- the replayer

type replayer struct {
	t    *tables
	rep  *vhu.Report
	obs  map[string]int
	note map[string]string
	tmp  string
	// open file descriptors before / after the utils writers (no explicit garbage collection in between)
	fdProbeDone        bool
	fdBefore, fdAfter  int
	fdCalls            int
	sinceGC            int
	gcPercent          int
	strictOrder        bool
	sinkRuns, sinkCase int
}

func (r *replayer) fail(c *fmtCase, raw []byte, sig, what string) {
	r.rep.Fail(map[string]interface{}{"what": what, "signature": sig, "case": json.RawMessage(append([]byte{}, raw...))})
}

func (r *replayer) styleOptions(st *styleOpt) *formats.CytoscapeStyleOptions {
	if st.Mode == "nil" {
		return nil
	}
	o := &formats.CytoscapeStyleOptions{}
	if st.Layout != 0 {
		o.Layout = r.t.Layouts[st.Layout-1]
	}
	for _, s := range st.Styles {
		x := r.t.Styles[s-1]
		o.Style = append(o.Style, formats.ElementStyle{Selector: x.Selector, Style: x.Style})
	}
	return o
}

func (r *replayer) writeCy(w *sink, net *network.Network, st *styleOpt) error {
	if st.Mode == "default" {
		return formats.WriteCytoscapeJSON(w, net)
	}
	return formats.WriteCytoscapeJSONWithStyle(w, net, r.styleOptions(st))
}

// checkCyText compares a Cytoscape JSON text with the expectation of the case; returns the differences
func (r *replayer) checkCyText(c *fmtCase, text []byte, ts traitSet, primary bool) (diffs []string) {
	v, err := decodeJSON(text)
	if err != nil {
		return []string{fmt.Sprintf("output is not one JSON value: %v", err)}
	}
	top, ok := v.(map[string]interface{})
	if !ok {
		return []string{"output is not a JSON object"}
	}
	for k := range top {
		if k != "elements" && k != "layout" && k != "style" {
			diffs = append(diffs, fmt.Sprintf("unexpected top-level member %q", k))
		}
	}
	el, ok := top["elements"].(map[string]interface{})
	if !ok {
		return append(diffs, "no \"elements\" object")
	}
	for k := range el {
		if k != "nodes" && k != "edges" {
			diffs = append(diffs, fmt.Sprintf("unexpected member %q of elements", k))
		}
	}
	nodes, ok1 := el["nodes"].([]interface{})
	edges, ok2 := el["edges"].([]interface{})
	if !ok1 || !ok2 {
		return append(diffs, "elements.nodes / elements.edges are not both arrays")
	}
	var gotN, wantN, gotE, wantE []elem
	for _, x := range nodes {
		gotN = append(gotN, jsonElement(x))
	}
	for _, x := range edges {
		gotE = append(gotE, jsonElement(x))
	}
	for i := range c.Cy.Nodes {
		wantN = append(wantN, r.t.cyNodeElem(&c.Cy.Nodes[i], ts))
	}
	for i := range c.Cy.Edges {
		wantE = append(wantE, r.t.cyEdgeElem(&c.Cy.Edges[i], ts))
	}
	if d, oo := compareBags("node elements", gotN, wantN); d != "" {
		diffs = append(diffs, d)
	} else if oo {
		r.obs["cytoscape_node_order_differs"]++
	}
	if d, oo := compareBags("edge elements", gotE, wantE); d != "" {
		diffs = append(diffs, d)
	} else if oo {
		r.obs["cytoscape_edge_order_differs"]++
	}
	// the styling members
	lay, hasLay := top["layout"]
	if hasLay != c.Cy.HasLayout {
		diffs = append(diffs, fmt.Sprintf("member \"layout\" present = %v, expected %v", hasLay, c.Cy.HasLayout))
	} else if hasLay {
		want := canonOf(r.t.Layouts[c.Cy.Layout-1])
		if got := canonJSON(lay); got != want {
			diffs = append(diffs, fmt.Sprintf("layout %s, expected %s", got, want))
		}
	}
	sty, hasSty := top["style"]
	if hasSty != c.Cy.HasStyle {
		diffs = append(diffs, fmt.Sprintf("member \"style\" present = %v, expected %v", hasSty, c.Cy.HasStyle))
	} else if hasSty {
		var want []string
		for _, s := range c.Cy.Styles {
			x := r.t.Styles[s-1]
			want = append(want, canonOf(map[string]interface{}{"selector": x.Selector, "style": x.Style}))
		}
		ws := "[" + strings.Join(want, ",") + "]"
		if got := canonJSON(sty); got != ws {
			diffs = append(diffs, fmt.Sprintf("style %s, expected %s", got, ws))
		}
	}
	// observations: what the format does with parallel links
	ids := map[string]int{}
	if !primary {
		return diffs
	}
	for _, e := range gotE {
		ids[e["id"]]++
	}
	for _, n := range ids {
		if n > 1 {
			r.obs["cytoscape_outputs_with_duplicate_edge_ids"]++
			break
		}
	}
	return diffs
}

func canonOf(v interface{}) string {
	b, err := json.Marshal(v)
	if err != nil {
		return "unmarshalable"
	}
	x, err := decodeJSON(b)
	if err != nil {
		return "undecodable"
	}
	return canonJSON(x)
}

func (r *replayer) checkDotText(c *fmtCase, text []byte) (diffs []string) {
	g, err := parseDot(string(text))
	if err != nil {
		return []string{fmt.Sprintf("output is not readable as DOT: %v", err)}
	}
	if g.strict != c.Dot.Strict || g.directed != c.Dot.Directed {
		diffs = append(diffs, fmt.Sprintf("header strict=%v directed=%v, expected strict=%v directed=%v", g.strict, g.directed,
			c.Dot.Strict, c.Dot.Directed))
	}
	if g.hasName != (c.Dot.Name != "") || g.name != c.Dot.Name {
		diffs = append(diffs, fmt.Sprintf("graph name %q (present %v), expected %q", g.name, g.hasName, c.Dot.Name))
	}
	var gotN, wantN, gotE, wantE []elem
	for i := range g.stmts {
		if g.stmts[i].isEdge {
			gotE = append(gotE, dotStmtElem(&g.stmts[i]))
		} else {
			gotN = append(gotN, dotStmtElem(&g.stmts[i]))
		}
	}
	for i := range c.Dot.Nodes {
		wantN = append(wantN, r.t.dotNodeElem(&c.Dot.Nodes[i]))
	}
	for i := range c.Dot.Edges {
		wantE = append(wantE, r.t.dotEdgeElem(&c.Dot.Edges[i]))
	}
	if d, oo := compareBags("node statements", gotN, wantN); d != "" {
		diffs = append(diffs, d)
	} else if oo {
		r.obs["dot_node_order_differs"]++
	}
	if d, oo := compareBags("edge statements", gotE, wantE); d != "" {
		diffs = append(diffs, d)
	} else if oo {
		r.obs["dot_edge_order_differs"]++
	}
	return diffs
}

func countFds() int {
	ents, err := os.ReadDir("/proc/self/fd")
	if err != nil {
		return -1
	}
	return len(ents)
}

// sinkOutcome is the specification's SinkOutcome(L, k): taken from the emitted table where it reaches, otherwise from
// this port of it, which is first validated against the whole table (validateSinkPort)
func (r *replayer) sinkOutcome(L, k int) (err bool, accepted int) {
	if L < len(r.t.Sink) && k < len(r.t.Sink[L]) {
		return r.t.Sink[L][k].Err, r.t.Sink[L][k].Accepted
	}
	return sinkPort(L, k)
}

func sinkPort(L, k int) (bool, int) {
	if k < L {
		return true, k
	}
	return false, L
}

func (r *replayer) validateSinkPort() error {
	if len(r.t.Sink) != r.t.MaxL+1 {
		return fmt.Errorf("sink table has %d rows for MaxL = %d", len(r.t.Sink), r.t.MaxL)
	}
	for L, row := range r.t.Sink {
		if len(row) != L+2 {
			return fmt.Errorf("sink table row %d has %d entries", L, len(row))
		}
		for k, o := range row {
			e, a := sinkPort(L, k)
			if e != o.Err || a != o.Accepted || o.Calls != 1 {
				return fmt.Errorf("the replayer's port of SinkOutcome disagrees with the specification's table at L=%d k=%d", L, k)
			}
		}
	}
	return nil
}

// runSink runs one writer against every byte budget 0 .. L+1
func (r *replayer) runSink(c *fmtCase, raw []byte, name string, full []byte, encodeFails bool, write func(w *sink) error) {
	L := len(full)
	if encodeFails {
		// the writer never sees a byte, whatever its budget
		for _, k := range []int{0, 1, 64, 1 << 20} {
			s := &sink{budget: k}
			err := write(s)
			r.rep.Evaluations++
			r.sinkRuns++
			ef := r.t.EncodeFailure
			if (err != nil) != ef.Err || len(s.accepted) != ef.Accepted {
				r.fail(c, raw, "formats sink", fmt.Sprintf("%s on a network with a non-finite number and a writer with room for %d bytes: error %v, %d bytes handed to the writer; the specification (EncodeFailure) says error = %v, bytes = %d",
					name, k, err, len(s.accepted), ef.Err, ef.Accepted))
				return
			}
			if s.calls != ef.Calls {
				r.obs["sink_write_calls_differ_from_spec"]++
			}
		}
		return
	}
	for k := 0; k <= L+1; k++ {
		s := &sink{budget: k}
		err := write(s)
		r.rep.Evaluations++
		r.sinkRuns++
		wantErr, wantAcc := r.sinkOutcome(L, k)
		switch {
		case (err != nil) != wantErr:
			r.fail(c, raw, "formats sink", fmt.Sprintf("%s (output of %d bytes) into a writer that fails after %d bytes returned error %v; expected an error: %v",
				name, L, k, err, wantErr))
			return
		case err != nil && !errors.Is(err, errSink):
			r.fail(c, raw, "formats sink", fmt.Sprintf("%s into a writer that fails after %d bytes returned %q, which is not the writer's error", name, k, err))
			return
		case len(s.accepted) != wantAcc || !bytes.Equal(s.accepted, full[:wantAcc]):
			r.fail(c, raw, "formats sink", fmt.Sprintf("%s (output of %d bytes) into a writer that fails after %d bytes: the writer received %d bytes, expected the first %d bytes of the output",
				name, L, k, len(s.accepted), wantAcc))
			return
		}
		if s.calls != 1 {
			r.obs["sink_write_calls_differ_from_spec"]++
		}
	}
}

func (r *replayer) one(raw []byte) error {
	if bytes.Contains(raw[:minInt(len(raw), 200)], []byte(`"kind":"tables"`)) {
		return nil
	}
	var c fmtCase
	if err := json.Unmarshal(raw, &c); err != nil {
		return err
	}
	if c.Kind != "net" {
		return fmt.Errorf("unknown kind of case %q", c.Kind)
	}
	t := r.t
	r.rep.Cases++
	net, ts, err := t.buildDirect(&c.Net)
	if err != nil {
		return err
	}
	if c.Flags.Ctrl || c.Flags.Parallel || c.Flags.Selfloop {
		r.rep.Nontrivial++
	}
	if c.Flags.Parallel {
		r.obs["networks_with_parallel_links"]++
	}

	// (3) counts and the file-name suffix
	nc, lc := net.NodeCount(), net.LinkCount()
	r.rep.Evaluations++
	if nc != c.File.Nc || lc != c.File.Lc {
		r.fail(&c, raw, "formats count", fmt.Sprintf("NodeCount/LinkCount = %d/%d, the specification counts %d node elements and %d edge elements", nc, lc, c.File.Nc, c.File.Lc))
	}

	// (1) Cytoscape
	var cyFull []byte
	{
		s := &sink{budget: 1 << 30}
		var werr error
		if p := vhu.Guard(func() { werr = r.writeCy(s, net, &c.St) }); p != "" {
			r.fail(&c, raw, "formats cytoscape", "the Cytoscape writer panicked: "+p)
		} else {
			r.rep.Evaluations++
			switch {
			case !c.Cy.Ok:
				if werr == nil || len(s.accepted) != 0 {
					r.fail(&c, raw, "formats cytoscape", fmt.Sprintf("a network with a non-finite number: error %v and %d bytes written; the specification says the encoding error is returned and nothing is written", werr, len(s.accepted)))
				} else {
					r.obs["cytoscape_refuses_non_finite_numbers"]++
					r.note["cytoscape_non_finite_error"] = werr.Error()
				}
			case werr != nil:
				r.fail(&c, raw, "formats cytoscape", fmt.Sprintf("the Cytoscape writer failed: %v", werr))
			default:
				cyFull = s.accepted
				if d := r.checkCyText(&c, cyFull, ts, true); len(d) > 0 {
					r.fail(&c, raw, "formats cytoscape", "Cytoscape JSON: "+strings.Join(d, "; "))
				}
				if len(c.Net.Nodes) <= 3 {
					// writing again gives the same bytes (the writer leaves the network alone; member order is fixed)
					s2 := &sink{budget: 1 << 30}
					if err := r.writeCy(s2, net, &c.St); err != nil || !bytes.Equal(s2.accepted, cyFull) {
						r.fail(&c, raw, "formats cytoscape", fmt.Sprintf("writing the same network twice gave different outputs (second error: %v)", err))
					}
					r.rep.Evaluations++
					if c.St.Mode == "default" {
						// WriteCytoscapeJSON is WriteCytoscapeJSONWithStyle with the default options (taken from the tables)
						s3 := &sink{budget: 1 << 30}
						eq := styleOpt{Mode: "opt", Layout: c.Cy.Layout, Styles: c.Cy.Styles}
						if err := r.writeCy(s3, net, &eq); err != nil {
							r.fail(&c, raw, "formats cytoscape", fmt.Sprintf("WriteCytoscapeJSONWithStyle with the default options failed: %v", err))
						} else if d := r.checkCyText(&c, s3.accepted, ts, false); len(d) > 0 {
							r.fail(&c, raw, "formats cytoscape", "WriteCytoscapeJSONWithStyle with the documented default options: "+strings.Join(d, "; "))
						}
						r.rep.Evaluations++
					}
				}
			}
		}
	}

	// (2) DOT
	var dotFull []byte
	{
		s := &sink{budget: 1 << 30}
		var werr error
		if p := vhu.Guard(func() { werr = formats.WriteDOT(s, net) }); p != "" {
			r.fail(&c, raw, "formats dot", "WriteDOT panicked: "+p)
		} else if werr != nil {
			r.fail(&c, raw, "formats dot", fmt.Sprintf("WriteDOT failed: %v", werr))
		} else {
			r.rep.Evaluations++
			dotFull = s.accepted
			if d := r.checkDotText(&c, dotFull); len(d) > 0 {
				r.fail(&c, raw, "formats dot", "DOT: "+strings.Join(d, "; "))
			}
			if len(c.Dot.Edges) < len(c.Cy.Edges) {
				r.obs["dot_outputs_that_collapse_parallel_links"]++
			}
			for i := range c.Dot.Edges {
				if !c.Dot.Edges[i].Attrs {
					r.obs["dot_edges_without_attributes_(overlapping_module_lists)"]++
				}
			}
			if c.Flags.Rounded {
				r.obs["dot_outputs_with_a_weight_rounded_to_6_decimals"]++
			}
			if c.Pat == 2 && bytes.Contains(dotFull, []byte(`"+Inf"`)) {
				r.obs["dot_writes_non_finite_weights_as_+Inf"]++
			}
		}
	}
	if nc2, lc2 := net.NodeCount(), net.LinkCount(); nc2 != nc || lc2 != lc {
		r.fail(&c, raw, "formats count", "the writers changed NodeCount / LinkCount of the network")
	}
	// in / out counts of ordinary nodes leave control links out
	if c.Flags.Ctrl {
		r.obs["networks_where_connection_counts_of_ordinary_nodes_omit_control_links"]++
	}

	// (5) the failing writer
	if c.Sink {
		r.sinkCase++
		if !c.Cy.Ok || cyFull != nil {
			r.runSink(&c, raw, "the Cytoscape writer", cyFull, !c.Cy.Ok, func(w *sink) error { return r.writeCy(w, net, &c.St) })
		}
		if dotFull != nil {
			r.runSink(&c, raw, "WriteDOT", dotFull, false, func(w *sink) error { return formats.WriteDOT(w, net) })
		}
	}

	// (4) the file writers of experiment/utils
	if c.File.Gx {
		if err := r.utils(&c, raw); err != nil {
			return err
		}
	}
	r.rep.Sample(map[string]interface{}{"net": c.Net, "nodes": c.File.Nc, "links": c.File.Lc, "suffix": filepath.Base(c.File.Dot)})
	return nil
}

func (r *replayer) utils(c *fmtCase, raw []byte) error {
	org, ts, err := r.t.buildOrganism(&c.Net)
	if err != nil {
		r.fail(c, raw, "formats utils", fmt.Sprintf("the specification says a genome expresses this network, NewOrganism failed: %v", err))
		return nil
	}
	epoch := &experiment.Generation{Id: 1, TrialId: c.File.Trial}
	probe := !r.fdProbeDone && r.fdCalls == 0
	if probe {
		// no garbage collection (hence no finalizer) while the first 30 files are written
		runtime.GC()
		r.gcPercent = debug.SetGCPercent(-1)
		r.fdBefore = countFds()
	}
	type wr struct {
		name string
		want string
		call func(string, string, *genetics.Organism, *experiment.Generation) (string, error)
	}
	for _, w := range []wr{{"WriteGenomePlain", c.File.Plain, utils.WriteGenomePlain}, {"WriteGenomeDOT", c.File.Dot, utils.WriteGenomeDOT},
		{"WriteGenomeCytoscapeJSON", c.File.Cyjs, utils.WriteGenomeCytoscapeJSON}} {
		want := filepath.Join(r.tmp, strings.TrimPrefix(w.want, "OUT/"))
		var path string
		var werr error
		if p := vhu.Guard(func() { path, werr = w.call("best", r.tmp, org, epoch) }); p != "" {
			r.fail(c, raw, "formats utils", w.name+" panicked: "+p)
			continue
		}
		r.rep.Evaluations++
		ok := r.t.Utils[0]
		if (werr != nil) != ok.Err || (path != "") != ok.HasPath {
			r.fail(c, raw, "formats utils", fmt.Sprintf("%s returned (%q, %v) although the file can be created", w.name, path, werr))
			continue
		}
		if filepath.Clean(path) != filepath.Clean(want) {
			r.fail(c, raw, "formats utils", fmt.Sprintf("%s wrote to %q; the specification names the file %q (<name>_<NodeCount>-<LinkCount>)", w.name,
				strings.TrimPrefix(path, r.tmp), strings.TrimPrefix(want, r.tmp)))
		}
		text, rerr := os.ReadFile(path)
		if rerr != nil {
			r.fail(c, raw, "formats utils", fmt.Sprintf("%s: the returned path cannot be read: %v", w.name, rerr))
			continue
		}
		switch w.name {
		case "WriteGenomeDOT":
			if d := r.checkDotText(c, text); len(d) > 0 {
				r.fail(c, raw, "formats utils", "content of the .dot file: "+strings.Join(d, "; "))
			}
		case "WriteGenomeCytoscapeJSON":
			if d := r.checkCyText(c, text, ts, false); len(d) > 0 {
				r.fail(c, raw, "formats utils", "content of the .cyjs file: "+strings.Join(d, "; "))
			}
		default:
			g, gerr := genetics.ReadGenome(bytes.NewReader(text), 1)
			if gerr != nil {
				r.fail(c, raw, "formats utils", fmt.Sprintf("the plain genome file does not read back: %v", gerr))
			} else if len(g.Nodes) != len(c.Net.Nodes) || len(g.Genes) != len(c.Net.Links) {
				r.fail(c, raw, "formats utils", fmt.Sprintf("the plain genome file holds %d nodes / %d genes, the organism has %d / %d",
					len(g.Nodes), len(g.Genes), len(c.Net.Nodes), len(c.Net.Links)))
			} else if len(g.ControlGenes) != len(c.Net.Ctrl) {
				// the plain encoding has no module lines: the file name counts control nodes and links the file does not hold
				r.obs["plain_genome_files_that_lack_the_modules_counted_in_their_name"]++
			}
		}
		_ = os.Remove(path)
	}
	r.fdCalls += 3
	if !r.fdProbeDone && r.fdCalls >= 30 {
		r.fdAfter = countFds()
		r.fdProbeDone = true
		debug.SetGCPercent(r.gcPercent)
	}
	// a file that cannot be created: ("", error)
	if c.Sink || r.obs["utils_create_failures_tried"] < 40 {
		r.obs["utils_create_failures_tried"]++
		bad := r.t.Utils[1]
		for name, call := range map[string]func(string, string, *genetics.Organism, *experiment.Generation) (string, error){
			"WriteGenomePlain": utils.WriteGenomePlain, "WriteGenomeDOT": utils.WriteGenomeDOT, "WriteGenomeCytoscapeJSON": utils.WriteGenomeCytoscapeJSON} {
			path, werr := call("no-such-dir/best", r.tmp, org, epoch)
			r.rep.Evaluations++
			if (werr != nil) != bad.Err || (path != "") != bad.HasPath {
				r.fail(c, raw, "formats utils", fmt.Sprintf("%s into a directory that does not exist returned (%q, %v); expected (\"\", error)", name, path, werr))
			}
		}
	}
	// the writers leave their files open: let the finalizers close them before the descriptors run out
	r.sinceGC++
	if r.sinceGC >= 100 {
		runtime.GC()
		r.sinceGC = 0
	}
	return nil
}

func replayFormats(args []string) int {
	fs := flag.NewFlagSet("replay-formats", flag.ExitOnError)
	casesPath := fs.String("cases", "", "NDJSON cases of MC_Formats")
	outPath := fs.String("out", "formats_report.json", "report file")
	_ = fs.Parse(args)
	rep := &vhu.Report{Command: "replay-formats"}
	r := &replayer{rep: rep, obs: map[string]int{}, note: map[string]string{}}

	// first pass: the tables
	var tb *tables
	err := vhu.ReadNDJSON(*casesPath, func(line []byte) error {
		if tb != nil || !bytes.Contains(line[:minInt(len(line), 200)], []byte(`"kind":"tables"`)) {
			return nil
		}
		tb = &tables{}
		return json.Unmarshal(line, tb)
	})
	if err != nil || tb == nil {
		fmt.Fprintln(os.Stderr, "vh_x06: no tables case in", *casesPath, err)
		return 2
	}
	if tb.unregistered, err = findUnregistered(); err != nil {
		fmt.Fprintln(os.Stderr, "vh_x06:", err)
		return 2
	}
	if len(tb.Utils) != 2 || len(tb.WTab) == 0 || tb.WDen == 0 {
		fmt.Fprintln(os.Stderr, "vh_x06: incomplete tables case")
		return 2
	}
	r.t = tb
	if err := r.validateSinkPort(); err != nil {
		fmt.Fprintln(os.Stderr, "vh_x06:", err)
		return 2
	}
	tmp, err := os.MkdirTemp(".", "x06-out-")
	if err != nil {
		fmt.Fprintln(os.Stderr, "vh_x06:", err)
		return 2
	}
	r.tmp, _ = filepath.Abs(tmp)
	defer os.RemoveAll(r.tmp)

	err = vhu.ReadNDJSON(*casesPath, func(line []byte) error { return r.one(line) })
	if err != nil {
		os.RemoveAll(r.tmp)
		fmt.Fprintln(os.Stderr, "vh_x06:", err)
		return 2
	}
	obs := map[string]interface{}{}
	for k, v := range r.obs {
		obs[k] = v
	}
	for k, v := range r.note {
		obs[k] = v
	}
	if r.fdProbeDone {
		obs["utils_file_descriptors_left_open_after_30_writes"] = r.fdAfter - r.fdBefore
	}
	rep.Extra = map[string]interface{}{
		"observations":        obs,
		"sink_cases":          r.sinkCase,
		"sink_runs":           r.sinkRuns,
		"unregistered_type":   int(tb.unregistered),
		"sink_table_max_len":  tb.MaxL,
		"weights_denominator": tb.WDen,
	}
	return rep.Write(*outPath)
}

func minInt(a, b int) int {
	if a < b {
		return a
	}
	return b
}

package main

import (
	"fmt"
	"math"

	"github.com/yaricom/goNEAT/v4/neat"
	"github.com/yaricom/goNEAT/v4/neat/genetics"
	neatmath "github.com/yaricom/goNEAT/v4/neat/math"
	"github.com/yaricom/goNEAT/v4/neat/network"
)

// The abstract records of spec/Formats.tla (the Net record of Phenotype.tla with the payload the writers read).

type aNode struct {
	Id   int    `json:"id"`
	Role string `json:"role"`
	Act  int    `json:"act"`
	Val  int    `json:"val"`
	Tr   int    `json:"tr"`
	Par  []int  `json:"par"`
}
type aLink struct {
	Src int  `json:"src"`
	Dst int  `json:"dst"`
	W   int  `json:"w"`
	Rec bool `json:"rec"`
}
type aIo struct {
	N int `json:"n"`
	W int `json:"w"`
}
type aCtrl struct {
	aNode
	Ins  []aIo `json:"ins"`
	Outs []aIo `json:"outs"`
}
type aNet struct {
	Name    string  `json:"name"`
	Nodes   []aNode `json:"nodes"`
	Inputs  []int   `json:"inputs"`
	Outputs []int   `json:"outputs"`
	Links   []aLink `json:"links"`
	Ctrl    []aCtrl `json:"ctrl"`
}

type wRec struct {
	Num int   `json:"num"`
	Td  bool  `json:"td"`
	Tr  int   `json:"tr"`
	Par []int `json:"par"`
}

// tables is the one "tables" case of a run: what the symbols of the other cases stand for.
type tables struct {
	WDen     int                      `json:"wden"`
	Inf      int                      `json:"inf"`
	WTab     []wRec                   `json:"wtab"`
	TraitPar [][]int                  `json:"traitpar"`
	Layouts  []map[string]interface{} `json:"layouts"`
	Styles   []struct {
		Selector string                 `json:"selector"`
		Style    map[string]interface{} `json:"style"`
	} `json:"styles"`
	MaxL int `json:"maxl"`
	Sink [][]struct {
		Err      bool `json:"err"`
		Accepted int  `json:"accepted"`
		Calls    int  `json:"calls"`
	} `json:"sink"`
	EncodeFailure struct {
		Err      bool `json:"err"`
		Accepted int  `json:"accepted"`
		Calls    int  `json:"calls"`
	} `json:"encode_failure"`
	Utils []struct {
		CreateOk bool `json:"create_ok"`
		Err      bool `json:"err"`
		HasPath  bool `json:"has_path"`
	} `json:"utils"`

	unregistered neatmath.NodeActivationType
}

// ---- symbols of the model -> values of the implementation ----

// activation symbols 0..6 of Formats.tla (ActName); symbol 4 is a type code that is not registered
func (t *tables) actType(sym int) neatmath.NodeActivationType {
	switch sym {
	case 0:
		return neatmath.NullActivation
	case 1:
		return neatmath.SigmoidSteepenedActivation
	case 2:
		return neatmath.TanhActivation
	case 3:
		return neatmath.LinearActivation
	case 5:
		return neatmath.MultiplyModuleActivation
	case 6:
		return neatmath.MaxModuleActivation
	}
	return t.unregistered
}

func findUnregistered() (neatmath.NodeActivationType, error) {
	for c := 125; c > 40; c-- {
		if _, err := neatmath.NodeActivators.ActivationNameFromType(neatmath.NodeActivationType(c)); err != nil {
			return neatmath.NodeActivationType(c), nil
		}
	}
	return 0, fmt.Errorf("no unregistered activation type code found")
}

func roleType(role string) network.NodeNeuronType {
	switch role {
	case "I":
		return network.InputNeuron
	case "B":
		return network.BiasNeuron
	case "O":
		return network.OutputNeuron
	case "H":
		return network.HiddenNeuron
	}
	return network.NodeNeuronType(7) // "X": a value outside the four constants
}

// value of a numerator of the model: num / WDen, exactly representable; the INF numerator is +Inf
func (t *tables) num(n int) float64 {
	if n == t.Inf {
		return math.Inf(1)
	}
	return float64(n) / float64(t.WDen)
}

func (t *tables) floats(par []int) []float64 {
	if len(par) == 0 {
		return nil
	}
	out := make([]float64, len(par))
	for i, p := range par {
		out[i] = t.num(p)
	}
	return out
}

// the trait objects of one network (trait number -> object); number 0 is "no trait"
type traitSet map[int]*neat.Trait

func (t *tables) newTraits() traitSet {
	ts := traitSet{}
	for k, par := range t.TraitPar {
		tr := neat.NewTrait()
		tr.Id = k + 1
		tr.Params = t.floats(par)
		ts[k+1] = tr
	}
	return ts
}

func (t *tables) w(sym int) (*wRec, error) {
	if sym < 1 || sym > len(t.WTab) {
		return nil, fmt.Errorf("weight symbol %d outside the table", sym)
	}
	return &t.WTab[sym-1], nil
}

// dress sets on a link everything the weight symbol says besides the weight
func (t *tables) dress(l *network.Link, sym int, ts traitSet) {
	w, _ := t.w(sym)
	l.IsTimeDelayed = w.Td
	if w.Tr != 0 {
		l.Trait = ts[w.Tr]
	}
	l.Params = t.floats(w.Par)
}

func (t *tables) newNode(an *aNode, ts traitSet) *network.NNode {
	n := network.NewNNode(an.Id, roleType(an.Role))
	n.ActivationType = t.actType(an.Act)
	n.Activation = t.num(an.Val)
	if an.Tr != 0 {
		n.Trait = ts[an.Tr]
	}
	n.Params = t.floats(an.Par)
	return n
}

// buildDirect constructs the network of an abstract record through the network API alone: NewNNode / ConnectFrom /
// AddIncoming / AddOutgoing / NewNetwork / NewModularNetwork, then the exported fields the writers read.
func (t *tables) buildDirect(a *aNet) (*network.Network, traitSet, error) {
	ts := t.newTraits()
	byId := map[int]*network.NNode{}
	var all, ins, outs []*network.NNode
	for i := range a.Nodes {
		n := t.newNode(&a.Nodes[i], ts)
		byId[n.Id] = n
		all = append(all, n)
	}
	for _, i := range a.Inputs {
		ins = append(ins, byId[i])
	}
	for _, o := range a.Outputs {
		outs = append(outs, byId[o])
	}
	for _, l := range a.Links {
		w, err := t.w(l.W)
		if err != nil {
			return nil, nil, err
		}
		if byId[l.Src] == nil || byId[l.Dst] == nil {
			return nil, nil, fmt.Errorf("link %d->%d has an end outside the network", l.Src, l.Dst)
		}
		lk := byId[l.Dst].ConnectFrom(byId[l.Src], t.num(w.Num))
		lk.IsRecurrent = l.Rec
		t.dress(lk, l.W, ts)
	}
	var net *network.Network
	if len(a.Ctrl) == 0 {
		net = network.NewNetwork(ins, outs, all, 1)
	} else {
		var ctrl []*network.NNode
		for i := range a.Ctrl {
			c := &a.Ctrl[i]
			cn := t.newNode(&c.aNode, ts)
			for _, io := range c.Ins {
				w, err := t.w(io.W)
				if err != nil || byId[io.N] == nil {
					return nil, nil, fmt.Errorf("control node %d: bad input %v", c.Id, io)
				}
				t.dress(cn.AddIncoming(byId[io.N], t.num(w.Num)), io.W, ts)
			}
			for _, io := range c.Outs {
				w, err := t.w(io.W)
				if err != nil || byId[io.N] == nil {
					return nil, nil, fmt.Errorf("control node %d: bad output %v", c.Id, io)
				}
				t.dress(cn.AddOutgoing(byId[io.N], t.num(w.Num)), io.W, ts)
			}
			ctrl = append(ctrl, cn)
		}
		net = network.NewModularNetwork(ins, outs, all, ctrl, 1)
	}
	net.Name = a.Name
	return net, ts, nil
}

// buildOrganism expresses the same network from a genome (only for records the specification marks
// GenomeExpressible): genome nodes in list order, one enabled gene per link in list order, one enabled module per
// control node; the phenotype is whatever NewOrganism / Genesis make of it.
func (t *tables) buildOrganism(a *aNet) (*genetics.Organism, traitSet, error) {
	ts := t.newTraits()
	traits := []*neat.Trait{ts[1], ts[2]}
	byId := map[int]*network.NNode{}
	var nodes []*network.NNode
	for i := range a.Nodes {
		an := &a.Nodes[i]
		n := network.NewNNode(an.Id, roleType(an.Role))
		n.ActivationType = t.actType(an.Act)
		if an.Tr != 0 {
			n.Trait = ts[an.Tr]
		}
		byId[n.Id] = n
		nodes = append(nodes, n)
	}
	var genes []*genetics.Gene
	for k, l := range a.Links {
		w, err := t.w(l.W)
		if err != nil {
			return nil, nil, err
		}
		var g *genetics.Gene
		if w.Tr != 0 {
			g = genetics.NewGeneWithTrait(ts[w.Tr], t.num(w.Num), byId[l.Src], byId[l.Dst], l.Rec, int64(k+1), 0)
		} else {
			g = genetics.NewGene(t.num(w.Num), byId[l.Src], byId[l.Dst], l.Rec, int64(k+1), 0)
		}
		genes = append(genes, g)
	}
	var genome *genetics.Genome
	if len(a.Ctrl) == 0 {
		genome = genetics.NewGenome(1, traits, nodes, genes)
	} else {
		var mods []*genetics.MIMOControlGene
		for k := range a.Ctrl {
			c := &a.Ctrl[k]
			cn := network.NewNNode(c.Id, roleType(c.Role))
			cn.ActivationType = t.actType(c.Act)
			if c.Tr != 0 {
				cn.Trait = ts[c.Tr]
			}
			for _, io := range c.Ins {
				w, _ := t.w(io.W)
				cn.AddIncoming(byId[io.N], t.num(w.Num))
			}
			for _, io := range c.Outs {
				w, _ := t.w(io.W)
				cn.AddOutgoing(byId[io.N], t.num(w.Num))
			}
			mods = append(mods, genetics.NewMIMOGene(cn, int64(1000+k), 0, true))
		}
		genome = genetics.NewModularGenome(1, traits, nodes, genes, mods)
	}
	org, err := genetics.NewOrganism(1.0, genome, 1)
	if err != nil {
		return nil, nil, err
	}
	return org, ts, nil
}

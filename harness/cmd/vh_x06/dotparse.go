package main

import (
	"fmt"
	"strconv"
	"strings"
)

// A small reader of the DOT language - enough for every file dot.Marshal can produce for a graph without subgraphs
// and ports: [strict] (graph|digraph) [ID] '{' stmt* '}' with stmt = ID ['->'|'--' ID] ['[' (ID '=' ID [,;])* ']'] [';'].
// IDs are bare words / numerals or double-quoted Go-style strings (gonum quotes with strconv.Quote); `//` and `/* */`
// comments are skipped.  Written from the DOT grammar, not from gonum's printer.

type dotTok struct {
	kind   byte // 'i' id, 'p' punctuation
	text   string
	quoted bool
}

type dotAttr struct{ key, val string }

type dotStmt struct {
	from, to string
	isEdge   bool
	arrow    string
	hasList  bool // an attribute list `[...]` was present (possibly empty)
	attrs    []dotAttr
}

type dotGraph struct {
	strict   bool
	directed bool
	hasName  bool
	name     string
	stmts    []dotStmt
}

func dotTokens(src string) ([]dotTok, error) {
	var toks []dotTok
	i := 0
	isWord := func(c byte) bool {
		return c == '_' || c == '.' || c == '+' || c >= 0x80 || (c >= '0' && c <= '9') || (c >= 'a' && c <= 'z') || (c >= 'A' && c <= 'Z')
	}
	for i < len(src) {
		c := src[i]
		switch {
		case c == ' ' || c == '\t' || c == '\n' || c == '\r':
			i++
		case c == '/' && i+1 < len(src) && src[i+1] == '/':
			for i < len(src) && src[i] != '\n' {
				i++
			}
		case c == '/' && i+1 < len(src) && src[i+1] == '*':
			j := strings.Index(src[i+2:], "*/")
			if j < 0 {
				return nil, fmt.Errorf("unterminated comment at offset %d", i)
			}
			i += j + 4
		case c == '"':
			j := i + 1
			for j < len(src) && src[j] != '"' {
				if src[j] == '\\' {
					j++
				}
				j++
			}
			if j >= len(src) {
				return nil, fmt.Errorf("unterminated string at offset %d", i)
			}
			s, err := strconv.Unquote(src[i : j+1])
			if err != nil {
				return nil, fmt.Errorf("bad string %s at offset %d: %v", src[i:j+1], i, err)
			}
			toks = append(toks, dotTok{kind: 'i', text: s, quoted: true})
			i = j + 1
		case c == '-' && i+1 < len(src) && (src[i+1] == '>' || src[i+1] == '-'):
			toks = append(toks, dotTok{kind: 'p', text: src[i : i+2]})
			i += 2
		case c == '{' || c == '}' || c == '[' || c == ']' || c == '=' || c == ';' || c == ',' || c == ':':
			toks = append(toks, dotTok{kind: 'p', text: string(c)})
			i++
		case c == '-' || isWord(c):
			j := i + 1
			for j < len(src) && isWord(src[j]) {
				j++
			}
			toks = append(toks, dotTok{kind: 'i', text: src[i:j]})
			i = j
		default:
			return nil, fmt.Errorf("unexpected character %q at offset %d", c, i)
		}
	}
	return toks, nil
}

func parseDot(src string) (*dotGraph, error) {
	toks, err := dotTokens(src)
	if err != nil {
		return nil, err
	}
	p := 0
	peek := func() *dotTok {
		if p < len(toks) {
			return &toks[p]
		}
		return nil
	}
	isP := func(s string) bool { t := peek(); return t != nil && t.kind == 'p' && t.text == s }
	isKw := func(s string) bool {
		t := peek()
		return t != nil && t.kind == 'i' && !t.quoted && strings.EqualFold(t.text, s)
	}
	g := &dotGraph{}
	if isKw("strict") {
		g.strict = true
		p++
	}
	switch {
	case isKw("digraph"):
		g.directed = true
	case isKw("graph"):
	default:
		return nil, fmt.Errorf("expected graph or digraph, got %v", peek())
	}
	p++
	if t := peek(); t != nil && t.kind == 'i' {
		g.hasName, g.name = true, t.text
		p++
	}
	if !isP("{") {
		return nil, fmt.Errorf("expected '{', got %v", peek())
	}
	p++
	for !isP("}") {
		t := peek()
		if t == nil {
			return nil, fmt.Errorf("unexpected end of input inside the graph body")
		}
		if isP(";") {
			p++
			continue
		}
		if t.kind != 'i' {
			return nil, fmt.Errorf("expected a node id, got %q", t.text)
		}
		if !t.quoted && (isKw("subgraph") || isKw("node") || isKw("edge") || isKw("graph")) {
			return nil, fmt.Errorf("statement %q is outside the subset this reader understands", t.text)
		}
		st := dotStmt{from: t.text}
		p++
		if isP("->") || isP("--") {
			st.isEdge, st.arrow = true, peek().text
			p++
			t2 := peek()
			if t2 == nil || t2.kind != 'i' {
				return nil, fmt.Errorf("edge from %q without a target", st.from)
			}
			st.to = t2.text
			p++
		}
		if isP("[") {
			st.hasList = true
			p++
			for !isP("]") {
				if isP(",") || isP(";") {
					p++
					continue
				}
				k := peek()
				if k == nil || k.kind != 'i' {
					return nil, fmt.Errorf("bad attribute list of %q", st.from)
				}
				p++
				if !isP("=") {
					return nil, fmt.Errorf("attribute %q of %q without '='", k.text, st.from)
				}
				p++
				v := peek()
				if v == nil || v.kind != 'i' {
					return nil, fmt.Errorf("attribute %q of %q without a value", k.text, st.from)
				}
				p++
				st.attrs = append(st.attrs, dotAttr{k.text, v.text})
			}
			p++
		}
		if isP(";") {
			p++
		}
		g.stmts = append(g.stmts, st)
	}
	p++
	if p != len(toks) {
		return nil, fmt.Errorf("text after the closing '}'")
	}
	return g, nil
}

// Command vh is the Go side of the goNEAT verification harness: it replays TLC-generated cases on the real code (B2),
// records traces of real executions for TLC trace validation (B1) and forces TLC schedules on real goroutines (B3).
package main

import (
	"fmt"
	"os"

	"github.com/yaricom/goNEAT/v4/neat"
)

type command func(args []string) int

var commands = map[string]command{}

func main() {
	_ = neat.InitLogger("error")
	if len(os.Args) < 2 {
		fmt.Fprintln(os.Stderr, "usage: vh <command> [flags]")
		os.Exit(2)
	}
	cmd, ok := commands[os.Args[1]]
	if !ok {
		fmt.Fprintf(os.Stderr, "vh: unknown command %q\n", os.Args[1])
		os.Exit(2)
	}
	os.Exit(cmd(os.Args[2:]))
}

package main

import (
	"context"
	"encoding/json"
	"errors"
	"flag"
	"fmt"
	"math/rand"
	"reflect"
	"sort"
	"sync"
	"time"

	"github.com/yaricom/goNEAT/v4/experiment"
	"github.com/yaricom/goNEAT/v4/neat"
	"github.com/yaricom/goNEAT/v4/neat/genetics"
)

// C20 replay: every script explored by MC_Experiment is run through the real Experiment.Execute with a scripted
// evaluator and a recording observer; the evaluator log, the observer log, the recorded trials, the state of each
// trial's population and the returned error are compared with the behaviour of the specification.

type expCase struct {
	Runs     int             `json:"runs"`
	Gens     int             `json:"gens"`
	Script   [][]string      `json:"script"`
	Observer bool            `json:"observer"`
	OCancel  [][]interface{} `json:"ocancel"`   // notifications [kind, run, gen] during which the observer cancels the context
	Evals    [][]interface{} `json:"evals"`     // [run, gen, [popRun, turnovers]]
	Calls    [][]interface{} `json:"calls"`     // [kind, run, gen]
	CallsAlt [][]interface{} `json:"calls_alt"` // the observer log when the generation cancelled during its evaluation is still notified
	Trials   []struct {
		Id   int             `json:"id"`
		Gens [][]interface{} `json:"gens"` // [id, solved]
	} `json:"trials"`
	FinalPops [][]int `json:"final_pops"`
	Err       string  `json:"err"`
	Lazy      bool    `json:"lazy"` // the behaviour of an implementation that turns a population over just before its next evaluation
}

var errScripted = errors.New("scripted evaluator failure")

// errScriptedCtx is an evaluator failure that also matches context.Canceled (as an error from the evaluator's own
// child context would), while the run context is still alive.
type scriptedCtxError struct{}

func (scriptedCtxError) Error() string { return "scripted evaluator failure: context canceled" }
func (scriptedCtxError) Is(target error) bool {
	return target == errScripted || target == context.Canceled
}

var errScriptedCtx error = scriptedCtxError{}

type popTrack struct {
	index     int
	turnovers int
	last      map[*genetics.Organism]bool
}

type scriptedEvaluator struct {
	c      *expCase
	cancel context.CancelFunc
	evals  [][]interface{}
	pops   map[*genetics.Population]*popTrack
	ref    *genetics.Population // a reference spawn (NewPopulation of the same start genome and options)
	order  []*genetics.Population
	bad    string
}

func (s *scriptedEvaluator) observe(pop *genetics.Population) *popTrack {
	cur := map[*genetics.Organism]bool{}
	for _, o := range pop.Organisms {
		cur[o] = true
	}
	t, ok := s.pops[pop]
	if !ok {
		t = &popTrack{index: len(s.order)}
		s.pops[pop] = t
		s.order = append(s.order, pop)
		// a freshly spawned population is what NewPopulation returns: no organism or species of it has been through an epoch
		// turnover yet (birth generation and species age as in a reference spawn made by the harness) ...
		if s.ref != nil && len(s.ref.Organisms) > 0 && len(s.ref.Species) > 0 {
			for _, o := range pop.Organisms {
				if o.Generation != s.ref.Organisms[0].Generation {
					s.bad += fmt.Sprintf("the population first presented for a trial is not freshly spawned: it holds an organism born in generation %d (a spawn gives %d); ",
						o.Generation, s.ref.Organisms[0].Generation)
					break
				}
			}
			for _, sp := range pop.Species {
				if sp.Age != s.ref.Species[0].Age {
					s.bad += fmt.Sprintf("the population first presented for a trial is not freshly spawned: it holds a species of age %d (a spawn gives %d); ",
						sp.Age, s.ref.Species[0].Age)
					break
				}
			}
		}
		// ... and shares no organism with an earlier one
		for _, p := range s.order[:len(s.order)-1] {
			for o := range s.pops[p].last {
				if cur[o] {
					s.bad += "a new trial's population contains an organism of an earlier trial; "
				}
			}
		}
	} else {
		same, shared := len(cur) == len(t.last), 0
		for o := range cur {
			if t.last[o] {
				shared++
			} else {
				same = false
			}
		}
		if !same {
			t.turnovers++
			if shared > 0 {
				s.bad += fmt.Sprintf("%d organisms survived an epoch turnover; ", shared)
			}
		}
	}
	t.last = cur
	return t
}

func (s *scriptedEvaluator) GenerationEvaluate(_ context.Context, pop *genetics.Population, epoch *experiment.Generation) error {
	t := s.observe(pop)
	s.evals = append(s.evals, []interface{}{epoch.TrialId, epoch.Id, []int{t.index, t.turnovers}})
	outcome := "ok"
	if epoch.TrialId < len(s.c.Script) && epoch.Id < len(s.c.Script[epoch.TrialId]) {
		outcome = s.c.Script[epoch.TrialId][epoch.Id]
	} else {
		s.bad += fmt.Sprintf("evaluator asked for trial %d generation %d outside the configured %dx%d; ",
			epoch.TrialId, epoch.Id, s.c.Runs, s.c.Gens)
	}
	for i, o := range pop.Organisms {
		o.Fitness = 1.0 + float64((i*7+epoch.Id*3)%11)
	}
	epoch.FillPopulationStatistics(pop)
	switch outcome {
	case "fail":
		return errScripted
	case "failctx":
		return errScriptedCtx
	case "fsolved":
		epoch.Solved = true // the champion was set by FillPopulationStatistics above
		return errScripted
	case "cancel":
		s.cancel()
	case "csolved":
		s.cancel()
		epoch.Solved = true
	case "solved":
		epoch.Solved = true
	}
	return nil
}

type recordingObserver struct {
	calls   [][]interface{}
	ocancel [][]interface{}
	cancel  context.CancelFunc
	bad     string
}

func (r *recordingObserver) note(kind string, run, gen int) {
	r.calls = append(r.calls, []interface{}{kind, run, gen})
	for _, c := range r.ocancel {
		if len(c) == 3 && c[0] == kind && int(c[1].(float64)) == run && int(c[2].(float64)) == gen {
			r.cancel() // the scripted observer cancels the context while it is being notified
		}
	}
}
func (r *recordingObserver) TrialRunStarted(t *experiment.Trial) {
	if len(t.Generations) != 0 {
		r.bad += fmt.Sprintf("TrialRunStarted(trial %d) was handed a trial that already holds %d generations; ", t.Id, len(t.Generations))
	}
	r.note("start", t.Id, -1)
}
func (r *recordingObserver) TrialRunFinished(t *experiment.Trial) { r.note("finish", t.Id, -1) }
func (r *recordingObserver) EpochEvaluated(t *experiment.Trial, g *experiment.Generation) {
	r.note("epoch", t.Id, g.Id)
}

// evaluatorAndObserver is one value that implements both interfaces of Execute.
type evaluatorAndObserver struct {
	*scriptedEvaluator
	*recordingObserver
}

func norm(v interface{}) interface{} {
	b, _ := json.Marshal(v)
	var out interface{}
	_ = json.Unmarshal(b, &out)
	if out == nil {
		return []interface{}{}
	}
	return out
}

// expiringContext is a context that ends the way a context.WithDeadline / WithTimeout context does when its time is up
// (Done closes, Err() = context.DeadlineExceeded) - at the moment the script says, not by the wall clock.  "A cancelled
// context" of the statement is a context that is done, whatever ended it.
type expiringContext struct {
	mu   sync.Mutex
	done chan struct{}
	err  error
}

func newExpiringContext() (*expiringContext, context.CancelFunc) {
	c := &expiringContext{done: make(chan struct{})}
	return c, func() {
		c.mu.Lock()
		defer c.mu.Unlock()
		if c.err == nil {
			c.err = context.DeadlineExceeded
			close(c.done)
		}
	}
}
func (c *expiringContext) Deadline() (time.Time, bool)       { return time.Now().Add(time.Hour), true }
func (c *expiringContext) Done() <-chan struct{}             { return c.done }
func (c *expiringContext) Value(key interface{}) interface{} { return nil }
func (c *expiringContext) Err() error {
	c.mu.Lock()
	defer c.mu.Unlock()
	return c.err
}

func init() { commands["replay-experiment"] = replayExperiment }

func okScript(runs, gens int) [][]string {
	out := make([][]string, runs)
	for i := range out {
		for j := 0; j < gens; j++ {
			out[i] = append(out[i], "ok")
		}
	}
	return out
}

// compare judges one real run against one behaviour of the specification (evaluator log, observer log, recorded trials,
// final populations, returned error); "" = the behaviour explains the run.
func (c *expCase) compare(ev *scriptedEvaluator, obs *recordingObserver, exp *experiment.Experiment, runErr error, otherLife bool) (bad string) {
	gotErr := ""
	switch {
	case runErr == nil:
	case errors.Is(runErr, errScripted):
		gotErr = "fail"
	case errors.Is(runErr, context.Canceled), errors.Is(runErr, context.DeadlineExceeded):
		gotErr = "cancelled"
	default:
		gotErr = "other: " + runErr.Error()
	}
	if gotErr != c.Err {
		bad += fmt.Sprintf("Execute returned error %q, specification says %q; ", gotErr, c.Err)
	}
	if !reflect.DeepEqual(norm(ev.evals), norm(c.Evals)) {
		bad += fmt.Sprintf("evaluator saw %v, specification says %v; ", norm(ev.evals), norm(c.Evals))
	}
	if !reflect.DeepEqual(norm(obs.calls), norm(c.Calls)) && !(c.CallsAlt != nil && reflect.DeepEqual(norm(obs.calls), norm(c.CallsAlt))) {
		bad += fmt.Sprintf("observer saw %v, specification says %v; ", norm(obs.calls), norm(c.Calls))
	}
	// recorded trials, in order
	if len(exp.Trials) < len(c.Trials) {
		bad += fmt.Sprintf("%d trials recorded, specification says %d; ", len(exp.Trials), len(c.Trials))
	} else {
		// (an Experiment value that came with a Trials slice of another length keeps that length - Execute allocates the slice
		// only when it is nil, as executor.go's own caller pre-sizes it; what lies beyond the configured runs is then left over
		// from the caller, not recorded by this run, and is not judged)
		if runErr == nil && len(exp.Trials) != c.Runs && !otherLife {
			bad += fmt.Sprintf("%d trials recorded for %d configured runs; ", len(exp.Trials), c.Runs)
		}
		for i, want := range c.Trials {
			got := exp.Trials[i]
			var gens [][]interface{}
			for _, g := range got.Generations {
				gens = append(gens, []interface{}{g.Id, g.Solved})
			}
			if got.Id != want.Id || !reflect.DeepEqual(norm(gens), norm(want.Gens)) {
				if !(len(gens) == 0 && len(want.Gens) == 0 && got.Id == want.Id) {
					bad += fmt.Sprintf("trial %d recorded as id=%d gens=%v, specification says id=%d gens=%v; ",
						i, got.Id, norm(gens), want.Id, norm(want.Gens))
				}
			}
		}
	}
	// the population of every finished trial is in the state the specification says (no turnover after solved)
	for i, fp := range c.FinalPops {
		if i >= len(ev.order) {
			if c.Gens > 0 {
				bad += fmt.Sprintf("trial %d never presented a population; ", i)
			}
			continue
		}
		t := ev.observe(ev.order[i])
		if t.index != fp[0] || t.turnovers != fp[1] {
			bad += fmt.Sprintf("population of trial %d ended as <<%d,%d>>, specification says %v; ", i, t.index, t.turnovers, fp)
		}
	}
	return bad
}

func replayExperiment(args []string) int {
	fs := flag.NewFlagSet("replay-experiment", flag.ExitOnError)
	cases := fs.String("cases", "", "NDJSON behaviours printed by MC_Experiment")
	out := fs.String("out", "", "report file")
	_ = fs.Parse(args)
	rep := &report{Command: "replay-experiment"}
	start := readGenomeString(xorStartGenome, 1)
	// The specification may allow several behaviours for one input (script, observer, observer cancellations): where the
	// statement of C20 leaves the moment of the epoch turnover open (Experiment.tla, `lazy`).  Behaviours are grouped by
	// input; a real run is accepted when SOME behaviour of its group explains it.
	type group struct {
		variants []*expCase
		raws     []json.RawMessage
	}
	groups := map[string]*group{}
	var order []string
	err := readNDJSON(*cases, func(line []byte) error {
		c := &expCase{}
		if err := json.Unmarshal(line, c); err != nil {
			return err
		}
		kb, _ := json.Marshal([]interface{}{c.Runs, c.Gens, c.Script, c.Observer, c.OCancel})
		g, ok := groups[string(kb)]
		if !ok {
			g = &group{}
			groups[string(kb)] = g
			order = append(order, string(kb))
		}
		g.variants = append(g.variants, c)
		g.raws = append(g.raws, json.RawMessage(append([]byte(nil), line...)))
		return nil
	})
	if err != nil {
		fmt.Println("vh replay-experiment:", err)
		return 2
	}
	for _, key := range order {
		g := groups[key]
		// the behaviour of the code as found (eager turnover) first: its differences are the ones reported
		sort.SliceStable(g.variants, func(a, b int) bool { return !g.variants[a].Lazy && g.variants[b].Lazy })
		c := g.variants[0]
		rep.Cases += len(g.variants)
		raw := g.raws[0]
		for _, executor := range []neat.EpochExecutorType{neat.EpochExecutorTypeSequential, neat.EpochExecutorTypeParallel} {
			opts := baseOptions(8)
			opts.NumRuns, opts.NumGenerations, opts.EpochExecutorType = c.Runs, c.Gens, executor
			exp := experiment.Experiment{Id: 1}
			rand.Seed(envSeed() + int64(rep.Cases))
			ref, _ := genetics.NewPopulation(start, opts)
			// ... nor what it held before: for every other input the Experiment value has had an EARLIER LIFE with another
			// configuration (two more runs of one unsolved generation each, or - third variant - a Trials slice pre-sized by the
			// caller); "exactly the configured number of trials" is about the options of THIS call.
			otherLife := false
			switch (rep.Cases + len(string(executor))) % 3 {
			case 1:
				otherLife = true
				pre := baseOptions(8)
				pre.NumRuns, pre.NumGenerations, pre.EpochExecutorType = c.Runs+2, 1, executor
				pctx, pcancel := context.WithCancel(context.Background())
				_ = guard(func() {
					_ = exp.Execute(neat.NewContext(pctx, pre), start, &scriptedEvaluator{c: &expCase{Runs: c.Runs + 2, Gens: 1,
						Script: okScript(c.Runs+2, 1)}, cancel: pcancel, pops: map[*genetics.Population]*popTrack{}}, nil)
				})
				pcancel()
			case 2:
				otherLife = true
				exp.Trials = make(experiment.Trials, c.Runs+3)
			}
			// Execute is a function of its arguments: what the Experiment value holds from an earlier Execute does not matter.
			// Every behaviour is therefore run twice on the SAME Experiment value and judged against the specification both times.
			for pass := 1; pass <= 2; pass++ {
				rand.Seed(envSeed() + int64(rep.Cases) + int64(pass-1)*7919)
				ctx, cancel := context.WithCancel(context.Background())
				if (rep.Cases+pass)%2 == 0 {
					// every other run: the context ends like one whose deadline passes (at the scripted moment)
					ctx, cancel = newExpiringContext()
				}
				ev := &scriptedEvaluator{c: c, cancel: cancel, pops: map[*genetics.Population]*popTrack{}, ref: ref}
				obs := &recordingObserver{ocancel: c.OCancel, cancel: cancel}
				var runErr error
				bad := ""
				if p := guard(func() {
					if c.Observer && (rep.Cases+pass)%3 == 0 {
						// ONE object is both the evaluator and the observer (an evaluator that follows its own trials)
						both := &evaluatorAndObserver{ev, obs}
						runErr = exp.Execute(neat.NewContext(ctx, opts), start, both, both)
					} else if c.Observer {
						runErr = exp.Execute(neat.NewContext(ctx, opts), start, ev, obs)
					} else {
						runErr = exp.Execute(neat.NewContext(ctx, opts), start, ev, nil)
					}
				}); p != "" {
					bad += "Execute panicked: " + p + "; "
				}
				cancel()
				rep.Evaluations++
				bad += ev.bad + obs.bad
				first := ""
				explained := false
				for k, v := range g.variants {
					d := v.compare(ev, obs, &exp, runErr, otherLife)
					if k == 0 {
						first = d
					}
					if d == "" {
						explained = true
						break
					}
				}
				if !explained {
					bad += first
					if len(g.variants) > 1 {
						bad += fmt.Sprintf("(none of the %d admissible behaviours for this input explains the run; differences to the first are shown) ", len(g.variants))
					}
				}
				if bad != "" {
					if pass == 2 {
						bad = "[second Execute on the same Experiment value] " + bad
					}
					rep.fail(map[string]interface{}{"case": raw, "cases": g.raws, "executor": string(executor), "what": bad,
						"signature": "experiment " + string(raw)})
					break
				}
			}
		}
		interesting := len(c.OCancel) > 0
		for _, r := range c.Script {
			for _, o := range r {
				interesting = interesting || o != "ok"
			}
		}
		if interesting {
			rep.Nontrivial++
			if c.Observer && c.Err != "" {
				rep.sample(raw)
			}
		}
	}
	return rep.write(*out)
}

package main

import (
	"bufio"
	"encoding/json"
	"fmt"
	"math"
	"os"
	"strconv"
)

// readNDJSON calls fn for every line of an NDJSON file.
func readNDJSON(path string, fn func(line []byte) error) error {
	f, err := os.Open(path)
	if err != nil {
		return err
	}
	defer f.Close()
	sc := bufio.NewScanner(f)
	sc.Buffer(make([]byte, 1<<20), 1<<28)
	for sc.Scan() {
		b := sc.Bytes()
		if len(b) == 0 {
			continue
		}
		if err := fn(b); err != nil {
			return err
		}
	}
	return sc.Err()
}

// report is what every replay/record command writes as its result file.
type report struct {
	Command     string                   `json:"command"`
	Evaluations int                      `json:"evaluations"`
	Nontrivial  int                      `json:"distinct_nontrivial"`
	Cases       int                      `json:"cases"`
	Failures    []map[string]interface{} `json:"failures"`
	Samples     []interface{}            `json:"samples"`
	Extra       map[string]interface{}   `json:"extra,omitempty"`
}

func (r *report) fail(f map[string]interface{}) {
	if len(r.Failures) < 50 {
		r.Failures = append(r.Failures, f)
	} else {
		if r.Extra == nil {
			r.Extra = map[string]interface{}{}
		}
		n, _ := r.Extra["failures_dropped"].(int)
		r.Extra["failures_dropped"] = n + 1
	}
}

func (r *report) sample(s interface{}) {
	if len(r.Samples) < 3 {
		r.Samples = append(r.Samples, s)
	}
}

func (r *report) write(path string) int {
	if r.Failures == nil {
		r.Failures = []map[string]interface{}{}
	}
	if r.Samples == nil {
		r.Samples = []interface{}{}
	}
	b, err := json.MarshalIndent(r, "", " ")
	if err != nil {
		fmt.Fprintln(os.Stderr, "vh: cannot encode report:", err)
		return 2
	}
	if err := os.WriteFile(path, b, 0o644); err != nil {
		fmt.Fprintln(os.Stderr, "vh: cannot write report:", err)
		return 2
	}
	if len(r.Failures) > 0 {
		return 1
	}
	return 0
}

// fstr renders a float64 exactly (shortest round-trip) for reports.
func fstr(x float64) string { return strconv.FormatFloat(x, 'g', -1, 64) }

func hexbits(x float64) string { return fmt.Sprintf("%016x", math.Float64bits(x)) }

func closeRel(a, b, tol float64) bool {
	if a == b {
		return true
	}
	if math.IsNaN(a) || math.IsNaN(b) || math.IsInf(a, 0) || math.IsInf(b, 0) {
		return false
	}
	d := math.Abs(a - b)
	m := math.Max(math.Abs(a), math.Abs(b))
	return d <= tol*math.Max(m, 1)
}

// guard runs fn and converts a panic into an error string.
func guard(fn func()) (panicked string) {
	defer func() {
		if r := recover(); r != nil {
			panicked = fmt.Sprint(r)
		}
	}()
	fn()
	return ""
}

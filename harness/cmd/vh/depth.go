package main

import (
	"encoding/json"
	"errors"
	"flag"
	"fmt"
	"io"
	"strings"
	"time"

	"github.com/yaricom/goNEAT/v4/neat"
	"github.com/yaricom/goNEAT/v4/neat/genetics"
	"github.com/yaricom/goNEAT/v4/neat/network"
)

// C14 replay: every behaviour of MC_Depth (a link set with ordered incoming lists, then a sequence of depth queries
// with caps) is executed on a real network - built directly through the network API and, when it has links, also
// expressed from a genome - and every query's result, error and the traversal marks left behind are compared with
// the specification's.

type depthCase struct {
	Sensors []int `json:"sensors"`
	Hidden  []int `json:"hidden"`
	Outputs []int `json:"outputs"`
	Inc     []struct {
		N   int   `json:"n"`
		Src []int `json:"src"`
	} `json:"inc"`
	Queries []struct {
		Cap int  `json:"cap"`
		R   int  `json:"r"`
		Err bool `json:"err"`
	} `json:"queries"`
	Acyclic bool `json:"acyclic"`
}

func init() { commands["replay-depth"] = replayDepth }

var errEnoughHangs = errors.New("enough non-terminating queries")

func (c *depthCase) direct() *network.Network {
	nodes := map[int]*network.NNode{}
	var ins, outs, all []*network.NNode
	for _, id := range c.Sensors {
		n := network.NewNNode(id, network.InputNeuron)
		nodes[id] = n
		ins = append(ins, n)
		all = append(all, n)
	}
	for _, id := range c.Hidden {
		n := network.NewNNode(id, network.HiddenNeuron)
		nodes[id] = n
		all = append(all, n)
	}
	for _, id := range c.Outputs {
		n := network.NewNNode(id, network.OutputNeuron)
		nodes[id] = n
		outs = append(outs, n)
		all = append(all, n)
	}
	for _, in := range c.Inc {
		for _, s := range in.Src {
			nodes[in.N].ConnectFrom(nodes[s], 1.0)
		}
	}
	return network.NewNetwork(ins, outs, all, 1)
}

// viaGenome expresses the same graph from a genome whose gene order is the order of the incoming lists.
func (c *depthCase) viaGenome() (*network.Network, error) {
	tr := neat.NewTrait()
	tr.Id = 1
	nodes := map[int]*network.NNode{}
	var all []*network.NNode
	add := func(ids []int, t network.NodeNeuronType) {
		for _, id := range ids {
			n := network.NewNNode(id, t)
			nodes[id] = n
			all = append(all, n)
		}
	}
	add(c.Sensors, network.InputNeuron)
	add(c.Hidden, network.HiddenNeuron)
	add(c.Outputs, network.OutputNeuron)
	var genes []*genetics.Gene
	inn := int64(1)
	for _, in := range c.Inc {
		for _, s := range in.Src {
			genes = append(genes, genetics.NewGene(1.0, nodes[s], nodes[in.N], s >= in.N, inn, 0))
			inn++
		}
	}
	if len(genes) == 0 {
		return nil, nil
	}
	g := genetics.NewGenome(1, []*neat.Trait{tr}, all, genes)
	return g.Genesis(1)
}

func marksLeft(net *network.Network) []int {
	var left []int
	for _, n := range net.BaseNodes() {
		if n.VerifState().Visited {
			left = append(left, n.Id)
		}
	}
	return left
}

// otherOperations exercises the rest of the public Network API on the network between two depth queries
func otherOperations(net *network.Network, round int) {
	nodes := net.BaseNodes()
	for _, a := range nodes {
		for _, b := range nodes {
			count := 0
			net.IsRecurrent(a, b, &count, len(nodes)*len(nodes)+5)
		}
	}
	// the path printer walks the same nodes with the same traversal marks (only on networks without cycles: it has no
	// protection of its own against them and is not part of C14)
	if round%3 != 1 {
		// (an explicit cycle search over all links: the printer would recurse without end on a cycle)
		acyclic := true
		state := map[*network.NNode]int{}
		var visit func(n *network.NNode)
		visit = func(n *network.NNode) {
			state[n] = 1
			for _, l := range n.Incoming {
				switch state[l.InNode] {
				case 1:
					acyclic = false
				case 0:
					visit(l.InNode)
				}
			}
			state[n] = 2
		}
		for _, a := range nodes {
			if state[a] == 0 {
				visit(a)
			}
		}
		if acyclic {
			_ = guard(func() { _ = network.PrintAllActivationDepthPaths(net, io.Discard) })
		}
	}
	if round%2 == 0 {
		in := make([]float64, 0)
		for _, n := range nodes {
			if n.IsSensor() {
				in = append(in, 1.0)
			}
		}
		_ = net.LoadSensors(in)
		_, _ = net.ForwardSteps(2)
		_, _ = net.Flush()
	}
}

func replayDepth(args []string) int {
	fs := flag.NewFlagSet("replay-depth", flag.ExitOnError)
	cases := fs.String("cases", "", "NDJSON behaviours printed by MC_Depth")
	out := fs.String("out", "", "report file")
	_ = fs.Parse(args)
	rep := &report{Command: "replay-depth"}
	differ := 0
	hangs := 0
	err := readNDJSON(*cases, func(line []byte) error {
		var c depthCase
		if err := json.Unmarshal(line, &c); err != nil {
			return err
		}
		rep.Cases++
		hitCap := false
		for _, q := range c.Queries {
			hitCap = hitCap || q.Err
		}
		if hitCap {
			rep.Nontrivial++
		}
		nets := map[string]*network.Network{"direct": c.direct()}
		// the same network with OTHER operations of the public API between the depth queries (recurrence checks on every
		// node pair - as add-link makes them on the phenotype -, sensor loads, activation, flush): the depth of a network does
		// not depend on what else was asked of it
		nets["direct, other operations interleaved"] = c.direct()
		if gn, err := c.viaGenome(); err != nil {
			rep.fail(map[string]interface{}{"case": json.RawMessage(append([]byte(nil), line...)),
				"what": "Genesis failed: " + err.Error(), "signature": "depth genesis"})
		} else if gn != nil {
			nets["genome"] = gn
		}
		// the uncapped answer of a fresh instance of every network (reference for the cap law on networks with cycles)
		fresh := map[string]int{}
		nNodes := len(c.Sensors) + len(c.Hidden) + len(c.Outputs)
		if !c.Acyclic {
			fdone := make(chan string, 1)
			go func() {
				msg := ""
				if p := guard(func() {
					fresh["direct"], _ = c.direct().MaxActivationDepthWithCap(0)
					if _, ok := nets["genome"]; ok {
						if gn, err := c.viaGenome(); err == nil && gn != nil {
							fresh["genome"], _ = gn.MaxActivationDepthWithCap(0)
						}
					}
				}); p != "" {
					msg = "uncapped depth query on a fresh network panicked: " + p
				}
				fdone <- msg
			}()
			select {
			case msg := <-fdone:
				if msg != "" {
					rep.fail(map[string]interface{}{"case": json.RawMessage(append([]byte(nil), line...)), "what": msg, "signature": "depth " + string(line)})
					return nil
				}
			case <-time.After(5 * time.Second):
				rep.fail(map[string]interface{}{"case": json.RawMessage(append([]byte(nil), line...)),
					"what": "uncapped depth query on a fresh network did not terminate within 5s", "signature": "depth " + string(line)})
				if hangs++; hangs >= 3 {
					return errEnoughHangs
				}
				return nil
			}
		}
		for name, net := range nets {
			bad := ""
			done := make(chan struct{})
			go func() {
				defer close(done)
				for qi, q := range c.Queries {
					var r int
					var qerr error
					if strings.HasSuffix(name, "interleaved") {
						if p := guard(func() { otherOperations(net, qi) }); p != "" {
							bad += fmt.Sprintf("operations between the queries panicked: %s; ", p)
							return
						}
					}
					if p := guard(func() {
						if q.Cap == 0 && qi%2 == 1 {
							r, qerr = net.MaxActivationDepth() // the uncapped public entry point
						} else {
							r, qerr = net.MaxActivationDepthWithCap(q.Cap)
						}
					}); p != "" {
						bad += fmt.Sprintf("query %d (cap %d) panicked: %s; ", qi, q.Cap, p)
						return
					}
					rep.Evaluations++
					if c.Acyclic {
						// the statement fixes the value: longest path ending in an output, cap law on top of it
						if r != q.R || (qerr != nil) != q.Err {
							bad += fmt.Sprintf("query %d (cap %d) returned (%d, err=%v), specification says (%d, err=%v); ",
								qi, q.Cap, r, qerr != nil, q.R, q.Err)
						}
					} else {
						// networks with cycles: the statement asks for termination, a depth in 0..number of nodes, the cap law
						// relative to the UNCAPPED answer (taken from a fresh twin network) and stable answers; the depth the
						// specification's transcription of the search arrives at is information only
						fkey := name
						if strings.HasPrefix(name, "direct") {
							fkey = "direct"
						}
						wantR, wantErr := fresh[fkey], false
						if q.Cap > 0 && fresh[fkey] > q.Cap {
							wantR, wantErr = q.Cap, true
						}
						if r != wantR || (qerr != nil) != wantErr {
							bad += fmt.Sprintf("query %d (cap %d) returned (%d, err=%v) on a network whose uncapped depth (fresh instance) is %d: the cap law / repeat stability gives (%d, err=%v); ",
								qi, q.Cap, r, qerr != nil, fresh[fkey], wantR, wantErr)
						}
						if r < 0 || r > nNodes {
							bad += fmt.Sprintf("query %d (cap %d) returned depth %d outside 0..%d (number of nodes); ", qi, q.Cap, r, nNodes)
						}
						if r != q.R || (qerr != nil) != q.Err {
							differ++
						}
					}
					if qerr != nil && qerr != network.ErrMaximalNetDepthExceeded {
						bad += fmt.Sprintf("query %d returned unexpected error %v; ", qi, qerr)
					}
					if left := marksLeft(net); len(left) > 0 {
						bad += fmt.Sprintf("query %d (cap %d) left traversal marks on nodes %v; ", qi, q.Cap, left)
					}
				}
			}()
			select {
			case <-done:
			case <-time.After(5 * time.Second):
				bad += "depth query did not terminate within 5s; "
				hangs++
			}
			if bad != "" {
				rep.fail(map[string]interface{}{"case": json.RawMessage(append([]byte(nil), line...)),
					"what": name + " network: " + bad, "signature": "depth " + string(line)})
			}
		}
		if hitCap && !c.Acyclic {
			rep.sample(json.RawMessage(append([]byte(nil), line...)))
		}
		if hangs >= 3 {
			return errEnoughHangs
		}
		return nil
	})
	if err == errEnoughHangs {
		// every query that does not return leaves a goroutine spinning for good: three reported cases of non-termination are a
		// verdict ("always terminates"), the rest of the cases is not replayed
		err = nil
	}
	if err != nil {
		fmt.Println("vh replay-depth:", err)
		return 2
	}
	if rep.Extra == nil {
		rep.Extra = map[string]interface{}{}
	}
	rep.Extra["cyclic_answers_differing_from_the_transcribed_search"] = differ // information, not a verdict
	return rep.write(*out)
}

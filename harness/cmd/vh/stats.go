package main

import (
	"encoding/json"
	"flag"
	"fmt"
	neatmath "github.com/yaricom/goNEAT/v4/neat/math"
	"math"
	"sort"

	"github.com/yaricom/goNEAT/v4/experiment"
	"github.com/yaricom/goNEAT/v4/neat"
	"github.com/yaricom/goNEAT/v4/neat/genetics"
	"github.com/yaricom/goNEAT/v4/neat/network"
)

// C19 replay: series and experiments enumerated by MC_Stats are built as real experiment.Floats / Experiment values;
// every accessor is compared with the value the specification's definitions assign (exact rationals).

type seriesStats struct {
	Xs     []int `json:"xs"`
	N      int   `json:"n"`
	Sum    int   `json:"sum"`
	Min    int   `json:"min"`
	Max    int   `json:"max"`
	VarNum int   `json:"var_num"`
	VarDen int   `json:"var_den"`
	Q25    int   `json:"q25"`
	Med    int   `json:"med"`
	Q75    int   `json:"q75"`
}
type genRec struct {
	Solved bool `json:"solved"`
	Fit    int  `json:"fit"`
	Age    int  `json:"age"`
	Cplx   int  `json:"cplx"`
	Div    int  `json:"div"`
	Wn     int  `json:"wn"`
	Wg     int  `json:"wg"`
	We     int  `json:"we"`
}
type trialAgg struct {
	Gens      int   `json:"gens"`
	Solved    bool  `json:"solved"`
	BestFit   int   `json:"best_fit"`
	BestAge   []int `json:"best_age"`
	BestCplx  []int `json:"best_cplx"`
	DivSum    int   `json:"div_sum"`
	ChampFit  []int `json:"champ_fit"`
	ChampAge  []int `json:"champ_age"`
	ChampCplx []int `json:"champ_cplx"`
	Diversity []int `json:"diversity"`
	Winner    []int `json:"winner"`
}
type statsCase struct {
	Kind      string       `json:"kind"`
	St        *seriesStats `json:"st"`
	Undefined []string     `json:"undefined"`
	Sum       int          `json:"sum"`
	Trials    [][]genRec   `json:"trials"`
	Agg       *struct {
		Trials      int        `json:"trials"`
		SolvedCount int        `json:"solved_count"`
		Solved      bool       `json:"solved"`
		GensSum     int        `json:"gens_sum"`
		WinSum      []int      `json:"win_sum"`
		PerTrial    []trialAgg `json:"per_trial"`
	} `json:"agg"`
}

func init() { commands["replay-stats"] = replayStats }

type checker struct{ bad string }

func (c *checker) eq(name string, got, want float64) {
	if got != want && !(math.IsNaN(got) && math.IsNaN(want)) {
		c.bad += fmt.Sprintf("%s = %s, definition gives %s; ", name, fstr(got), fstr(want))
	}
}
func (c *checker) near(name string, got, want float64) {
	if math.IsNaN(want) {
		if !math.IsNaN(got) {
			c.bad += fmt.Sprintf("%s = %s, definition gives NaN (undefined); ", name, fstr(got))
		}
		return
	}
	if !closeRel(got, want, 1e-12) {
		c.bad += fmt.Sprintf("%s = %s, definition gives %s; ", name, fstr(got), fstr(want))
	}
}
func (c *checker) in(name string, got float64, allowed []int) {
	for _, a := range allowed {
		if got == float64(a) {
			return
		}
	}
	c.bad += fmt.Sprintf("%s = %s, definition allows %v; ", name, fstr(got), allowed)
}
func (c *checker) call(name string, fn func()) {
	if p := guard(fn); p != "" {
		c.bad += fmt.Sprintf("%s panicked: %s; ", name, p)
	}
}

// checkSeries compares all accessors on the series xs*scale + off (scale a power of two, off an integer: every value is
// exact; the definitions give min/max/sum/quantiles*scale + off (sum: + n*off) and a variance that does not depend on off).
func checkSeries(st *seriesStats, scale, off float64, c *checker) int {
	x := make(experiment.Floats, len(st.Xs))
	for i, v := range st.Xs {
		x[i] = float64(v)*scale + off
	}
	orig := append(experiment.Floats(nil), x...)
	n := float64(st.N)
	variance := math.NaN()
	if st.VarDen != 0 {
		variance = float64(st.VarNum) * scale * scale / float64(st.VarDen)
	}
	c.call("Min", func() { c.eq("Min", x.Min(), float64(st.Min)*scale+off) })
	c.call("Max", func() { c.eq("Max", x.Max(), float64(st.Max)*scale+off) })
	c.call("Sum", func() { c.eq("Sum", x.Sum(), float64(st.Sum)*scale+n*off) })
	c.call("Mean", func() { c.near("Mean", x.Mean(), float64(st.Sum)*scale/n+off) })
	c.call("Variance", func() { c.near("Variance", x.Variance(), variance) })
	c.call("StdDev", func() { c.near("StdDev", x.StdDev(), math.Sqrt(variance)) })
	c.call("MeanVariance", func() {
		mv := x.MeanVariance()
		if len(mv) != 2 {
			c.bad += "MeanVariance did not return two values; "
			return
		}
		c.near("MeanVariance[0]", mv[0], float64(st.Sum)*scale/n+off)
		c.near("MeanVariance[1]", mv[1], variance)
	})
	c.call("Median", func() { c.eq("Median", x.Median(), float64(st.Med)*scale+off) })
	c.call("Q25", func() { c.eq("Q25", x.Q25(), float64(st.Q25)*scale+off) })
	c.call("Q75", func() { c.eq("Q75", x.Q75(), float64(st.Q75)*scale+off) })
	for i := range x {
		if x[i] != orig[i] {
			c.bad += "the accessors reordered the caller's series; "
			break
		}
	}
	return 11
}

// complexityGenome builds a genome whose EXPRESSED network has the given complexity (nodes + links, control nodes and their
// links included): plain for odd or small values, with one enabled module (a control node with one input and one output link)
// for even values from 6 on - champions may be modular.
func complexityGenome(cplx int) *genetics.Genome {
	tr := neat.NewTrait()
	tr.Id = 1
	in := network.NewNNode(1, network.InputNeuron)
	out := network.NewNNode(2, network.OutputNeuron)
	modular := cplx >= 6 && cplx%2 == 0
	n := cplx - 2
	if modular {
		n = cplx - 5 // 2 nodes + control node + its two links
	}
	var genes []*genetics.Gene
	for i := 0; i < n; i++ {
		genes = append(genes, genetics.NewGene(0.5, in, out, false, int64(i+1), 0))
	}
	if !modular {
		return genetics.NewGenome(1, []*neat.Trait{tr}, []*network.NNode{in, out}, genes)
	}
	ctrl := network.NewNNode(3, network.HiddenNeuron)
	ctrl.ActivationType = neatmath.MultiplyModuleActivation
	ctrl.Incoming = append(ctrl.Incoming, network.NewLink(1.0, in, ctrl, false))
	ctrl.Outgoing = append(ctrl.Outgoing, network.NewLink(1.0, ctrl, out, false))
	mod := genetics.NewMIMOGene(ctrl, int64(n+1), 1.0, true)
	return genetics.NewModularGenome(1, []*neat.Trait{tr}, []*network.NNode{in, out}, genes, []*genetics.MIMOControlGene{mod})
}

func checkExperiment(sc *statsCase, c *checker) int {
	// The experiment GROWS the way Execute grows it - trial by trial, generation by generation, inside the Experiment value -
	// and while it grows every aggregate is asked (as an observer showing progress would): the answers given for the finished
	// experiment must be those of its recorded generations, whatever was asked before (Stats.tla: the aggregates are functions
	// of the record).  The intermediate answers themselves are not judged here (every prefix is a case of its own).
	e := experiment.Experiment{Id: 1, Trials: make(experiment.Trials, len(sc.Trials))}
	touch := func(i int) {
		_ = guard(func() {
			e.TrialsSolved()
			e.Solved()
			e.SuccessRate()
			e.AvgGenerationsPerTrial()
			e.AvgWinnerStatistics()
			e.BestFitness()
			e.BestSpeciesAge()
			e.BestComplexity()
			e.AvgDiversity()
			e.EpochsPerTrial()
			e.BestOrganism(false)
			e.BestOrganism(true)
			e.AvgTrialDuration()
			e.AvgEpochDuration()
			e.MostRecentTrialEvalTime()
		})
		_ = guard(func() {
			t := &e.Trials[i]
			t.Solved()
			t.ChampionsFitness()
			t.ChampionSpeciesAges()
			t.ChampionsComplexities()
			t.Diversity()
			t.Average()
			t.WinnerStatistics()
			t.BestOrganism(false)
			t.BestOrganism(true)
			t.AvgEpochDuration()
			t.RecentEpochEvalTime()
		})
	}
	for i, t := range sc.Trials {
		e.Trials[i] = experiment.Trial{Id: i}
		touch(i)
		for j, g := range t {
			org, _ := genetics.NewOrganism(float64(g.Fit), complexityGenome(g.Cplx), j)
			org.Species = genetics.NewSpecies(j + 1)
			org.Species.Age = g.Age
			e.Trials[i].Generations = append(e.Trials[i].Generations, experiment.Generation{Id: j, TrialId: i, Solved: g.Solved, Champion: org,
				Diversity: g.Div, WinnerNodes: g.Wn, WinnerGenes: g.Wg, WinnerEvals: g.We,
				Fitness: experiment.Floats{float64(g.Fit)}, Age: experiment.Floats{float64(g.Age)},
				Complexity: experiment.Floats{float64(g.Cplx)}})
			touch(i)
		}
	}
	a := sc.Agg
	nt := float64(a.Trials)
	phase := ""
	check := func() {
		c.call("experiment aggregates"+phase, func() {
			c.eq("TrialsSolved", float64(e.TrialsSolved()), float64(a.SolvedCount))
			if e.Solved() != a.Solved {
				c.bad += fmt.Sprintf("Solved = %v, definition gives %v; ", e.Solved(), a.Solved)
			}
			c.near("SuccessRate", e.SuccessRate(), float64(a.SolvedCount)/nt)
			c.near("AvgGenerationsPerTrial", e.AvgGenerationsPerTrial(), float64(a.GensSum)/nt)
			n1, n2, n3, n4 := e.AvgWinnerStatistics()
			for k, got := range []float64{n1, n2, n3, n4} {
				want := -1.0
				if a.SolvedCount > 0 {
					want = float64(a.WinSum[k]) / float64(a.SolvedCount)
				}
				c.near(fmt.Sprintf("AvgWinnerStatistics[%d]", k), got, want)
			}
			bf, ba, bc, ad, ep := e.BestFitness(), e.BestSpeciesAge(), e.BestComplexity(), e.AvgDiversity(), e.EpochsPerTrial()
			for i, ta := range a.PerTrial {
				c.eq(fmt.Sprintf("EpochsPerTrial[%d]", i), ep[i], float64(ta.Gens))
				c.eq(fmt.Sprintf("BestFitness[%d]", i), bf[i], float64(ta.BestFit))
				c.in(fmt.Sprintf("BestSpeciesAge[%d]", i), ba[i], ta.BestAge)
				c.in(fmt.Sprintf("BestComplexity[%d]", i), bc[i], ta.BestCplx)
				wantDiv := math.NaN()
				if ta.Gens > 0 {
					wantDiv = float64(ta.DivSum) / float64(ta.Gens)
				}
				c.near(fmt.Sprintf("AvgDiversity[%d]", i), ad[i], wantDiv)
			}
		})
		c.call("trial aggregates", func() {
			for i, ta := range a.PerTrial {
				t := &e.Trials[i]
				if t.Solved() != ta.Solved {
					c.bad += fmt.Sprintf("trial %d Solved = %v, definition gives %v; ", i, t.Solved(), ta.Solved)
				}
				cmp := func(name string, got experiment.Floats, want []int) {
					if len(got) != len(want) {
						c.bad += fmt.Sprintf("trial %d %s has %d entries, want %d; ", i, name, len(got), len(want))
						return
					}
					for j := range want {
						c.eq(fmt.Sprintf("trial %d %s[%d]", i, name, j), got[j], float64(want[j]))
					}
				}
				cmp("ChampionsFitness", t.ChampionsFitness(), ta.ChampFit)
				cmp("ChampionSpeciesAges", t.ChampionSpeciesAges(), ta.ChampAge)
				cmp("ChampionsComplexities", t.ChampionsComplexities(), ta.ChampCplx)
				cmp("Diversity", t.Diversity(), ta.Diversity)
				f, ag, cx := t.Average()
				cmp("Average.fitness", f, ta.ChampFit)
				cmp("Average.age", ag, ta.ChampAge)
				cmp("Average.complexity", cx, ta.ChampCplx)
				w1, w2, w3, w4 := t.WinnerStatistics()
				for k, got := range []int{w1, w2, w3, w4} {
					c.eq(fmt.Sprintf("trial %d WinnerStatistics[%d]", i, k), float64(got), float64(ta.Winner[k]))
				}
				if org, ok := t.BestOrganism(false); ok != (ta.Gens > 0) {
					c.bad += fmt.Sprintf("trial %d BestOrganism found=%v; ", i, ok)
				} else if ok {
					c.eq(fmt.Sprintf("trial %d BestOrganism.Fitness", i), org.Fitness, float64(ta.BestFit))
				}
			}
		})
	}
	check()
	// The aggregates are functions of the recorded generations, not of earlier calls: when every trial has at most one
	// solved generation (so that "the winner" does not depend on the order) each trial's generations are put in the
	// opposite order with the library's own sort order (Generations.Less: time, then id) and everything is asked again
	// (Stats.tla, ExperPermutationInvariant).
	single := true
	for _, t := range sc.Trials {
		n := 0
		for _, g := range t {
			if g.Solved {
				n++
			}
		}
		single = single && n <= 1
	}
	if single && c.bad == "" {
		rev := func(xs []int) {
			for i, j := 0, len(xs)-1; i < j; i, j = i+1, j-1 {
				xs[i], xs[j] = xs[j], xs[i]
			}
		}
		for i := range e.Trials {
			sort.Sort(sort.Reverse(e.Trials[i].Generations))
			ta := &a.PerTrial[i]
			rev(ta.ChampFit)
			rev(ta.ChampAge)
			rev(ta.ChampCplx)
			rev(ta.Diversity)
		}
		phase = " after sorting every trial's generations in descending order"
		before := c.bad
		check()
		if c.bad != before {
			c.bad = before + "[asked again" + phase + "] " + c.bad[len(before):]
		}
		return 2 * (12 + 10*len(a.PerTrial))
	}
	return 12 + 10*len(a.PerTrial)
}

func replayStats(args []string) int {
	fs := flag.NewFlagSet("replay-stats", flag.ExitOnError)
	cases := fs.String("cases", "", "NDJSON cases printed by MC_Stats")
	out := fs.String("out", "", "report file")
	_ = fs.Parse(args)
	rep := &report{Command: "replay-stats"}
	err := readNDJSON(*cases, func(line []byte) error {
		var sc statsCase
		if err := json.Unmarshal(line, &sc); err != nil {
			return err
		}
		rep.Cases++
		c := &checker{}
		raw := json.RawMessage(append([]byte(nil), line...))
		switch sc.Kind {
		case "empty":
			var x experiment.Floats
			got := map[string]func() float64{"Min": x.Min, "Max": x.Max, "Mean": x.Mean, "Median": x.Median, "Q25": x.Q25,
				"Q75": x.Q75, "Variance": x.Variance, "StdDev": x.StdDev,
				"MeanVariance": func() float64 { mv := x.MeanVariance(); return mv[0] + mv[1] }}
			for _, name := range sc.Undefined {
				name := name
				c.call(name, func() { c.near(name+" of the empty series", got[name](), math.NaN()) })
				rep.Evaluations++
			}
			c.call("Sum", func() { c.eq("Sum of the empty series", x.Sum(), float64(sc.Sum)) })
		case "series":
			for _, scale := range []float64{1, 0.25, 4096} {
				rep.Evaluations += checkSeries(sc.St, scale, 0, c)
				if scale == 1 {
					// the same series far from zero (values large relative to their spread)
					rep.Evaluations += checkSeries(sc.St, 1, 1<<30, c)
					rep.Evaluations += checkSeries(sc.St, 1, -(1 << 40), c)
				}
			}
			unsorted := false
			for i := 1; i < len(sc.St.Xs); i++ {
				unsorted = unsorted || sc.St.Xs[i] < sc.St.Xs[i-1]
			}
			if unsorted {
				rep.Nontrivial++
				rep.sample(raw)
			}
		case "exper":
			rep.Evaluations += checkExperiment(&sc, c)
			if sc.Agg.SolvedCount > 0 && sc.Agg.SolvedCount < sc.Agg.Trials {
				rep.Nontrivial++
				if rep.Cases%7 == 0 {
					rep.sample(raw)
				}
			}
		}
		if c.bad != "" {
			rep.fail(map[string]interface{}{"case": raw, "what": c.bad, "signature": "stats " + string(line)})
		}
		return nil
	})
	if err != nil {
		fmt.Println("vh replay-stats:", err)
		return 2
	}
	return rep.write(*out)
}

package main

import (
	"verifharness/vhu"

	"encoding/json"
	"flag"
	"fmt"
	"math"

	"github.com/yaricom/goNEAT/v4/neat"
	"github.com/yaricom/goNEAT/v4/neat/genetics"
	neatmath "github.com/yaricom/goNEAT/v4/neat/math"
	"github.com/yaricom/goNEAT/v4/neat/network"
)

// C07 replay: every TLC-generated pair of gene lists is built as two real genomes and measured with both
// compatibility methods in both argument orders under several coefficient vectors. The expected value is computed
// from the specification's counters <<E, D, S, M>> (Compat.tla, Def).

type compatGene struct {
	Inn int64 `json:"inn"`
	Mut int   `json:"mut"`
}
type compatCase struct {
	A []compatGene `json:"a"`
	B []compatGene `json:"b"`
	E int          `json:"E"`
	D int          `json:"D"`
	S int          `json:"S"`
	M int          `json:"M"`
}

func init() { commands["replay-compat"] = replayCompat }

func compatGenome(id int, gs []compatGene, scale float64) *genetics.Genome {
	in := network.NewNNode(1, network.InputNeuron)
	out := network.NewNNode(2, network.OutputNeuron)
	genes := make([]*genetics.Gene, len(gs))
	for i, g := range gs {
		genes[i] = genetics.NewGene(float64(g.Mut)*scale, in, out, false, g.Inn, float64(g.Mut)*scale)
	}
	tr := neat.NewTrait()
	tr.Id = 1
	return genetics.NewGenome(id, []*neat.Trait{tr}, []*network.NNode{in, out}, genes)
}

// compatGenomeOtherWiring builds the same gene list (innovation numbers, mutation numbers) on another network: other end
// points, recurrent and disabled genes, weights unrelated to the mutation numbers.  The distance is a function of innovation
// and mutation numbers only.
func compatGenomeOtherWiring(id int, gs []compatGene, scale float64) *genetics.Genome {
	in := network.NewNNode(1, network.InputNeuron)
	out := network.NewNNode(2, network.OutputNeuron)
	hid := network.NewNNode(3, network.HiddenNeuron)
	ends := [][2]*network.NNode{{in, hid}, {hid, out}, {hid, hid}, {in, out}}
	genes := make([]*genetics.Gene, len(gs))
	for i, g := range gs {
		e := ends[(i+int(g.Inn))%4]
		genes[i] = genetics.NewGene(100.5+float64(i), e[0], e[1], e[0] == e[1], g.Inn, float64(g.Mut)*scale)
		genes[i].IsEnabled = i%2 == 0
	}
	tr := neat.NewTrait()
	tr.Id = 1
	return genetics.NewGenome(id, []*neat.Trait{tr}, []*network.NNode{in, out, hid}, genes)
}

// compatGenomeModular is compatGenome with one MIMO control gene (a module over two extra hidden nodes) whose innovation
// number is ctlInn.  The distance counts connection genes by innovation number: a module held by an operand, whatever
// number it has (above every connection gene, among them, below them), is outside the formula.
func compatGenomeModular(id int, gs []compatGene, scale float64, ctlInn int64) *genetics.Genome {
	g := compatGenome(id, gs, scale)
	h1 := network.NewNNode(3, network.HiddenNeuron)
	h2 := network.NewNNode(4, network.HiddenNeuron)
	c := network.NewNNode(5, network.HiddenNeuron)
	c.ActivationType = neatmath.MultiplyModuleActivation
	c.Incoming = append(c.Incoming, network.NewLink(1.0, h1, c, false))
	c.Outgoing = append(c.Outgoing, network.NewLink(1.0, c, h2, false))
	nodes := append(append([]*network.NNode{}, g.Nodes...), h1, h2)
	return genetics.NewModularGenome(id, g.Traits, nodes, g.Genes, []*genetics.MIMOControlGene{genetics.NewMIMOGene(c, ctlInn, 7.5, true)})
}

func replayCompat(args []string) int {
	fs := flag.NewFlagSet("replay-compat", flag.ExitOnError)
	cases := fs.String("cases", "", "NDJSON cases written by TLC")
	out := fs.String("out", "", "report file")
	_ = fs.Parse(args)

	// coefficient vectors <<cE, cD, cW>>: dyadic so that every product is exact, incl. zero coefficients
	coeffs := [][3]float64{{1, 1, 0.5}, {2, 0.5, 1}, {1, 2, 0}, {0, 1, 3}, {0.25, 0, 1}, {0, 0, 0}}
	scales := []float64{1, 0.125, 1024}
	rep := &report{Command: "replay-compat"}
	seen := map[string]bool{}
	err := readNDJSON(*cases, func(line []byte) error {
		var c compatCase
		if err := json.Unmarshal(line, &c); err != nil {
			return err
		}
		rep.Cases++
		nontrivial := c.E > 0 && c.D > 0 && c.M > 0
		if nontrivial && !seen[string(line)] {
			seen[string(line)] = true
			rep.Nontrivial++
		}
		for _, scale := range scales {
			ga, gb := compatGenome(1, c.A, scale), compatGenome(2, c.B, scale)
			dupA, derr := ga.VerifDuplicate(3)
			for _, cf := range coeffs {
				opts := &neat.Options{ExcessCoeff: cf[0], DisjointCoeff: cf[1], MutdiffCoeff: cf[2]}
				w := 0.0
				if c.M > 0 {
					w = float64(c.S) * scale / float64(c.M)
				}
				want := cf[0]*float64(c.E) + cf[1]*float64(c.D) + cf[2]*w
				got := map[string]float64{}
				p := guard(func() {
					got["linear(a,b)"] = ga.VerifCompatLinear(gb, opts)
					got["linear(b,a)"] = gb.VerifCompatLinear(ga, opts)
					got["fast(a,b)"] = ga.VerifCompatFast(gb, opts)
					got["fast(b,a)"] = gb.VerifCompatFast(ga, opts)
					opts.GenCompatMethod = neat.GenomeCompatibilityMethodLinear
					got["select-linear(a,b)"] = ga.VerifCompatibility(gb, opts)
					opts.GenCompatMethod = neat.GenomeCompatibilityMethodFast
					got["select-fast(a,b)"] = ga.VerifCompatibility(gb, opts)
					// genome ids are not identities (offspring are numbered per species): the distance must not depend on them
					gb.Id = ga.Id
					got["select-fast(a,b) with equal genome ids"] = ga.VerifCompatibility(gb, opts)
					opts.GenCompatMethod = neat.GenomeCompatibilityMethodLinear
					got["select-linear(b,a) with equal genome ids"] = gb.VerifCompatibility(ga, opts)
					gb.Id = 2
					// ... and of the genes only their innovation and mutation numbers count: the same lists on another wiring
					gw := compatGenomeOtherWiring(2, c.B, scale)
					got["linear(a, b on another wiring: other end points, disabled / recurrent genes, other weights)"] = ga.VerifCompatLinear(gw, opts)
					got["fast(b on another wiring, a)"] = gw.VerifCompatFast(ga, opts)
					// both operands on the other wiring: matching genes meet every combination of enabled / disabled,
					// forward / recurrent on the two sides (the patterns are shifted against each other)
					gv := compatGenomeOtherWiring(1, c.A, scale)
					for i, x := range gv.Genes {
						x.IsEnabled = i%3 != 0
					}
					got["linear(a and b on other wirings)"] = gv.VerifCompatLinear(gw, opts)
					got["fast(b and a on other wirings)"] = gw.VerifCompatFast(gv, opts)
					// modular operands: control genes (MIMO modules) are not connection genes; their innovation numbers lie above
					// every connection gene of both operands, just above the operand's own last gene, or below everything
					var top, lastA, lastB int64
					for _, x := range c.A {
						lastA = x.Inn
					}
					for _, x := range c.B {
						lastB = x.Inn
					}
					top = lastA
					if lastB > top {
						top = lastB
					}
					for _, m := range []struct {
						tag    string
						ia, ib int64
					}{{"above all genes", top + 3, top + 2}, {"just above the own last gene", lastA + 1, lastB + 1}, {"below all genes", 0, 0}} {
						ma, mb := compatGenomeModular(1, c.A, scale, m.ia), compatGenomeModular(2, c.B, scale, m.ib)
						got["linear(modular a, b), module number "+m.tag] = ma.VerifCompatLinear(gb, opts)
						got["linear(b, modular a), module number "+m.tag] = gb.VerifCompatLinear(ma, opts)
						got["fast(modular a, b), module number "+m.tag] = ma.VerifCompatFast(gb, opts)
						got["fast(a, modular b), module number "+m.tag] = ga.VerifCompatFast(mb, opts)
						got["linear(modular a, modular b), module number "+m.tag] = ma.VerifCompatLinear(mb, opts)
						got["fast(modular b, modular a), module number "+m.tag] = mb.VerifCompatFast(ma, opts)
					}
					// the distance is a function of the genes and the three coefficients only: every other option
					// (speciation threshold, population size, mutation rates ...) is outside the formula
					for _, thr := range []float64{0.25, 1, 3, 1e9} {
						full := vhu.BaseOptions(150)
						full.ExcessCoeff, full.DisjointCoeff, full.MutdiffCoeff, full.CompatThreshold = cf[0], cf[1], cf[2], thr
						tag := fmt.Sprintf(" in complete options with CompatThreshold %g", thr)
						full.GenCompatMethod = neat.GenomeCompatibilityMethodLinear
						got["select-linear(a,b)"+tag] = ga.VerifCompatibility(gb, full)
						got["linear(b,a)"+tag] = gb.VerifCompatLinear(ga, full)
						full.GenCompatMethod = neat.GenomeCompatibilityMethodFast
						got["select-fast(b,a)"+tag] = gb.VerifCompatibility(ga, full)
						got["fast(a,b)"+tag] = ga.VerifCompatFast(gb, full)
					}
				})
				rep.Evaluations += 46
				bad := ""
				if p != "" {
					bad = "panic: " + p
				}
				for k, v := range got {
					if math.IsNaN(v) {
						bad += fmt.Sprintf("%s is NaN; ", k)
					} else if v < 0 {
						bad += fmt.Sprintf("%s = %s is negative; ", k, fstr(v))
					} else if !closeRel(v, want, 1e-12) {
						bad += fmt.Sprintf("%s = %s, formula gives %s; ", k, fstr(v), fstr(want))
					}
				}
				// zero on self and on duplicate (only the empty genome has M = 0)
				if derr == nil {
					p2 := guard(func() {
						for name, v := range map[string]float64{
							"linear(a,a)": ga.VerifCompatLinear(ga, opts), "fast(a,a)": ga.VerifCompatFast(ga, opts),
							"linear(a,dup a)": ga.VerifCompatLinear(dupA, opts), "fast(a,dup a)": ga.VerifCompatFast(dupA, opts)} {
							if len(c.A) > 0 && v != 0 {
								bad += fmt.Sprintf("%s = %s, want 0; ", name, fstr(v))
							}
						}
					})
					rep.Evaluations += 4
					if p2 != "" {
						bad += "panic: " + p2
					}
				} else {
					bad += "duplicate failed: " + derr.Error()
				}
				if bad != "" {
					rep.fail(map[string]interface{}{"case": json.RawMessage(append([]byte(nil), line...)),
						"coeff": cf, "scale": scale, "what": bad,
						"signature": fmt.Sprintf("compat a=%v b=%v", c.A, c.B)})
				}
			}
		}
		if nontrivial {
			rep.sample(json.RawMessage(append([]byte(nil), line...)))
		}
		return nil
	})
	if err != nil {
		fmt.Println("vh replay-compat:", err)
		return 2
	}
	return rep.write(*out)
}

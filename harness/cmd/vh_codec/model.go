package main

import (
	"fmt"
	"hash/fnv"
	"math"
	"math/rand"
	"strconv"
	"strings"

	"github.com/yaricom/goNEAT/v4/neat"
	"github.com/yaricom/goNEAT/v4/neat/genetics"
	neatmath "github.com/yaricom/goNEAT/v4/neat/math"
	"github.com/yaricom/goNEAT/v4/neat/network"
)

/* ---------------------------------------------------------------- abstract records (Codec.tla) */

type aTrait struct {
	Id int   `json:"id"`
	P  []int `json:"p"`
}
type aNode struct {
	Id   int    `json:"id"`
	Role string `json:"role"`
	Act  int    `json:"act"`
	Tr   int    `json:"tr"`
}
type aGene struct {
	Inn int  `json:"inn"`
	Src int  `json:"src"`
	Dst int  `json:"dst"`
	Rec bool `json:"rec"`
	En  bool `json:"en"`
	W   int  `json:"w"`
	Mut int  `json:"mut"`
	Tr  int  `json:"tr"`
}
type aMod struct {
	Id   int   `json:"id"`
	Inn  int   `json:"inn"`
	Mut  int   `json:"mut"`
	En   bool  `json:"en"`
	Act  int   `json:"act"`
	Ins  []int `json:"ins"`
	Outs []int `json:"outs"`
	Tr   int   `json:"tr"`
}
type aGenome struct {
	Id     int      `json:"id"`
	Traits []aTrait `json:"traits"`
	Nodes  []aNode  `json:"nodes"`
	Genes  []aGene  `json:"genes"`
	Mods   []aMod   `json:"mods"`
}

// interesting: the genome has a disabled gene, a recurrent gene or a nil trait pointer next to existing traits
func (g *aGenome) interesting() bool {
	for _, e := range g.Genes {
		if !e.En || e.Rec || (e.Tr == 0 && len(g.Traits) > 0) {
			return true
		}
	}
	for _, n := range g.Nodes {
		if n.Tr == 0 && len(g.Traits) > 0 {
			return true
		}
	}
	return len(g.Mods) > 0
}

/* ---------------------------------------------------------------- float symbols (FTable of Codec.tla) */

type fsym struct {
	K string `json:"k"`
	N int    `json:"n"`
}

// ftable must agree with FTable in Codec.tla; every TLC run prints its table (case kind "meta") and the replayer
// refuses to run against a different one.
var ftable = []fsym{{"flt", 0}, {"flt", 0}, {"flt", 0}, {"flt", 0}, {"int", 0}, {"int", 1}, {"int", -3}, {"int", 250000},
	{"nz", 0}, {"flt", 0}, {"flt", 0}, {"flt", 0}}

// isFloatText: the shortest decimal text of x is not a plain integer literal (YAML resolves it as a float)
func isFloatText(x float64) bool {
	return strings.ContainsAny(strconv.FormatFloat(x, 'g', -1, 64), ".e")
}

// advPool is the seed-derived pool of adversarial finite float64 values of lexical class "flt", all distinct.
func advPool(seed int64) []float64 {
	sub := math.SmallestNonzeroFloat64
	fixed := []float64{0.1 + 0.2, 1e300, -1e300, 1e-300, -1e-300, math.MaxFloat64, -math.MaxFloat64, sub, -sub, 3 * sub,
		2.2250738585072014e-308, 2.225073858507201e-308, 1.0 / 3.0, -2.0 / 3.0, math.Pi, 1e6, 1e21, 1e22, 1e23, 8.41e21,
		123456789, 9007199254740993, 9007199254740992, -4503599627370497.5, 0.1, 1e-5, 0.0001, 0.00001234, 1e15 + 0.3,
		1.0000000000000002, 0.9999999999999999, 999999.9999999999, 1000000.0000000001, 123456.7, 2.5, -0.5,
		math.Ldexp(1, 63), math.Ldexp(1, 64), -math.Ldexp(1, 63), math.Ldexp(1, -1074+20), 5.0e-324 * 4096,
		4.35, 0.3, 2.675, 1.005, 5e-5, 1.7976931348623155e308, 2.2250738585072009e-308, 6.02214076e23, -1.602176634e-19,
		100000.5, -999999.5, 1e7, 12345678, float64(float32(0.1)), float64(float32(16777217)) + 0.25}
	r := rand.New(rand.NewSource(seed*7919 + 17))
	var pool []float64
	seen := map[uint64]bool{}
	add := func(x float64) {
		if math.IsNaN(x) || math.IsInf(x, 0) || !isFloatText(x) || seen[math.Float64bits(x)] {
			return
		}
		seen[math.Float64bits(x)] = true
		pool = append(pool, x)
	}
	for _, x := range fixed {
		add(x)
	}
	// random bit patterns: every exponent class is hit (biased exponent 0 = subnormal .. 2046 = top binade)
	for e := uint64(0); e <= 2046; e += 1 + uint64(r.Intn(24)) {
		bits := e<<52 | (r.Uint64() & (1<<52 - 1))
		if r.Intn(2) == 0 {
			bits |= 1 << 63
		}
		add(math.Float64frombits(bits))
	}
	for i := 0; i < 200; i++ {
		add(math.Float64frombits(uint64(r.Intn(2047))<<52 | (r.Uint64() & (1<<52 - 1)) | uint64(r.Intn(2))<<63))
		add(float64(r.Int63n(1<<40)) / float64(int64(1)<<uint(r.Intn(30)))) // dyadic rationals
		add(r.NormFloat64() * 2.5)                                          // what weight mutation produces
		add(math.Round(r.Float64()*1e17) / 1e17)                            // 17 significant digits
	}
	r.Shuffle(len(pool), func(i, j int) { pool[i], pool[j] = pool[j], pool[i] })
	return pool
}

type table []float64 // index = symbol (1-based, entry 0 unused)

func hashOf(parts ...string) uint64 {
	h := fnv.New64a()
	for _, p := range parts {
		_, _ = h.Write([]byte(p))
		_, _ = h.Write([]byte{0})
	}
	return h.Sum64()
}

// makeTable maps the symbols of FTable to float64 values: "int" symbols to the integer the specification names, the
// negative zero symbol to -0.0, "flt" symbols to consecutive entries of the adversarial pool starting at a position
// derived from (seed, case text, table number).
func makeTable(pool []float64, seed int64, caseText string, t int) table {
	tb := make(table, len(ftable)+1)
	start := int(hashOf(strconv.FormatInt(seed, 10), caseText, strconv.Itoa(t)) % uint64(len(pool)))
	j := 0
	for i, fs := range ftable {
		switch fs.K {
		case "int":
			tb[i+1] = float64(fs.N)
		case "nz":
			tb[i+1] = math.Copysign(0, -1)
		default:
			tb[i+1] = pool[(start+j)%len(pool)]
			j++
		}
	}
	return tb
}

func (tb table) val(sym int) float64 {
	if sym < 1 || sym >= len(tb) {
		panic(fmt.Sprintf("float symbol %d outside FTable", sym))
	}
	return tb[sym]
}

func hexf(x float64) string { return fmt.Sprintf("%016x", math.Float64bits(x)) }

func sameBits(a, b float64) bool {
	return math.Float64bits(a) == math.Float64bits(b)
}

/* ---------------------------------------------------------------- abstract -> real */

var roleType = map[string]network.NodeNeuronType{"H": network.HiddenNeuron, "I": network.InputNeuron,
	"O": network.OutputNeuron, "B": network.BiasNeuron}

func roleOf(t network.NodeNeuronType) string {
	switch t {
	case network.HiddenNeuron:
		return "H"
	case network.InputNeuron:
		return "I"
	case network.OutputNeuron:
		return "O"
	case network.BiasNeuron:
		return "B"
	}
	return fmt.Sprintf("?%d", t)
}

// User-registered activation types (Codec.tla: ActNames 24 and 25).  "Every registered activation type" includes what a
// user registers through the public NodeActivators.Register / RegisterModule: the replayer registers one scalar and one
// module function under the first two type codes >= 40 that are free, with the names the specification uses; the files
// carry names only, so the codes do not matter.
const (
	specUserScalar = 24
	specUserModule = 25
)

var userScalarType, userModuleType neatmath.NodeActivationType

func init() {
	free := func(from neatmath.NodeActivationType) neatmath.NodeActivationType {
		for t := from; t < 250; t++ {
			if _, err := neatmath.NodeActivators.ActivationNameFromType(t); err != nil {
				return t
			}
		}
		panic("no free activation type code")
	}
	userScalarType = free(40)
	neatmath.NodeActivators.Register(userScalarType, func(x float64, _ []float64) float64 { return x / (1 + x*x) }, "VerifUserScalarActivation")
	userModuleType = free(userScalarType + 1)
	neatmath.NodeActivators.RegisterModule(userModuleType, func(in []float64, _ []float64) []float64 {
		s := 0.0
		for _, v := range in {
			s += v
		}
		return []float64{s}
	}, "VerifUserModuleActivation")
}

// realAct maps the specification's activation number to the real type code, specAct back.
func realAct(a int) neatmath.NodeActivationType {
	switch a {
	case specUserScalar:
		return userScalarType
	case specUserModule:
		return userModuleType
	}
	return neatmath.NodeActivationType(a)
}

func specAct(t neatmath.NodeActivationType) int {
	switch t {
	case userScalarType:
		return specUserScalar
	case userModuleType:
		return specUserModule
	}
	return int(t)
}

// build constructs the real genome the abstract record describes, floats taken from the table.
func build(a *aGenome, tb table) *genetics.Genome {
	traits := make([]*neat.Trait, len(a.Traits))
	byId := map[int]*neat.Trait{}
	for i, t := range a.Traits {
		tr := neat.NewTrait()
		tr.Id = t.Id
		if len(t.P) != len(tr.Params) {
			panic("trait parameter count")
		}
		for j, s := range t.P {
			tr.Params[j] = tb.val(s)
		}
		traits[i] = tr
		byId[t.Id] = tr
	}
	nodes := make([]*network.NNode, len(a.Nodes))
	nById := map[int]*network.NNode{}
	for i, n := range a.Nodes {
		nd := network.NewNNode(n.Id, roleType[n.Role])
		nd.ActivationType = realAct(n.Act)
		nd.Trait = byId[n.Tr] // nil for 0
		nodes[i] = nd
		nById[n.Id] = nd
	}
	genes := make([]*genetics.Gene, len(a.Genes))
	for i, e := range a.Genes {
		var link *network.Link
		if tr := byId[e.Tr]; tr != nil {
			link = network.NewLinkWithTrait(tr, tb.val(e.W), nById[e.Src], nById[e.Dst], e.Rec)
		} else {
			link = network.NewLink(tb.val(e.W), nById[e.Src], nById[e.Dst], e.Rec)
		}
		genes[i] = genetics.NewConnectionGene(link, int64(e.Inn), tb.val(e.Mut), e.En)
	}
	if len(a.Mods) == 0 {
		return genetics.NewGenome(a.Id, traits, nodes, genes)
	}
	mods := make([]*genetics.MIMOControlGene, len(a.Mods))
	for i, m := range a.Mods {
		cn := network.NewNNode(m.Id, network.HiddenNeuron)
		cn.ActivationType = realAct(m.Act)
		cn.Trait = byId[m.Tr]
		for _, id := range m.Ins {
			cn.Incoming = append(cn.Incoming, network.NewLink(1.0, nById[id], cn, false))
		}
		for _, id := range m.Outs {
			cn.Outgoing = append(cn.Outgoing, network.NewLink(1.0, cn, nById[id], false))
		}
		mods[i] = genetics.NewMIMOGene(cn, int64(m.Inn), tb.val(m.Mut), m.En)
	}
	return genetics.NewModularGenome(a.Id, traits, nodes, genes, mods)
}

/* ---------------------------------------------------------------- real -> projection (P6: floats as hex bit strings) */

type pTrait struct {
	Id int
	P  []string
}
type pNode struct {
	Id   int
	Role string
	Act  int
	Tr   int // -1: nil trait pointer
}
type pGene struct {
	Inn      int64
	Src, Dst int // -1: nil node pointer
	Rec, En  bool
	W, Mut   string
	Tr       int
}
type pMod struct {
	Id        int
	Inn       int64
	Mut       string
	En        bool
	Act       int
	Tr        int
	Ins, Outs []int
}
type pGenome struct {
	Id     int
	Traits []pTrait
	Nodes  []pNode
	Genes  []pGene
	Mods   []pMod
}

func trId(t *neat.Trait) int {
	if t == nil {
		return -1
	}
	return t.Id
}
func ndId(n *network.NNode) int {
	if n == nil {
		return -1
	}
	return n.Id
}

// project is the one projection of a real genome onto its genetic content; used for originals and for read-back genomes.
func project(g *genetics.Genome, withMods bool) pGenome {
	p := pGenome{Id: g.Id, Traits: []pTrait{}, Nodes: []pNode{}, Genes: []pGene{}, Mods: []pMod{}}
	for _, t := range g.Traits {
		pt := pTrait{Id: t.Id, P: []string{}}
		for _, x := range t.Params {
			pt.P = append(pt.P, hexf(x))
		}
		p.Traits = append(p.Traits, pt)
	}
	for _, n := range g.Nodes {
		p.Nodes = append(p.Nodes, pNode{Id: n.Id, Role: roleOf(n.NeuronType), Act: specAct(n.ActivationType), Tr: trId(n.Trait)})
	}
	for _, e := range g.Genes {
		pg := pGene{Inn: e.InnovationNum, Src: -1, Dst: -1, En: e.IsEnabled, Mut: hexf(e.MutationNum), Tr: -1}
		if e.Link != nil {
			pg.Src, pg.Dst, pg.Rec, pg.W, pg.Tr = ndId(e.Link.InNode), ndId(e.Link.OutNode), e.Link.IsRecurrent,
				hexf(e.Link.ConnectionWeight), trId(e.Link.Trait)
		}
		p.Genes = append(p.Genes, pg)
	}
	if withMods {
		for _, m := range g.ControlGenes {
			pm := pMod{Inn: m.InnovationNum, Mut: hexf(m.MutationNum), En: m.IsEnabled, Id: -1, Tr: -1, Ins: []int{}, Outs: []int{}}
			if cn := m.ControlNode; cn != nil {
				pm.Id, pm.Act, pm.Tr = cn.Id, specAct(cn.ActivationType), trId(cn.Trait)
				for _, l := range cn.Incoming {
					pm.Ins = append(pm.Ins, ndId(l.InNode))
				}
				for _, l := range cn.Outgoing {
					pm.Outs = append(pm.Outs, ndId(l.OutNode))
				}
			}
			p.Mods = append(p.Mods, pm)
		}
	}
	return p
}

func unhex(h string) string {
	b, err := strconv.ParseUint(h, 16, 64)
	if err != nil {
		return h
	}
	return strconv.FormatFloat(math.Float64frombits(b), 'g', -1, 64) + "[" + h + "]"
}

// diffGenomes lists the differences between the projection of the original (want) and of the read-back genome (got).
func diffGenomes(want, got pGenome, cmpId bool) []string {
	var d []string
	add := func(f string, a ...interface{}) {
		if len(d) < 6 {
			d = append(d, fmt.Sprintf(f, a...))
		}
	}
	if cmpId && want.Id != got.Id {
		add("genome id %d, original %d", got.Id, want.Id)
	}
	if len(want.Traits) != len(got.Traits) {
		add("%d traits, original has %d", len(got.Traits), len(want.Traits))
	}
	for i := 0; i < len(want.Traits) && i < len(got.Traits); i++ {
		w, g := want.Traits[i], got.Traits[i]
		if w.Id != g.Id {
			add("trait[%d] id %d, original %d", i, g.Id, w.Id)
		}
		if len(w.P) != len(g.P) {
			add("trait %d has %d parameters, original %d", w.Id, len(g.P), len(w.P))
		}
		for j := 0; j < len(w.P) && j < len(g.P); j++ {
			if w.P[j] != g.P[j] {
				add("trait %d parameter %d = %s, original %s", w.Id, j, unhex(g.P[j]), unhex(w.P[j]))
			}
		}
	}
	if len(want.Nodes) != len(got.Nodes) {
		add("%d nodes, original has %d", len(got.Nodes), len(want.Nodes))
	}
	for i := 0; i < len(want.Nodes) && i < len(got.Nodes); i++ {
		if want.Nodes[i] != got.Nodes[i] {
			add("node[%d] = %+v, original %+v", i, got.Nodes[i], want.Nodes[i])
		}
	}
	if len(want.Genes) != len(got.Genes) {
		add("%d genes, original has %d", len(got.Genes), len(want.Genes))
	}
	for i := 0; i < len(want.Genes) && i < len(got.Genes); i++ {
		if w, g := want.Genes[i], got.Genes[i]; w != g {
			if w.W != g.W {
				add("gene %d weight %s, original %s", w.Inn, unhex(g.W), unhex(w.W))
			} else if w.Mut != g.Mut {
				add("gene %d mutation number %s, original %s", w.Inn, unhex(g.Mut), unhex(w.Mut))
			} else {
				add("gene[%d] = %+v, original %+v", i, g, w)
			}
		}
	}
	if len(want.Mods) != len(got.Mods) {
		add("%d control genes, original has %d", len(got.Mods), len(want.Mods))
	}
	for i := 0; i < len(want.Mods) && i < len(got.Mods); i++ {
		if fmt.Sprintf("%+v", want.Mods[i]) != fmt.Sprintf("%+v", got.Mods[i]) {
			add("control gene[%d] = %+v, original %+v", i, got.Mods[i], want.Mods[i])
		}
	}
	return d
}

// firstLineLost recognises the damage pattern "the first line after genomestart was not read": exactly the first trait
// is missing (the pointers to it are nil) or, in a genome without traits, exactly the first node.
func firstLineLost(want, got pGenome) bool {
	if len(want.Traits) == 0 {
		if len(want.Nodes) == 0 || len(got.Nodes) != len(want.Nodes)-1 {
			return false
		}
		for i := range got.Nodes {
			if got.Nodes[i] != want.Nodes[i+1] {
				return false
			}
		}
		return true
	}
	if len(got.Traits) != len(want.Traits)-1 {
		return false
	}
	for i := range got.Traits {
		if fmt.Sprint(got.Traits[i]) != fmt.Sprint(want.Traits[i+1]) {
			return false
		}
	}
	return true
}

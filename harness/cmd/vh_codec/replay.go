package main

import (
	"bytes"
	"encoding/gob"
	"encoding/json"
	"flag"
	"fmt"
	"io"
	"math"
	"sort"
	"strconv"
	"strings"
	"sync"
	"time"

	"gopkg.in/yaml.v3"

	"verifharness/vhu"

	"github.com/yaricom/goNEAT/v4/experiment"
	"github.com/yaricom/goNEAT/v4/neat"
	"github.com/yaricom/goNEAT/v4/neat/genetics"
	neatmath "github.com/yaricom/goNEAT/v4/neat/math"
	"github.com/yaricom/goNEAT/v4/neat/network"
)

// C15 replay.  Every case printed by MC_Codec is rebuilt as real objects (float symbols -> adversarial float64 values
// of a seed-derived table), written with the real writer and
//   (i)  the real output is compared token by token / key by key with the token stream or document the specification's
//        writer model assigns to the structure (a difference here with a correct round trip is a DIVERGENCE of the
//        model from the code - reported, never a violation),
//   (ii) read back with the real reader and compared with the original bit for bit (a difference is a VIOLATION).

type aOrg struct {
	Fit int     `json:"fit"`
	Gen int     `json:"gen"`
	Hf  int     `json:"hf"`
	Pcc bool    `json:"pcc"`
	G   aGenome `json:"g"`
}
type aChamp struct {
	None bool    `json:"none"`
	Fit  int     `json:"fit"`
	Win  bool    `json:"win"`
	Gen  int     `json:"gen"`
	Eo   int     `json:"eo"`
	Err  int     `json:"err"`
	G    aGenome `json:"g"`
}
type aGen struct {
	Id     int    `json:"id"`
	Exec   int    `json:"exec"`
	Solved bool   `json:"solved"`
	Fit    []int  `json:"fit"`
	Age    []int  `json:"age"`
	Cplx   []int  `json:"cplx"`
	Div    int    `json:"div"`
	We     int    `json:"we"`
	Wn     int    `json:"wn"`
	Wg     int    `json:"wg"`
	Dur    int    `json:"dur"`
	Tid    int    `json:"tid"`
	Champ  aChamp `json:"champ"`
}
type aTrial struct {
	Id   int    `json:"id"`
	Gens []aGen `json:"gens"`
}
type aExp struct {
	Id     int      `json:"id"`
	Name   string   `json:"name"`
	Trials []aTrial `json:"trials"`
}
type streamTok struct {
	K string          `json:"k"`
	V json.RawMessage `json:"v"`
}
type codecCase struct {
	Kind      string                 `json:"kind"`
	G         *aGenome               `json:"g"`
	Plain     []string               `json:"plain"`
	Yaml      map[string]interface{} `json:"yaml"`
	YamlExact bool                   `json:"yaml_exact"`
	Fast      map[string]interface{} `json:"fast"`
	O         *aOrg                  `json:"o"`
	Lines     []string               `json:"lines"`
	Gs        []aGenome              `json:"gs"`
	Sps       [][]aSpOrg             `json:"sps"`
	Order     []int                  `json:"order"`
	E         *aExp                  `json:"e"`
	Other     *aExp                  `json:"other"`
	Stream    []streamTok            `json:"stream"`
	Ftable    []fsym                 `json:"ftable"`
	Acts      []string               `json:"acts"`
}

type aSpOrg struct {
	G   aGenome `json:"g"`
	Fit int     `json:"fit"`
	Win bool    `json:"win"`
}

type failure struct{ what, sig string }
type result struct {
	fails []failure
	divs  []string
	evals int
}

func (r *result) fail(sig, f string, a ...interface{}) {
	r.fails = append(r.fails, failure{fmt.Sprintf(f, a...), sig})
}
func (r *result) div(f string, a ...interface{}) {
	if len(r.divs) < 4 {
		r.divs = append(r.divs, fmt.Sprintf(f, a...))
	}
}

func init() { commands["replay-codec"] = replayCodec }

func replayCodec(args []string) int {
	fs := flag.NewFlagSet("replay-codec", flag.ExitOnError)
	cases := fs.String("cases", "", "NDJSON cases printed by MC_Codec")
	out := fs.String("out", "", "report file")
	tables := fs.Int("tables", 2, "float tables per case")
	workers := fs.Int("workers", 4, "parallel replay workers")
	_ = fs.Parse(args)
	seed := vhu.EnvSeed()
	pool := advPool(seed)
	rep := &vhu.Report{Command: "replay-codec", Extra: map[string]interface{}{}}
	kinds := map[string]int{}
	var divergences []string
	ndiv := 0
	metaSeen := false
	// cases are independent: a small pool of workers replays them, the report is folded under a mutex
	type job struct{ line []byte }
	jobs := make(chan job, 256)
	var mu sync.Mutex
	var wg sync.WaitGroup
	var firstErr error
	work := func() {
		defer wg.Done()
		for j := range jobs {
			line := j.line
			var c codecCase
			if err := json.Unmarshal(line, &c); err != nil {
				mu.Lock()
				if firstErr == nil {
					firstErr = fmt.Errorf("bad case: %v", err)
				}
				mu.Unlock()
				continue
			}
			if c.Kind == "meta" {
				err := checkMeta(&c)
				mu.Lock()
				metaSeen = true
				if err != nil && firstErr == nil {
					firstErr = err
				}
				mu.Unlock()
				continue
			}
			raw := json.RawMessage(line)
			// the float tables of a case depend on its canonical text only (so that a replay file reproduces them)
			canon := string(line)
			var generic interface{}
			if json.Unmarshal(line, &generic) == nil {
				if b, err := json.Marshal(generic); err == nil {
					canon = string(b)
				}
			}
			interesting := false
			var fails []map[string]interface{}
			var divs []string
			evals := 0
			for t := 0; t < *tables; t++ {
				tb := makeTable(pool, seed, canon, t)
				res := &result{}
				if p := vhu.Guard(func() { interesting = runCase(&c, tb, res) }); p != "" {
					res.fail("codec/"+c.Kind+"/panic", "%s case panicked: %s", c.Kind, p)
				}
				evals += res.evals
				for _, f := range res.fails {
					fails = append(fails, map[string]interface{}{"case": raw, "what": f.what, "signature": f.sig, "table": t})
				}
				divs = append(divs, res.divs...)
				if len(res.fails) > 0 {
					break
				}
			}
			mu.Lock()
			rep.Cases++
			kinds[c.Kind]++
			rep.Evaluations += evals
			for _, f := range fails {
				rep.Fail(f)
			}
			for _, d := range divs {
				ndiv++
				if len(divergences) < 20 {
					divergences = append(divergences, d)
				}
			}
			if interesting {
				rep.Nontrivial++
				if c.Kind == "genome" {
					rep.Sample(raw)
				}
			}
			mu.Unlock()
		}
	}
	for w := 0; w < *workers; w++ {
		wg.Add(1)
		go work()
	}
	err := vhu.ReadNDJSON(*cases, func(line []byte) error {
		jobs <- job{append([]byte(nil), line...)}
		return nil
	})
	close(jobs)
	wg.Wait()
	if err == nil {
		err = firstErr
	}
	if err != nil {
		fmt.Println("vh_codec replay-codec:", err)
		return 2
	}
	rep.Extra["kinds"] = kinds
	rep.Extra["divergences"] = ndiv
	rep.Extra["divergence_samples"] = divergences
	rep.Extra["meta_seen"] = metaSeen
	rep.Extra["float_pool"] = len(pool)
	return rep.Write(*out)
}

// checkMeta: the float symbol classes and the activation registry the specification was checked with are the ones
// this replayer (and the real registry) uses.
func checkMeta(c *codecCase) error {
	if len(c.Ftable) != len(ftable) {
		return fmt.Errorf("FTable of Codec.tla has %d symbols, the replayer %d", len(c.Ftable), len(ftable))
	}
	for i := range ftable {
		if c.Ftable[i].K != ftable[i].K || (ftable[i].K == "int" && c.Ftable[i].N != ftable[i].N) {
			return fmt.Errorf("FTable of Codec.tla differs from the replayer's at symbol %d", i+1)
		}
	}
	return nil
}

func runCase(c *codecCase, tb table, res *result) (interesting bool) {
	switch c.Kind {
	case "genome":
		genomeCase(c, tb, res)
		return c.G.interesting()
	case "org":
		g := build(&c.O.G, tb)
		orgRoundTrip(g, tb.val(c.O.Fit), c.O.Gen, tb.val(c.O.Hf), c.O.Pcc, c.Lines, tb, res)
		return c.O.G.interesting()
	case "pop":
		var gs []*genetics.Genome
		for i := range c.Gs {
			gs = append(gs, build(&c.Gs[i], tb))
			interesting = interesting || c.Gs[i].interesting()
		}
		popRoundTrip(gs, c.Lines, tb, res)
		return interesting && len(gs) > 1
	case "popsp":
		return bySpeciesCase(c, tb, res)
	case "exp":
		return expCase(c, tb, res)
	}
	panic("unknown case kind " + c.Kind)
}

/* ---------------------------------------------------------------- token streams */

func splitLines(text string) []string {
	if text == "" {
		return nil
	}
	return strings.Split(strings.TrimSuffix(text, "\n"), "\n")
}

// cmpTokens compares the real text with the specification's token lines ("~k" = the float symbol k: the real token
// must parse to exactly that float64).
func cmpTokens(what string, spec []string, text string, tb table, res *result) {
	real := splitLines(text)
	if len(real) != len(spec) {
		res.div("%s: writer emitted %d lines, the specification %d", what, len(real), len(spec))
		return
	}
	for i := range spec {
		st, rt := strings.Split(spec[i], " "), strings.Split(real[i], " ")
		if len(st) != len(rt) {
			res.div("%s line %d: %q, the specification has %q", what, i, real[i], spec[i])
			return
		}
		for j := range st {
			if strings.HasPrefix(st[j], "~") {
				sym, _ := strconv.Atoi(st[j][1:])
				x, err := strconv.ParseFloat(rt[j], 64)
				if err != nil || !sameBits(x, tb.val(sym)) {
					res.div("%s line %d token %d: %q does not denote %s (line %q, specification %q)", what, i, j, rt[j],
						vhu.Fstr(tb.val(sym)), real[i], spec[i])
					return
				}
			} else if st[j] != rt[j] {
				res.div("%s line %d token %d: %q, the specification has %q (line %q)", what, i, j, rt[j], st[j], real[i])
				return
			}
		}
	}
}

/* ---------------------------------------------------------------- genomes: plain, YAML, organism, population, fast model */

func writeGenome(g *genetics.Genome, enc genetics.GenomeEncoding) (string, error) {
	var buf bytes.Buffer
	w, err := genetics.NewGenomeWriter(&buf, enc)
	if err != nil {
		return "", err
	}
	if err = w.WriteGenome(g); err != nil {
		return "", err
	}
	return buf.String(), nil
}

func readGenome(text string, enc genetics.GenomeEncoding) (*genetics.Genome, error) {
	r, err := genetics.NewGenomeReader(strings.NewReader(text), enc)
	if err != nil {
		return nil, err
	}
	return r.Read()
}

// plainRoundTrip: genome -> plain text -> genome (the plain format has no syntax for control genes: not claimed)
func plainRoundTrip(g *genetics.Genome, spec []string, tb table, res *result) {
	want := project(g, false)
	text, err := writeGenome(g, genetics.PlainGenomeEncoding)
	res.evals++
	if err != nil {
		res.fail("codec/plain/write", "plain writer failed on a well-formed genome: %v", err)
		return
	}
	if spec != nil {
		cmpTokens("plain", spec, text, tb, res)
	}
	back, err := readGenome(text, genetics.PlainGenomeEncoding)
	if err != nil {
		res.fail("codec/plain/read", "plain reader rejects what the plain writer wrote: %v\n%s", err, text)
		return
	}
	if d := diffGenomes(want, project(back, false), true); len(d) > 0 {
		res.fail("codec/plain/roundtrip", "plain encoding does not read back unchanged: %s", strings.Join(d, "; "))
	}
	// ReadGenome: the id comes from the caller
	if b2, err := genetics.ReadGenome(strings.NewReader(text), 41); err != nil || b2.Id != 41 {
		res.fail("codec/plain/readgenome", "ReadGenome(text, 41) failed or kept another id: %v", err)
	}
}

// yamlRoundTrip: genome -> YAML -> genome (with control genes).  exact = false: the genome contains a negative zero,
// whose sign the YAML encoding is known to lose (assumption of the check, modelled by YamlLaw in Codec.tla): then the
// read-back genome must equal the original up to the sign of zeros and nothing else.
func yamlRoundTrip(g *genetics.Genome, spec map[string]interface{}, tb table, exact bool, res *result) {
	want := project(g, true)
	if !exact {
		unsign(&want)
	}
	text, err := writeGenome(g, genetics.YAMLGenomeEncoding)
	res.evals++
	if err != nil {
		res.fail("codec/yaml/write", "YAML writer failed on a well-formed genome: %v", err)
		return
	}
	if spec != nil {
		var doc interface{}
		if err := yaml.Unmarshal([]byte(text), &doc); err != nil {
			res.div("yaml: the written document does not parse: %v", err)
		} else if d := cmpDoc("", spec, doc, tb); d != "" {
			res.div("yaml document: %s", d)
		}
	}
	back, err := readGenome(text, genetics.YAMLGenomeEncoding)
	if err != nil {
		res.fail("codec/yaml/read", "YAML reader rejects what the YAML writer wrote: %v\n%s", err, text)
		return
	}
	if d := diffGenomes(want, project(back, true), true); len(d) > 0 {
		res.fail("codec/yaml/roundtrip", "YAML encoding does not read back unchanged: %s", strings.Join(d, "; "))
	}
}

// cmpDoc compares a generic YAML document with the specification's: ints, strings, booleans literally, float
// scalars {k: flt|int, v} by class and exact value, sequences by position, maps by key set.
func cmpDoc(path string, spec, real interface{}, tb table) string {
	switch s := spec.(type) {
	case map[string]interface{}:
		if k, ok := s["k"].(string); ok && len(s) == 2 {
			v := int(s["v"].(float64))
			if k == "flt" {
				x, ok := real.(float64)
				if !ok || !sameBits(x, tb.val(v)) {
					return fmt.Sprintf("%s = %v (%T), specification: float scalar %s", path, real, real, vhu.Fstr(tb.val(v)))
				}
				return ""
			}
			if n, ok := real.(int); !ok || n != v {
				return fmt.Sprintf("%s = %v (%T), specification: integer scalar %d", path, real, real, v)
			}
			return ""
		}
		m, ok := real.(map[string]interface{})
		if !ok {
			return fmt.Sprintf("%s is %T, specification has a map", path, real)
		}
		if len(m) != len(s) {
			return fmt.Sprintf("%s has keys %v, specification %v", path, keysOf(m), keysOf(s))
		}
		for k, sv := range s {
			rv, ok := m[k]
			if !ok {
				return fmt.Sprintf("%s lacks key %q", path, k)
			}
			if d := cmpDoc(path+"."+k, sv, rv, tb); d != "" {
				return d
			}
		}
		return ""
	case []interface{}:
		l, ok := real.([]interface{})
		if !ok || len(l) != len(s) {
			return fmt.Sprintf("%s = %v, specification has a sequence of %d", path, real, len(s))
		}
		for i := range s {
			if d := cmpDoc(fmt.Sprintf("%s[%d]", path, i), s[i], l[i], tb); d != "" {
				return d
			}
		}
		return ""
	case float64:
		if n, ok := real.(int); !ok || float64(n) != s {
			return fmt.Sprintf("%s = %v (%T), specification %v", path, real, real, s)
		}
		return ""
	default:
		if spec != real {
			return fmt.Sprintf("%s = %v (%T), specification %v", path, real, real, spec)
		}
		return ""
	}
}

const negZeroHex, zeroHex = "8000000000000000", "0000000000000000"

// unsign replaces negative zeros by positive zeros in a projection.
func unsign(p *pGenome) {
	u := func(h *string) {
		if *h == negZeroHex {
			*h = zeroHex
		}
	}
	for i := range p.Traits {
		for j := range p.Traits[i].P {
			u(&p.Traits[i].P[j])
		}
	}
	for i := range p.Genes {
		u(&p.Genes[i].W)
		u(&p.Genes[i].Mut)
	}
	for i := range p.Mods {
		u(&p.Mods[i].Mut)
	}
}

func hasNegZero(p pGenome) bool {
	q := p
	q.Traits = append([]pTrait(nil), p.Traits...)
	for i := range q.Traits {
		q.Traits[i].P = append([]string(nil), p.Traits[i].P...)
	}
	q.Genes = append([]pGene(nil), p.Genes...)
	q.Mods = append([]pMod(nil), p.Mods...)
	unsign(&q)
	return fmt.Sprint(q) != fmt.Sprint(p)
}

func keysOf(m map[string]interface{}) []string {
	var k []string
	for x := range m {
		k = append(k, x)
	}
	sort.Strings(k)
	return k
}

// orgRoundTrip: Organism.MarshalBinary -> UnmarshalBinary restores genome, fitness, generation (and the two unexported
// fields the header also carries).
func orgRoundTrip(g *genetics.Genome, fit float64, gen int, hf float64, pcc bool, spec []string, tb table, res *result) {
	org, _ := genetics.NewOrganism(fit, g, gen)
	org.VerifSetChampFields(hf, pcc)
	want := project(g, false)
	data, err := org.MarshalBinary()
	res.evals++
	if err != nil {
		res.fail("codec/organism/write", "Organism.MarshalBinary failed: %v", err)
		return
	}
	if spec != nil {
		cmpTokens("organism", spec, string(data), tb, res)
	}
	// the binary form is a value: it must still restore this organism after another organism was marshalled
	// (the parallel executor marshals many organisms before any of them is unmarshalled)
	other, _ := genetics.NewOrganism(hf, g, gen+1)
	other.VerifSetChampFields(fit, !pcc)
	data2, err := other.MarshalBinary()
	if err != nil {
		res.fail("codec/organism/write", "Organism.MarshalBinary failed: %v", err)
		return
	}
	back2 := &genetics.Organism{}
	if err := back2.UnmarshalBinary(data2); err != nil || !sameBits(back2.Fitness, hf) || back2.Generation != gen+1 {
		res.fail("codec/organism/roundtrip", "organism binary form does not restore a second organism (fitness %s, generation %d): got (%s, %d, %v)",
			vhu.Fstr(hf), gen+1, vhu.Fstr(back2.Fitness), back2.Generation, err)
		return
	}
	var d []string
	// ... also when the target is an organism already in use (another genome, its phenotype built)
	_, _ = other.Phenotype()
	if err := other.UnmarshalBinary(data); err != nil {
		d = append(d, fmt.Sprintf("UnmarshalBinary into a used organism fails: %v", err))
	} else {
		uhf, upcc := other.VerifChampFields()
		if !sameBits(other.Fitness, fit) || other.Generation != gen || !sameBits(uhf, hf) || upcc != pcc || other.Genotype == nil {
			d = append(d, fmt.Sprintf("read into a used organism: fitness/generation/highestFitness/champion child (%s, %d, %s, %v), original (%s, %d, %s, %v)",
				vhu.Fstr(other.Fitness), other.Generation, vhu.Fstr(uhf), upcc, vhu.Fstr(fit), gen, vhu.Fstr(hf), pcc))
		} else if dg := diffGenomes(want, project(other.Genotype, false), true); len(dg) > 0 {
			d = append(d, "read into a used organism: "+strings.Join(dg, "; "))
		}
	}
	back := &genetics.Organism{}
	if err := back.UnmarshalBinary(data); err != nil {
		res.fail("codec/organism/read", "Organism.UnmarshalBinary rejects what MarshalBinary wrote: %v\n%s", err, data)
		return
	}
	if !sameBits(back.Fitness, fit) {
		d = append(d, fmt.Sprintf("fitness %s, original %s", vhu.Fstr(back.Fitness), vhu.Fstr(fit)))
	}
	if back.Generation != gen {
		d = append(d, fmt.Sprintf("generation %d, original %d", back.Generation, gen))
	}
	if bhf, bpcc := back.VerifChampFields(); !sameBits(bhf, hf) || bpcc != pcc {
		d = append(d, fmt.Sprintf("highestFitness/isPopulationChampionChild (%s, %v), original (%s, %v)", vhu.Fstr(bhf), bpcc, vhu.Fstr(hf), pcc))
	}
	if back.Genotype == nil {
		d = append(d, "no genome")
	} else {
		d = append(d, diffGenomes(want, project(back.Genotype, false), true)...)
	}
	if len(d) > 0 {
		res.fail("codec/organism/roundtrip", "organism binary form does not restore the organism: %s", strings.Join(d, "; "))
		return
	}
	// the binary form is the organism AS IT IS when it is marshalled: an organism that was marshalled before, whose genome
	// then changed in place (what every mutator does) and whose fitness was re-assigned, is marshalled again
	g2, derr := g.VerifDuplicate(g.Id)
	if derr != nil || len(g2.Genes) == 0 {
		return
	}
	live, _ := genetics.NewOrganism(fit, g2, gen)
	if _, err := live.MarshalBinary(); err != nil {
		return
	}
	g2.Genes[0].IsEnabled = !g2.Genes[0].IsEnabled
	last := g2.Genes[len(g2.Genes)-1]
	last.Link.ConnectionWeight = -last.Link.ConnectionWeight + 0.5
	last.MutationNum += 1
	live.Fitness, live.Generation = hf, gen+3
	want2 := project(g2, false)
	data3, err := live.MarshalBinary()
	res.evals++
	if err != nil {
		res.fail("codec/organism/write", "Organism.MarshalBinary failed on an organism that was marshalled before: %v", err)
		return
	}
	back3 := &genetics.Organism{}
	if err := back3.UnmarshalBinary(data3); err != nil || back3.Genotype == nil {
		res.fail("codec/organism/read", "Organism.UnmarshalBinary rejects the second binary form of a changed organism: %v", err)
		return
	}
	var d3 []string
	if !sameBits(back3.Fitness, hf) || back3.Generation != gen+3 {
		d3 = append(d3, fmt.Sprintf("fitness/generation (%s, %d), organism has (%s, %d)", vhu.Fstr(back3.Fitness), back3.Generation, vhu.Fstr(hf), gen+3))
	}
	d3 = append(d3, diffGenomes(want2, project(back3.Genotype, false), true)...)
	if len(d3) > 0 {
		res.fail("codec/organism/roundtrip", "an organism marshalled, changed in place (enabled flag of the first gene, weight of the last) and marshalled again is not restored as it is now: %s",
			strings.Join(d3, "; "))
	}
}

// popRoundTrip: Population.Write (genome by genome) -> ReadPopulation restores the same genomes in the same order.
func popRoundTrip(gs []*genetics.Genome, spec []string, tb table, res *result) {
	if len(gs) == 0 {
		return // an empty population file is not a population
	}
	pop := genetics.VerifNewEmptyPopulation()
	for _, g := range gs {
		o, _ := genetics.NewOrganism(0, g, 1)
		pop.Organisms = append(pop.Organisms, o)
	}
	var buf bytes.Buffer
	res.evals++
	if err := pop.Write(&buf); err != nil {
		res.fail("codec/population/write", "Population.Write failed: %v", err)
		return
	}
	text := buf.String()
	if spec != nil {
		cmpTokens("population", spec, text, tb, res)
	}
	// what a file restores does not depend on the reader's options: the population size option equals the number of genomes in
	// the file, is larger, or is left at zero
	ropts := vhu.BaseOptions([]int{len(gs), len(gs) + 2, 0}[(len(gs)+len(text))%3])
	back, err := genetics.ReadPopulation(strings.NewReader(text), ropts)
	if err != nil {
		res.fail("codec/population/read", "ReadPopulation (reader's PopSize option %d) rejects what Population.Write wrote for %d genomes: %v", ropts.PopSize, len(gs), err)
		return
	}
	if len(back.Organisms) != len(gs) {
		res.fail("codec/population/roundtrip", "ReadPopulation restored %d genomes of %d", len(back.Organisms), len(gs))
		return
	}
	for i, g := range gs {
		want, got := project(g, false), project(back.Organisms[i].Genotype, false)
		if d := diffGenomes(want, got, true); len(d) > 0 {
			sig := "codec/population/roundtrip"
			if firstLineLost(want, got) {
				sig = "population roundtrip first-line"
			}
			res.fail(sig, "population written genome by genome does not restore genome %d (id %d): %s", i, g.Id, strings.Join(d, "; "))
			return
		}
	}
}

// bySpeciesCase: Population.WriteBySpecies of a population with the given species (organisms with distinct fitness ranks,
// some of them winners) -> ReadPopulation restores the genomes, each species' best organism first (Codec.tla 3b).
func bySpeciesCase(c *codecCase, tb table, res *result) (interesting bool) {
	pop := genetics.VerifNewEmptyPopulation()
	byId := map[int]*genetics.Genome{}
	for si, sp := range c.Sps {
		s := genetics.NewSpecies(si + 1)
		s.Age = 2 + si
		for _, ao := range sp {
			g := build(&ao.G, tb)
			// fitness values that differ in the last places only (equal under the %.3f of the comment line), errors far out
			o, _ := genetics.NewOrganism(1.0+float64(ao.Fit)*1e-7, g, 1)
			o.IsWinner = ao.Win
			o.Error = []float64{0, -1e300, 1e21, 0.0005}[ao.Fit%4]
			o.Species = s
			s.Organisms = append(s.Organisms, o)
			pop.Organisms = append(pop.Organisms, o)
			byId[g.Id] = g
			interesting = interesting || ao.Win
		}
		pop.Species = append(pop.Species, s)
	}
	var buf bytes.Buffer
	res.evals++
	if err := pop.WriteBySpecies(&buf); err != nil {
		res.fail("codec/population/write", "Population.WriteBySpecies failed: %v", err)
		return
	}
	text := buf.String()
	// token comparison on what is not a comment (comment text is free); the number of comment lines is compared as well
	strip := func(lines []string) (out []string, comments int) {
		for _, l := range lines {
			if strings.HasPrefix(l, "/*") {
				comments++
			} else {
				out = append(out, l)
			}
		}
		return
	}
	specBody, specComments := strip(c.Lines)
	realBody, realComments := strip(splitLines(text))
	if specComments != realComments {
		res.div("population by species: writer emitted %d comment lines, the specification %d", realComments, specComments)
	}
	cmpTokens("population by species", specBody, strings.Join(realBody, "\n")+"\n", tb, res)
	var back *genetics.Population
	var err error
	if pn := vhu.Guard(func() { back, err = genetics.ReadPopulation(strings.NewReader(text), vhu.BaseOptions(len(pop.Organisms))) }); pn != "" {
		res.fail("codec/population/read", "ReadPopulation panics on what Population.WriteBySpecies wrote (winner organisms: %v): %s", interesting, pn)
		return
	}
	if err != nil {
		res.fail("codec/population/read", "ReadPopulation rejects what Population.WriteBySpecies wrote (winner organisms: %v): %v", interesting, err)
		return
	}
	if len(back.Organisms) != len(c.Order) {
		res.fail("codec/population/roundtrip", "ReadPopulation restored %d genomes of the %d written by species", len(back.Organisms), len(c.Order))
		return
	}
	for i, id := range c.Order {
		b := back.Organisms[i].Genotype
		if b.Id != id {
			res.div("population by species: genome %d read back at position %d, the specification has %d there", b.Id, i, id)
		}
		orig, ok := byId[b.Id]
		if !ok {
			res.fail("codec/population/roundtrip", "a genome with id %d was read back, none was written", b.Id)
			return
		}
		if d := diffGenomes(project(orig, false), project(b, false), true); len(d) > 0 {
			res.fail("codec/population/roundtrip", "population written by species does not restore genome %d: %s", b.Id, strings.Join(d, "; "))
			return
		}
	}
	return interesting
}

func fnum(x float64) string {
	if math.IsNaN(x) {
		return "nan"
	}
	return hexf(x)
}

// drive runs a fixed programme of activations on a solver and renders everything observable.
func drive(s network.Solver, nin int, seed uint64) []string {
	var tr []string
	inputs := [][]float64{make([]float64, nin), make([]float64, nin), make([]float64, nin)}
	for i := 0; i < nin; i++ {
		inputs[0][i] = 1
		inputs[1][i] = float64(int(seed>>uint(4*i))%9-4) / 4
		inputs[2][i] = -0.75 * float64(i+1)
	}
	obs := func(tag string, ok bool, err error) {
		o := []string{}
		for _, x := range s.ReadOutputs() {
			o = append(o, fnum(x))
		}
		tr = append(tr, fmt.Sprintf("%s ok=%v err=%v out=%v", tag, ok, err, o))
	}
	if p := vhu.Guard(func() {
		for vi, in := range inputs {
			_, _ = s.Flush()
			if err := s.LoadSensors(in); err != nil {
				tr = append(tr, "load: "+err.Error())
			}
			for k := 1; k <= 3; k++ {
				ok, err := s.ForwardSteps(1)
				obs(fmt.Sprintf("in%d forward%d", vi, k), ok, err)
			}
			_, _ = s.Flush()
			_ = s.LoadSensors(in)
			ok, err := s.RecursiveSteps()
			obs(fmt.Sprintf("in%d recursive", vi), ok, err)
			_, _ = s.Flush()
			_ = s.LoadSensors(in)
			ok, err = s.Relax(4, 1e-3)
			obs(fmt.Sprintf("in%d relax", vi), ok, err)
		}
	}); p != "" {
		tr = append(tr, "panic: "+p)
	}
	return tr
}

// fastRoundTrip: phenotype -> fast solver -> WriteModel -> ReadFMNSModel: the restored solver computes identical outputs.
func fastRoundTrip(g *genetics.Genome, spec map[string]interface{}, tb table, res *result) {
	net, err := g.Genesis(g.Id)
	if err != nil {
		return
	}
	net.Name = "net"
	sv, err := net.FastNetworkSolver()
	if err != nil {
		return
	}
	fast := sv.(*network.FastModularNetworkSolver)
	var buf bytes.Buffer
	res.evals++
	if err := fast.WriteModel(&buf); err != nil {
		if strings.Contains(err.Error(), "unsupported value") {
			return // a sum of bias weights overflowed to +-Inf: not a finite model
		}
		res.fail("codec/fast/write", "WriteModel failed: %v", err)
		return
	}
	text := buf.String()
	if spec != nil {
		var doc map[string]interface{}
		dec := json.NewDecoder(strings.NewReader(text))
		dec.UseNumber()
		if err := dec.Decode(&doc); err != nil {
			res.div("fast model: the written JSON does not parse: %v", err)
		} else if d := cmpFastDoc(spec, doc, tb); d != "" {
			res.div("fast model: %s", d)
		}
	}
	back, err := network.ReadFMNSModel(strings.NewReader(text))
	if err != nil {
		res.fail("codec/fast/read", "ReadFMNSModel rejects what WriteModel wrote: %v\n%s", err, text)
		return
	}
	nin := 0
	for _, n := range g.Nodes {
		if n.NeuronType == network.InputNeuron {
			nin++
		}
	}
	done := make(chan [2][]string, 1)
	go func() {
		h := hashOf(text)
		// the original is driven after the copy was written, from a flushed state
		done <- [2][]string{drive(fast, nin, h), drive(back, nin, h)}
	}()
	select {
	case tr := <-done:
		if back.NodeCount() != fast.NodeCount() || back.LinkCount() != fast.LinkCount() || back.Id != fast.Id || back.Name != fast.Name {
			res.fail("codec/fast/roundtrip", "restored fast solver has id/name/nodes/links (%d, %q, %d, %d), the original (%d, %q, %d, %d)",
				back.Id, back.Name, back.NodeCount(), back.LinkCount(), fast.Id, fast.Name, fast.NodeCount(), fast.LinkCount())
			return
		}
		for i := range tr[0] {
			if i >= len(tr[1]) || tr[0][i] != tr[1][i] {
				got := "(nothing)"
				if i < len(tr[1]) {
					got = tr[1][i]
				}
				res.fail("codec/fast/roundtrip", "the solver restored from the model file computes different outputs: %s, the original: %s\n%s", got, tr[0][i], text)
				return
			}
		}
	case <-time.After(10 * time.Second):
		res.fail("codec/fast/hang", "driving the fast solvers did not terminate within 10s")
	}
}

// cmpFastDoc compares the JSON model with the document FastDoc(FastOf(g)) of the specification.
func cmpFastDoc(spec, real map[string]interface{}, tb table) string {
	if fmt.Sprint(keysOf(spec)) != fmt.Sprint(keysOf(real)) {
		return fmt.Sprintf("fields %v, specification %v", keysOf(real), keysOf(spec))
	}
	num := func(v interface{}) (float64, bool) {
		n, ok := v.(json.Number)
		if !ok {
			return 0, false
		}
		x, err := strconv.ParseFloat(string(n), 64)
		return x, err == nil
	}
	for _, k := range []string{"id", "input_neuron_count", "sensor_neuron_count", "output_neuron_count", "bias_neuron_count", "total_neuron_count"} {
		if x, ok := num(real[k]); !ok || x != spec[k].(float64) {
			return fmt.Sprintf("%s = %v, specification %v", k, real[k], spec[k])
		}
	}
	if real["name"] != spec["name"] {
		return fmt.Sprintf("name = %v, specification %v", real["name"], spec["name"])
	}
	if fmt.Sprint(real["activation_functions"]) != fmt.Sprint(spec["activation_functions"]) {
		return fmt.Sprintf("activation_functions = %v, specification %v", real["activation_functions"], spec["activation_functions"])
	}
	sb, rb := spec["bias_list"].([]interface{}), real["bias_list"].([]interface{})
	if len(sb) != len(rb) {
		return fmt.Sprintf("bias_list has %d entries, specification %d", len(rb), len(sb))
	}
	for i := range sb {
		sum := 0.0
		for _, s := range sb[i].([]interface{}) {
			sum += tb.val(int(s.(float64)))
		}
		if x, ok := num(rb[i]); !ok || !sameBits(x, sum) {
			return fmt.Sprintf("bias_list[%d] = %v, specification %s", i, rb[i], vhu.Fstr(sum))
		}
	}
	sc, rc := spec["connections"].([]interface{}), real["connections"].([]interface{})
	if len(sc) != len(rc) {
		return fmt.Sprintf("%d connections, specification %d", len(rc), len(sc))
	}
	for i := range sc {
		s, r := sc[i].(map[string]interface{}), rc[i].(map[string]interface{})
		if fmt.Sprint(keysOf(s)) != fmt.Sprint(keysOf(r)) {
			return fmt.Sprintf("connection fields %v, specification %v", keysOf(r), keysOf(s))
		}
		for _, k := range []string{"source_index", "target_index"} {
			if x, ok := num(r[k]); !ok || x != s[k].(float64) {
				return fmt.Sprintf("connections[%d].%s = %v, specification %v", i, k, r[k], s[k])
			}
		}
		for _, k := range []string{"weight", "signal"} {
			if x, ok := num(r[k]); !ok || !sameBits(x, tb.val(int(s[k].(float64)))) {
				return fmt.Sprintf("connections[%d].%s = %v, specification %s", i, k, r[k], vhu.Fstr(tb.val(int(s[k].(float64)))))
			}
		}
	}
	if sm, ok := spec["modules"].([]interface{}); ok {
		rm := real["modules"].([]interface{})
		if len(sm) != len(rm) {
			return fmt.Sprintf("%d modules, specification %d", len(rm), len(sm))
		}
		for i := range sm {
			s, r := sm[i].(map[string]interface{}), rm[i].(map[string]interface{})
			if r["activation_type"] != s["activation_type"] || fmt.Sprint(r["input_indexes"]) != fmt.Sprint(s["input_indexes"]) ||
				fmt.Sprint(r["output_indexes"]) != fmt.Sprint(s["output_indexes"]) || len(r) != len(s) {
				return fmt.Sprintf("modules[%d] = %v, specification %v", i, r, s)
			}
		}
	}
	return ""
}

func genomeCase(c *codecCase, tb table, res *result) {
	g := build(c.G, tb)
	plainRoundTrip(g, c.Plain, tb, res)
	yamlRoundTrip(g, c.Yaml, tb, c.YamlExact, res)
	// organism and population around the same genome (header values from the table)
	orgRoundTrip(g, tb.val(1+len(c.G.Genes)%len(ftable)), len(c.G.Nodes), tb.val(2), len(c.G.Genes)%2 == 0, nil, tb, res)
	g2 := build(c.G, tb)
	g2.Id = c.G.Id + 1
	popRoundTrip([]*genetics.Genome{g, g2}, nil, tb, res)
	finite := true
	for _, e := range g.Genes {
		finite = finite && !math.IsInf(e.Link.ConnectionWeight, 0)
	}
	if finite {
		fastRoundTrip(g, c.Fast, tb, res)
	}
}

/* ---------------------------------------------------------------- experiments */

func mkTime(exec int) time.Time {
	// in odd trials: a generation that was never stamped (the zero time.Time of records assembled by the caller) and stamps
	// far from the present - a time is a value like any other field of a generation
	if (exec/1000)%2 == 1 {
		switch exec % 100 {
		case 10:
			return time.Time{}
		case 20:
			return time.Date(1492, 10, 12, 7, 30, 15, 123456789, time.UTC)
		case 30:
			return time.Date(2500, 1, 2, 3, 4, 5, 6, time.UTC)
		}
	}
	t := time.Unix(1700000000+int64(exec)*3600, int64(exec)*1000003%1000000000)
	if exec%2 == 0 {
		return t.UTC()
	}
	return t.In(time.FixedZone("X", 2*3600))
}
func mkDur(d int) time.Duration { return time.Duration(d)*time.Millisecond + time.Duration(d) }

func floatsOf(syms []int, tb table) experiment.Floats {
	x := make(experiment.Floats, len(syms))
	for i, s := range syms {
		x[i] = tb.val(s)
	}
	return x
}

func buildExp(a *aExp, tb table) *experiment.Experiment {
	e := &experiment.Experiment{Id: a.Id, Name: a.Name, RandSeed: 42, MaxFitnessScore: 16}
	for _, t := range a.Trials {
		tr := experiment.Trial{Id: t.Id, Duration: time.Second}
		for _, gn := range t.Gens {
			gen := experiment.Generation{Id: gn.Id, Executed: mkTime(gn.Exec), Solved: gn.Solved, Fitness: floatsOf(gn.Fit, tb),
				Age: floatsOf(gn.Age, tb), Complexity: floatsOf(gn.Cplx, tb), Diversity: gn.Div, WinnerEvals: gn.We, WinnerNodes: gn.Wn,
				WinnerGenes: gn.Wg, Duration: mkDur(gn.Dur), TrialId: gn.Tid}
			if !gn.Champ.None {
				ch := gn.Champ
				org, _ := genetics.NewOrganism(tb.val(ch.Fit), build(&ch.G, tb), ch.Gen)
				org.IsWinner, org.ExpectedOffspring, org.Error = ch.Win, tb.val(ch.Eo), tb.val(ch.Err)
				gen.Champion = org
			}
			tr.Generations = append(tr.Generations, gen)
		}
		e.Trials = append(e.Trials, tr)
	}
	return e
}

// cmpGob reads the gob stream in the order and with the types of the specification's ExpStream.
func cmpGob(spec []streamTok, data []byte, tb table, res *result) {
	dec := gob.NewDecoder(bytes.NewReader(data))
	for i, tok := range spec {
		bad := ""
		switch tok.K {
		case "i":
			var want, got int
			_ = json.Unmarshal(tok.V, &want)
			if err := dec.Decode(&got); err != nil || got != want {
				bad = fmt.Sprintf("int %d (%v), specification %d", got, err, want)
			}
		case "s":
			var want, got string
			_ = json.Unmarshal(tok.V, &want)
			if err := dec.Decode(&got); err != nil || got != want {
				bad = fmt.Sprintf("string %q (%v), specification %q", got, err, want)
			}
		case "b":
			var want, got bool
			_ = json.Unmarshal(tok.V, &want)
			if err := dec.Decode(&got); err != nil || got != want {
				bad = fmt.Sprintf("bool %v (%v), specification %v", got, err, want)
			}
		case "f":
			var sym int
			var got float64
			_ = json.Unmarshal(tok.V, &sym)
			if err := dec.Decode(&got); err != nil || !sameBits(got, tb.val(sym)) {
				bad = fmt.Sprintf("float %s (%v), specification %s", vhu.Fstr(got), err, vhu.Fstr(tb.val(sym)))
			}
		case "fs":
			var syms []int
			var got []float64
			_ = json.Unmarshal(tok.V, &syms)
			err := dec.Decode(&got)
			ok := err == nil && len(got) == len(syms)
			for j := 0; ok && j < len(syms); j++ {
				ok = sameBits(got[j], tb.val(syms[j]))
			}
			if !ok {
				bad = fmt.Sprintf("floats %v (%v), specification symbols %v", got, err, syms)
			}
		case "time":
			var exec int
			var got time.Time
			_ = json.Unmarshal(tok.V, &exec)
			if err := dec.Decode(&got); err != nil || !got.Equal(mkTime(exec)) {
				bad = fmt.Sprintf("time %v (%v), specification %v", got, err, mkTime(exec))
			}
		case "dur":
			var d int
			var got time.Duration
			_ = json.Unmarshal(tok.V, &d)
			if err := dec.Decode(&got); err != nil || got != mkDur(d) {
				bad = fmt.Sprintf("duration %v (%v), specification %v", got, err, mkDur(d))
			}
		case "bytes":
			var lines []string
			var got []byte
			_ = json.Unmarshal(tok.V, &lines)
			if err := dec.Decode(&got); err != nil {
				bad = fmt.Sprintf("bytes: %v", err)
			} else {
				n := len(res.divs)
				cmpTokens("champion genome in the gob stream", lines, string(got), tb, res)
				if len(res.divs) > n {
					return
				}
			}
		default:
			panic("stream token kind " + tok.K)
		}
		if bad != "" {
			res.div("gob stream value %d: %s", i, bad)
			return
		}
	}
	var extra int
	if err := dec.Decode(&extra); err != io.EOF {
		res.div("gob stream continues after the %d values of the specification (%v)", len(spec), err)
	}
}

func fl(xs []float64) string {
	o := []string{}
	for _, x := range xs {
		o = append(o, fnum(x))
	}
	return strings.Join(o, ",")
}

func orgStr(o *genetics.Organism, found bool) string {
	if !found || o == nil {
		return "none"
	}
	return fmt.Sprintf("fit=%s gen=%d genome=%+v", fnum(o.Fitness), o.Generation, project(o.Genotype, false))
}

// observe renders every statistic C15 lists (fitness, complexity, diversity, winner statistics, and what they are
// derived from) of an experiment; an accessor that panics is rendered as its panic.
func observe(e *experiment.Experiment) map[string]string {
	m := map[string]string{}
	put := func(k string, f func() string) {
		var v string
		if p := vhu.Guard(func() { v = f() }); p != "" {
			v = "panic: " + p
		}
		m[k] = v
	}
	series := func(k string, f func() experiment.Floats) {
		put(k, func() string { return fl(f()) })
		put(k+".stats", func() string {
			x := f()
			if len(x) == 0 {
				return "empty"
			}
			mv := x.MeanVariance()
			return fl([]float64{x.Min(), x.Max(), x.Sum(), x.Mean(), mv[0], mv[1], x.Median(), x.Q25(), x.Q75(), x.Variance(), x.StdDev()})
		})
	}
	put("solved", func() string { return fmt.Sprint(e.Solved(), e.TrialsSolved(), fnum(e.SuccessRate())) })
	put("avgGens", func() string { return fnum(e.AvgGenerationsPerTrial()) })
	put("avgEpochDuration", func() string { return e.AvgEpochDuration().String() })
	put("mostRecent", func() string { return fmt.Sprint(e.MostRecentTrialEvalTime().UnixNano()) })
	series("bestFitness", e.BestFitness)
	series("bestComplexity", e.BestComplexity)
	series("avgDiversity", e.AvgDiversity)
	series("epochsPerTrial", e.EpochsPerTrial)
	put("avgWinner", func() string { a, b, c, d := e.AvgWinnerStatistics(); return fl([]float64{a, b, c, d}) })
	for _, solvers := range []bool{false, true} {
		solvers := solvers
		put(fmt.Sprintf("best(%v)", solvers), func() string {
			o, tid, ok := e.BestOrganism(solvers)
			return fmt.Sprint(tid, " ", orgStr(o, ok))
		})
	}
	for i := range e.Trials {
		t := &e.Trials[i]
		p := fmt.Sprintf("trial%d.", i)
		put(p+"solved", func() string { return fmt.Sprint(t.Solved(), t.AvgEpochDuration(), t.RecentEpochEvalTime().UnixNano()) })
		series(p+"champFitness", t.ChampionsFitness)
		series(p+"champComplexity", t.ChampionsComplexities)
		series(p+"diversity", t.Diversity)
		put(p+"average", func() string { a, b, c := t.Average(); return fl(a) + "|" + fl(b) + "|" + fl(c) })
		put(p+"winner", func() string { a, b, c, d := t.WinnerStatistics(); return fmt.Sprint(a, b, c, d) })
		for _, solvers := range []bool{false, true} {
			solvers := solvers
			put(fmt.Sprintf("%sbest(%v)", p, solvers), func() string { o, ok := t.BestOrganism(solvers); return orgStr(o, ok) })
		}
		for j := range t.Generations {
			gn := &t.Generations[j]
			put(fmt.Sprintf("%sgen%d", p, j), func() string {
				a, b, c := gn.Average()
				return fmt.Sprint(fl([]float64{a, b, c}), gn.ChampionComplexity())
			})
		}
	}
	return m
}

func cmpFloats(name string, want, got experiment.Floats, d *[]string) {
	if len(want) != len(got) {
		*d = append(*d, fmt.Sprintf("%s has %d values, original %d", name, len(got), len(want)))
		return
	}
	for i := range want {
		if !sameBits(want[i], got[i]) {
			*d = append(*d, fmt.Sprintf("%s[%d] = %s, original %s", name, i, vhu.Fstr(got[i]), vhu.Fstr(want[i])))
			return
		}
	}
}

func expCase(c *codecCase, tb table, res *result) (interesting bool) {
	e := buildExp(c.E, tb)
	var buf bytes.Buffer
	res.evals++
	if err := e.Write(&buf); err != nil {
		res.fail("codec/experiment/write", "Experiment.Write failed: %v", err)
		return
	}
	data := buf.Bytes()
	cmpGob(c.Stream, data, tb, res)
	// the file is read into (a) a fresh value, (b) a value that holds ANOTHER experiment with at least as many trials
	// whose statistics were all computed (winner generations cached), (c) a value that holds the same experiment, used
	// likewise: the restored experiment must depend on the file only
	wo := observe(e)
	solved, unsolved := false, false
	targets := []struct {
		name string
		val  *experiment.Experiment
	}{{"a fresh Experiment{}", &experiment.Experiment{}}}
	if c.Other != nil {
		o := buildExp(c.Other, tb)
		_ = observe(o)
		targets = append(targets, struct {
			name string
			val  *experiment.Experiment
		}{"an Experiment value that held another experiment (statistics computed)", o})
	}
	same := buildExp(c.E, tb)
	_ = observe(same)
	targets = append(targets, struct {
		name string
		val  *experiment.Experiment
	}{"an Experiment value that held the same experiment (statistics computed)", same})
	for _, tg := range targets {
		back := tg.val
		res.evals++
		if err := back.Read(bytes.NewReader(data)); err != nil {
			res.fail("codec/experiment/read", "Experiment.Read (into %s) rejects what Experiment.Write wrote: %v", tg.name, err)
			return
		}
		d, sv, us := cmpExperiment(e, back, wo, res)
		solved, unsolved = solved || sv, unsolved || us
		if len(d) > 0 {
			if len(d) > 5 {
				d = d[:5]
			}
			sig := "codec/experiment/roundtrip"
			if tg.val != targets[0].val {
				sig = "codec/experiment/read-into-used"
			}
			res.fail(sig, "saved experiment read into %s does not restore: %s", tg.name, strings.Join(d, "; "))
			return
		}
	}
	return solved && unsolved
}

// cmpExperiment compares a restored experiment with the written one: every written field, the run-time state a read
// must not inherit from the target (cached winner generation, trial duration), then every derived statistic.
func cmpExperiment(e, back *experiment.Experiment, wo map[string]string, res *result) (d []string, solved, unsolved bool) {
	for i := range back.Trials {
		if back.Trials[i].WinnerGeneration != nil || back.Trials[i].Duration != 0 {
			d = append(d, fmt.Sprintf("trial[%d] comes back with a winner generation / duration (%v, %v) that the file does not contain",
				i, back.Trials[i].WinnerGeneration != nil, back.Trials[i].Duration))
		}
	}
	if back.Id != e.Id || back.Name != e.Name || len(back.Trials) != len(e.Trials) {
		d = append(d, fmt.Sprintf("experiment (id %d, name %q, %d trials), original (%d, %q, %d)", back.Id, back.Name, len(back.Trials), e.Id, e.Name, len(e.Trials)))
	}
	for i := 0; i < len(e.Trials) && i < len(back.Trials); i++ {
		wt, gt := e.Trials[i], back.Trials[i]
		if wt.Id != gt.Id || len(wt.Generations) != len(gt.Generations) {
			d = append(d, fmt.Sprintf("trial[%d] (id %d, %d generations), original (%d, %d)", i, gt.Id, len(gt.Generations), wt.Id, len(wt.Generations)))
			continue
		}
		for j := range wt.Generations {
			w, g := wt.Generations[j], gt.Generations[j]
			p := fmt.Sprintf("trial[%d].generation[%d]", i, j)
			solved, unsolved = solved || w.Solved, unsolved || !w.Solved
			if w.Id != g.Id || !w.Executed.Equal(g.Executed) || w.Solved != g.Solved || w.Diversity != g.Diversity ||
				w.WinnerEvals != g.WinnerEvals || w.WinnerNodes != g.WinnerNodes || w.WinnerGenes != g.WinnerGenes ||
				w.Duration != g.Duration || w.TrialId != g.TrialId {
				d = append(d, fmt.Sprintf("%s = {Id:%d Executed:%v Solved:%v Diversity:%d WinnerEvals:%d WinnerNodes:%d WinnerGenes:%d Duration:%v TrialId:%d}, "+
					"original {Id:%d Executed:%v Solved:%v Diversity:%d WinnerEvals:%d WinnerNodes:%d WinnerGenes:%d Duration:%v TrialId:%d}", p,
					g.Id, g.Executed, g.Solved, g.Diversity, g.WinnerEvals, g.WinnerNodes, g.WinnerGenes, g.Duration, g.TrialId,
					w.Id, w.Executed, w.Solved, w.Diversity, w.WinnerEvals, w.WinnerNodes, w.WinnerGenes, w.Duration, w.TrialId))
			}
			cmpFloats(p+".Fitness", w.Fitness, g.Fitness, &d)
			cmpFloats(p+".Age", w.Age, g.Age, &d)
			cmpFloats(p+".Complexity", w.Complexity, g.Complexity, &d)
			if (w.Champion == nil) != (g.Champion == nil) {
				d = append(d, p+": champion present / absent differs")
			} else if w.Champion != nil {
				wc, gc := w.Champion, g.Champion
				if !sameBits(wc.Fitness, gc.Fitness) || wc.IsWinner != gc.IsWinner || wc.Generation != gc.Generation ||
					!sameBits(wc.ExpectedOffspring, gc.ExpectedOffspring) || !sameBits(wc.Error, gc.Error) {
					d = append(d, fmt.Sprintf("%s champion (fitness %s, winner %v, generation %d, expected offspring %s, error %s), original (%s, %v, %d, %s, %s)", p,
						vhu.Fstr(gc.Fitness), gc.IsWinner, gc.Generation, vhu.Fstr(gc.ExpectedOffspring), vhu.Fstr(gc.Error),
						vhu.Fstr(wc.Fitness), wc.IsWinner, wc.Generation, vhu.Fstr(wc.ExpectedOffspring), vhu.Fstr(wc.Error)))
				}
				if gc.Genotype == nil {
					d = append(d, p+": champion without genome")
				} else if dg := diffGenomes(project(wc.Genotype, false), project(gc.Genotype, false), true); len(dg) > 0 {
					d = append(d, p+" champion genome: "+strings.Join(dg, "; "))
				}
			}
		}
	}
	if len(d) == 0 {
		// derived statistics before / after (NaN of an empty series equals NaN)
		bo := observe(back)
		for _, k := range keysOfS(wo) {
			if wo[k] != bo[k] {
				d = append(d, fmt.Sprintf("statistic %s = %s, original %s", k, bo[k], wo[k]))
			}
		}
		res.evals += len(wo)
	}
	return d, solved, unsolved
}

func keysOfS(m map[string]string) []string {
	var k []string
	for x := range m {
		k = append(k, x)
	}
	sort.Strings(k)
	return k
}

var _ = neat.NumTraitParams
var _ = neatmath.NullActivation

package main

import (
	"bufio"
	"bytes"
	"context"
	"encoding/json"
	"flag"
	"fmt"
	"math"
	"math/rand"
	"os"
	"strconv"
	"strings"

	"verifharness/vhu"

	"github.com/yaricom/goNEAT/v4/neat"
	"github.com/yaricom/goNEAT/v4/neat/genetics"
	neatmath "github.com/yaricom/goNEAT/v4/neat/math"
	"github.com/yaricom/goNEAT/v4/neat/network"
)

// C15 on evolved structures (B1 flavour).  Populations are spawned from the XOR start genome and turned over by the real
// sequential epoch executor under random fitness, with structural / toggle / recurrent / trait mutation rates raised and
// all 20 scalar activation types on offer.  Every genome of every generation is round-tripped through the plain and the
// YAML encoding and the organism binary form; every generation's population through Population.Write / ReadPopulation
// and its champion-sized genomes through the fast-solver model file.  The verdict on the real round trips is the
// replayer's bit comparison; in addition every recorded genome is written to a trace - abstract genome (floats interned
// per event), the typed tokens of the real plain text, the projection of the real read-back genome - which TLC validates
// against the writer and reader models of Codec.tla (Trace_Codec).

func init() { commands["evolve"] = evolveCmd }

func evolveOptions(pop int) *neat.Options {
	o := vhu.BaseOptions(pop)
	o.MutateAddNodeProb = 0.25
	o.MutateAddLinkProb = 0.35
	o.RecurOnlyProb = 0.3
	o.MutateToggleEnableProb = 0.15
	o.MutateGeneReenableProb = 0.05
	o.MutateRandomTraitProb = 0.3
	o.MutateLinkTraitProb = 0.3
	o.MutateNodeTraitProb = 0.3
	o.MutateOnlyProb = 0.4
	o.MateOnlyProb = 0.1
	o.CompatThreshold = 4.0
	o.NodeActivators = nil
	o.NodeActivatorsProb = nil
	for t := neatmath.SigmoidPlainActivation; t <= neatmath.StepActivation; t++ {
		o.NodeActivators = append(o.NodeActivators, t)
		o.NodeActivatorsProb = append(o.NodeActivatorsProb, 1.0/21)
	}
	// and a type the user registered (model.go, userScalarType)
	o.NodeActivators = append(o.NodeActivators, userScalarType)
	o.NodeActivatorsProb = append(o.NodeActivatorsProb, 1.0/21)
	return o
}

type interner struct {
	ids map[uint64]int
}

func (in *interner) sym(x float64) int {
	b := math.Float64bits(x)
	if s, ok := in.ids[b]; ok {
		return s
	}
	s := len(in.ids) + 1
	in.ids[b] = s
	return s
}

// abstractOf projects a real (non-modular) genome onto the record of Codec.tla, floats interned (P1).
func abstractOf(p pGenome, hexToSym func(string) int) map[string]interface{} {
	ref := func(id int) int {
		if id < 0 {
			return 0
		}
		return id
	}
	traits, nodes, genes := []interface{}{}, []interface{}{}, []interface{}{}
	for _, t := range p.Traits {
		ps := []int{}
		for _, h := range t.P {
			ps = append(ps, hexToSym(h))
		}
		traits = append(traits, map[string]interface{}{"id": t.Id, "p": ps})
	}
	for _, n := range p.Nodes {
		nodes = append(nodes, map[string]interface{}{"id": n.Id, "role": n.Role, "act": n.Act, "tr": ref(n.Tr)})
	}
	for _, e := range p.Genes {
		genes = append(genes, map[string]interface{}{"inn": e.Inn, "src": ref(e.Src), "dst": ref(e.Dst), "rec": e.Rec, "en": e.En,
			"w": hexToSym(e.W), "mut": hexToSym(e.Mut), "tr": ref(e.Tr)})
	}
	return map[string]interface{}{"id": p.Id, "traits": traits, "nodes": nodes, "genes": genes, "mods": []interface{}{}}
}

// the lexical grammar of the plain format: token types per line keyword (not the meaning or order of the fields)
var lineKinds = map[string]string{"genomestart": "i", "genomeend": "i", "trait": "iffffffff", "node": "iiiis", "gene": "iiifbifb"}

func lexPlain(text string, in *interner) ([]interface{}, error) {
	var lines []interface{}
	for _, ln := range splitLines(text) {
		parts := strings.Split(ln, " ")
		kinds, ok := lineKinds[parts[0]]
		if !ok || len(parts)-1 != len(kinds) {
			return nil, fmt.Errorf("line %q does not have the token signature of the plain format", ln)
		}
		toks := []interface{}{map[string]interface{}{"k": "s", "v": parts[0]}}
		for i, k := range kinds {
			p := parts[i+1]
			switch k {
			case 'i':
				n, err := strconv.Atoi(p)
				if err != nil {
					return nil, fmt.Errorf("line %q: %q is not an integer", ln, p)
				}
				toks = append(toks, map[string]interface{}{"k": "i", "v": n})
			case 'f':
				x, err := strconv.ParseFloat(p, 64)
				if err != nil {
					return nil, fmt.Errorf("line %q: %q is not a float", ln, p)
				}
				toks = append(toks, map[string]interface{}{"k": "f", "v": in.sym(x)})
			case 'b':
				if p != "true" && p != "false" {
					return nil, fmt.Errorf("line %q: %q is not a boolean", ln, p)
				}
				toks = append(toks, map[string]interface{}{"k": "b", "v": p == "true"})
			default:
				toks = append(toks, map[string]interface{}{"k": "s", "v": p})
			}
		}
		lines = append(lines, toks)
	}
	return lines, nil
}

func hexSym(in *interner) func(string) int {
	return func(h string) int {
		b, _ := strconv.ParseUint(h, 16, 64)
		return in.sym(math.Float64frombits(b))
	}
}

func evolveCmd(args []string) int {
	fs := flag.NewFlagSet("evolve", flag.ExitOnError)
	runs := fs.Int("runs", 2, "evolution runs")
	run0 := fs.Int("run0", 0, "index of the first run (replay)")
	epochs := fs.Int("epochs", 15, "epochs per run")
	popSize := fs.Int("pop", 30, "population size")
	out := fs.String("out", "", "report file")
	tracePath := fs.String("trace", "", "NDJSON trace for Trace_Codec")
	maxTrace := fs.Int("maxtrace", 5000, "at most this many trace events")
	_ = fs.Parse(args)
	seed := vhu.EnvSeed()
	rep := &vhu.Report{Command: "evolve", Extra: map[string]interface{}{}}
	var tw *bufio.Writer
	if *tracePath != "" {
		f, err := os.Create(*tracePath)
		if err != nil {
			fmt.Println("vh_codec evolve:", err)
			return 2
		}
		defer f.Close()
		tw = bufio.NewWriterSize(f, 1<<20)
		defer tw.Flush()
	}
	total := *runs * (*epochs + 1) * *popSize
	every := 1
	if total > *maxTrace {
		every = (total + *maxTrace - 1) / *maxTrace
	}
	var genomes, gens, maxGenes, maxNodes, disabled, recurrent, traceEvents, ndiv int
	var divSamples []string
	acts := map[int]bool{}
	seen := map[string]bool{}
	failed := map[string]bool{}
	for run := *run0; run < *run0+*runs; run++ {
		runSeed := seed*1000 + int64(run)
		rand.Seed(runSeed)
		rng := rand.New(rand.NewSource(runSeed ^ 0x5eed))
		opts := evolveOptions(*popSize)
		pop, err := genetics.NewPopulation(vhu.ReadGenomeString(vhu.XorStartGenome, 1), opts)
		if err != nil {
			fmt.Println("vh_codec evolve:", err)
			return 2
		}
		ctx := neat.NewContext(context.Background(), opts)
		ex := &genetics.SequentialPopulationEpochExecutor{}
		where := map[string]interface{}{"run": run, "epochs": *epochs, "pop": *popSize, "seed": seed}
		for e := 0; e <= *epochs; e++ {
			if e > 0 {
				for _, o := range pop.Organisms {
					o.Fitness = 0.01 + 10*rng.Float64()
					// some organisms solve the task: Species.Write marks them in the by-species file
					o.IsWinner = o.Fitness > 9.0
					o.Error = 10 - o.Fitness
				}
				if err := ex.NextEpoch(ctx, e, pop); err != nil {
					fmt.Printf("vh_codec evolve: run %d epoch %d: %v\n", run, e, err)
					return 2
				}
			}
			gens++
			var all []*genetics.Genome
			for oi, o := range pop.Organisms {
				g := o.Genotype
				all = append(all, g)
				genomes++
				p := project(g, true)
				key := fmt.Sprintf("%+v", p)
				if len(g.Genes) > maxGenes {
					maxGenes = len(g.Genes)
				}
				if len(g.Nodes) > maxNodes {
					maxNodes = len(g.Nodes)
				}
				interesting := false
				for _, ge := range p.Genes {
					if !ge.En {
						disabled++
						interesting = true
					}
					if ge.Rec {
						recurrent++
						interesting = true
					}
				}
				for _, n := range p.Nodes {
					acts[n.Act] = true
				}
				if !seen[key] {
					seen[key] = true
					if interesting {
						rep.Nontrivial++
					}
				}
				res := &result{}
				fit := 0.01 + 10*rng.Float64()
				if rng.Intn(4) == 0 {
					fit = math.Float64frombits(uint64(rng.Intn(2046)+1)<<52 | rng.Uint64()&(1<<52-1)) // any finite positive
				}
				if pn := vhu.Guard(func() {
					plainRoundTrip(g, nil, nil, res)
					yamlRoundTrip(g, nil, nil, !hasNegZero(p), res)
					orgRoundTrip(g, fit, e, fit/2, oi%2 == 0, nil, nil, res)
					if oi%5 == 0 {
						fastRoundTrip(g, nil, nil, res)
					}
					if oi%3 == 0 { // the same structure with large node ids and innovation numbers beyond 32 bits
						big := scaledCopy(g)
						plainRoundTrip(big, nil, nil, res)
						yamlRoundTrip(big, nil, nil, !hasNegZero(p), res)
						orgRoundTrip(big, fit, e, 0, false, nil, nil, res)
					}
				}); pn != "" {
					res.fail("codec/evolved/panic", "round trip of an evolved genome panicked: %s", pn)
				}
				rep.Evaluations += res.evals
				for _, f := range res.fails {
					if !failed[f.sig] { // one report per kind of failure and run
						failed[f.sig] = true
						var txt bytes.Buffer
						_ = g.Write(&txt)
						rep.Fail(map[string]interface{}{"evolve": where, "what": fmt.Sprintf("run %d generation %d organism %d: %s\n%s", run, e, oi, f.what, txt.String()),
							"signature": f.sig})
					}
				}
				if tw != nil && (genomes-1)%every == 0 {
					in := &interner{ids: map[uint64]int{}}
					ev := map[string]interface{}{"run": run, "gen": e, "org": oi, "g": abstractOf(project(g, false), hexSym(in))}
					text, werr := writeGenome(g, genetics.PlainGenomeEncoding)
					if werr == nil {
						toks, lerr := lexPlain(text, in)
						back, rerr := readGenome(text, genetics.PlainGenomeEncoding)
						if lerr != nil {
							ndiv++
							if len(divSamples) < 5 {
								divSamples = append(divSamples, lerr.Error())
							}
						} else if rerr == nil {
							ev["plain"] = toks
							ev["back"] = abstractOf(project(back, false), hexSym(in))
							b, _ := json.Marshal(ev)
							_, _ = tw.Write(b)
							_ = tw.WriteByte('\n')
							traceEvents++
						}
					}
				}
			}
			// all organisms of the generation are marshalled before any is unmarshalled, as the parallel executor does
			res := &result{}
			if pn := vhu.Guard(func() {
				var datas [][]byte
				for _, o := range pop.Organisms {
					d, err := o.MarshalBinary()
					if err != nil {
						res.fail("codec/organism/write", "Organism.MarshalBinary failed: %v", err)
						return
					}
					datas = append(datas, d)
				}
				res.evals += len(datas)
				for oi, o := range pop.Organisms {
					b := &genetics.Organism{}
					if err := b.UnmarshalBinary(datas[oi]); err != nil {
						res.fail("codec/organism/read", "Organism.UnmarshalBinary rejects what MarshalBinary wrote: %v", err)
						return
					}
					d := diffGenomes(project(o.Genotype, false), project(b.Genotype, false), true)
					if !sameBits(b.Fitness, o.Fitness) || b.Generation != o.Generation {
						d = append(d, fmt.Sprintf("fitness/generation (%s, %d), original (%s, %d)", vhu.Fstr(b.Fitness), b.Generation, vhu.Fstr(o.Fitness), o.Generation))
					}
					if len(d) > 0 {
						res.fail("codec/organism/roundtrip", "binary forms of a whole generation, unmarshalled after all were marshalled: organism %d is not restored: %s", oi, strings.Join(d, "; "))
						return
					}
				}
			}); pn != "" {
				res.fail("codec/evolved/panic", "marshalling a generation panicked: %s", pn)
			}
			// the generation's population, genome by genome
			if pn := vhu.Guard(func() { popRoundTrip(all, nil, nil, res); bySpeciesRoundTrip(pop, res) }); pn != "" {
				res.fail("codec/evolved/panic", "population round trip panicked: %s", pn)
			}
			rep.Evaluations += res.evals
			for _, f := range res.fails {
				if !failed[f.sig] {
					failed[f.sig] = true
					rep.Fail(map[string]interface{}{"evolve": where, "what": fmt.Sprintf("run %d generation %d: %s", run, e, f.what), "signature": f.sig})
				}
			}
		}
		for k := range failed {
			delete(failed, k)
		}
	}
	rep.Cases = genomes
	rep.Extra["genomes"] = genomes
	rep.Extra["distinct_genomes"] = len(seen)
	rep.Extra["generations"] = gens
	rep.Extra["runs"] = *runs
	rep.Extra["max_genes"] = maxGenes
	rep.Extra["max_nodes"] = maxNodes
	rep.Extra["disabled_genes"] = disabled
	rep.Extra["recurrent_genes"] = recurrent
	rep.Extra["activation_types"] = len(acts)
	rep.Extra["trace_events"] = traceEvents
	rep.Extra["divergences"] = ndiv
	rep.Extra["divergence_samples"] = divSamples
	return rep.Write(*out)
}

// bySpeciesRoundTrip: Population.WriteBySpecies (species and organism comments, organisms in species order) ->
// ReadPopulation restores the same genomes (matched by genome id).
func bySpeciesRoundTrip(pop *genetics.Population, res *result) {
	var buf bytes.Buffer
	res.evals++
	if err := pop.WriteBySpecies(&buf); err != nil {
		res.fail("codec/population/write", "Population.WriteBySpecies failed: %v", err)
		return
	}
	back, err := genetics.ReadPopulation(bytes.NewReader(buf.Bytes()), vhu.BaseOptions(len(pop.Organisms)))
	if err != nil {
		res.fail("codec/population/read", "ReadPopulation rejects what Population.WriteBySpecies wrote: %v", err)
		return
	}
	if len(back.Organisms) != len(pop.Organisms) {
		res.fail("codec/population/roundtrip", "ReadPopulation restored %d genomes of the %d written by species", len(back.Organisms), len(pop.Organisms))
		return
	}
	byId := map[int]*genetics.Genome{}
	for _, o := range back.Organisms {
		byId[o.Genotype.Id] = o.Genotype
	}
	for _, o := range pop.Organisms {
		b, ok := byId[o.Genotype.Id]
		if !ok {
			res.fail("codec/population/roundtrip", "genome %d written by species is not restored", o.Genotype.Id)
			return
		}
		want, got := project(o.Genotype, false), project(b, false)
		if d := diffGenomes(want, got, true); len(d) > 0 {
			sig := "codec/population/roundtrip"
			if firstLineLost(want, got) {
				sig = "population roundtrip first-line"
			}
			res.fail(sig, "population written by species does not restore genome %d: %s", o.Genotype.Id, strings.Join(d, "; "))
			return
		}
	}
}

// scaledCopy rebuilds an evolved genome with node ids * 1000 + 7 and innovation numbers * 1000003 + 2^33 (ids an
// evolution reaches only after a very long run; int32 node ids and int64 innovation numbers as the library declares).
func scaledCopy(g *genetics.Genome) *genetics.Genome {
	traits := make([]*neat.Trait, len(g.Traits))
	tById := map[int]*neat.Trait{}
	for i, t := range g.Traits {
		traits[i] = neat.NewTraitCopy(t)
		tById[t.Id] = traits[i]
	}
	tr := func(t *neat.Trait) *neat.Trait {
		if t == nil {
			return nil
		}
		return tById[t.Id]
	}
	nodes := make([]*network.NNode, len(g.Nodes))
	nById := map[int]*network.NNode{}
	for i, n := range g.Nodes {
		c := network.NewNNodeCopy(n, tr(n.Trait))
		c.Id = n.Id*1000 + 7
		nodes[i] = c
		nById[n.Id] = c
	}
	genes := make([]*genetics.Gene, len(g.Genes))
	for i, e := range g.Genes {
		var link *network.Link
		if t := tr(e.Link.Trait); t != nil {
			link = network.NewLinkWithTrait(t, e.Link.ConnectionWeight, nById[e.Link.InNode.Id], nById[e.Link.OutNode.Id], e.Link.IsRecurrent)
		} else {
			link = network.NewLink(e.Link.ConnectionWeight, nById[e.Link.InNode.Id], nById[e.Link.OutNode.Id], e.Link.IsRecurrent)
		}
		genes[i] = genetics.NewConnectionGene(link, e.InnovationNum*1000003+(int64(1)<<33), e.MutationNum, e.IsEnabled)
	}
	return genetics.NewGenome(g.Id+100000, traits, nodes, genes)
}

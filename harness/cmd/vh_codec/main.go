// Command vh_codec is the Go side of check C15 (everything the library writes it reads back unchanged): it replays the
// structures enumerated by MC_Codec on the real writers and readers of goNEAT (B2) - comparing the real output with
// the token streams / documents the specification assigns and the read-back objects with the originals bit for bit -
// and round-trips the genomes of real evolution runs, recording them for the trace specification Trace_Codec (B1).
package main

import (
	"fmt"
	"os"

	"github.com/yaricom/goNEAT/v4/neat"
)

type command func(args []string) int

var commands = map[string]command{}

func main() {
	_ = neat.InitLogger("error")
	if len(os.Args) < 2 {
		fmt.Fprintln(os.Stderr, "usage: vh_codec <command> [flags]")
		os.Exit(2)
	}
	cmd, ok := commands[os.Args[1]]
	if !ok {
		fmt.Fprintf(os.Stderr, "vh_codec: unknown command %q\n", os.Args[1])
		os.Exit(2)
	}
	os.Exit(cmd(os.Args[2:]))
}

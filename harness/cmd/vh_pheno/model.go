package main

import (
	"fmt"
	"reflect"
	"sort"

	"github.com/yaricom/goNEAT/v4/neat"
	"github.com/yaricom/goNEAT/v4/neat/genetics"
	neatmath "github.com/yaricom/goNEAT/v4/neat/math"
	"github.com/yaricom/goNEAT/v4/neat/network"
)

// The abstract records of spec/Phenotype.tla (DESIGN.md 4.1) as they travel in JSON.

type aNode struct {
	Id   int    `json:"id"`
	Role string `json:"role"`
	Act  int    `json:"act"`
}
type aGene struct {
	Inn int64 `json:"inn"`
	Src int   `json:"src"`
	Dst int   `json:"dst"`
	W   int   `json:"w"`
	Rec bool  `json:"rec"`
	En  bool  `json:"en"`
}
type aIo struct {
	N int `json:"n"`
	W int `json:"w"`
}
type aMod struct {
	Id   int   `json:"id"`
	En   bool  `json:"en"`
	Act  int   `json:"act"`
	Ins  []aIo `json:"ins"`
	Outs []aIo `json:"outs"`
}
type aGenome struct {
	Nodes []aNode `json:"nodes"`
	Genes []aGene `json:"genes"`
	Mods  []aMod  `json:"mods"`
}
type aLink struct {
	Src int  `json:"src"`
	Dst int  `json:"dst"`
	W   int  `json:"w"`
	Rec bool `json:"rec"`
}
type aCtrl struct {
	Id   int   `json:"id"`
	Act  int   `json:"act"`
	Ins  []aIo `json:"ins"`
	Outs []aIo `json:"outs"`
}
type aNet struct {
	Nodes   []aNode `json:"nodes"`
	Inputs  []int   `json:"inputs"`
	Outputs []int   `json:"outputs"`
	Links   []aLink `json:"links"`
	Ctrl    []aCtrl `json:"ctrl"`
}

// ---- symbols of the model <-> values of the implementation (B2 direction) ----

// weight symbol k of the specification is the float64 k/4 (exactly representable, so weights are compared with ==)
func symWeight(k int) float64 { return float64(k) * 0.25 }

var nodeActs = []neatmath.NodeActivationType{neatmath.NullActivation, neatmath.SigmoidSteepenedActivation,
	neatmath.TanhActivation, neatmath.LinearActivation}
var modActs = []neatmath.NodeActivationType{neatmath.MultiplyModuleActivation, neatmath.MaxModuleActivation}

func roleType(role string) (network.NodeNeuronType, error) {
	switch role {
	case "I":
		return network.InputNeuron, nil
	case "B":
		return network.BiasNeuron, nil
	case "O":
		return network.OutputNeuron, nil
	case "H":
		return network.HiddenNeuron, nil
	}
	return 0, fmt.Errorf("unknown role %q", role)
}

func typeRole(t network.NodeNeuronType) string {
	switch t {
	case network.InputNeuron:
		return "I"
	case network.BiasNeuron:
		return "B"
	case network.OutputNeuron:
		return "O"
	case network.HiddenNeuron:
		return "H"
	}
	return fmt.Sprintf("?%d", int(t))
}

// buildGenome constructs the real genome of an abstract one through the public constructors.
func buildGenome(g *aGenome, id int) (*genetics.Genome, error) {
	tr := neat.NewTrait()
	tr.Id = 1
	byId := map[int]*network.NNode{}
	var nodes []*network.NNode
	for _, an := range g.Nodes {
		t, err := roleType(an.Role)
		if err != nil {
			return nil, err
		}
		n := network.NewNNode(an.Id, t)
		n.ActivationType = nodeActs[an.Act]
		n.Trait = tr
		byId[an.Id] = n
		nodes = append(nodes, n)
	}
	var genes []*genetics.Gene
	for _, ag := range g.Genes {
		src, dst := byId[ag.Src], byId[ag.Dst]
		if src == nil || dst == nil {
			return nil, fmt.Errorf("gene %d has an endpoint outside the genome", ag.Inn)
		}
		gn := genetics.NewGeneWithTrait(tr, symWeight(ag.W), src, dst, ag.Rec, ag.Inn, 0)
		gn.IsEnabled = ag.En
		genes = append(genes, gn)
	}
	if len(g.Mods) == 0 {
		return genetics.NewGenome(id, []*neat.Trait{tr}, nodes, genes), nil
	}
	var mods []*genetics.MIMOControlGene
	for k, am := range g.Mods {
		cn := network.NewNNode(am.Id, network.HiddenNeuron)
		cn.ActivationType = modActs[am.Act]
		for _, io := range am.Ins {
			if byId[io.N] == nil {
				return nil, fmt.Errorf("module %d lists a node outside the genome", am.Id)
			}
			cn.AddIncoming(byId[io.N], symWeight(io.W))
		}
		for _, io := range am.Outs {
			if byId[io.N] == nil {
				return nil, fmt.Errorf("module %d lists a node outside the genome", am.Id)
			}
			cn.AddOutgoing(byId[io.N], symWeight(io.W))
		}
		mods = append(mods, genetics.NewMIMOGene(cn, int64(1000+k), 0, am.En))
	}
	return genetics.NewModularGenome(id, []*neat.Trait{tr}, nodes, genes, mods), nil
}

// buildDirect constructs a network with the structure of an abstract network through the network API alone
// (NewNNode / ConnectFrom / AddIncoming / AddOutgoing / NewNetwork / NewModularNetwork): the graph view and the counts
// are then checked independently of Genesis.
func buildDirect(a *aNet, id int) (*network.Network, error) {
	byId := map[int]*network.NNode{}
	var all, ins, outs []*network.NNode
	for _, an := range a.Nodes {
		t, err := roleType(an.Role)
		if err != nil {
			return nil, err
		}
		n := network.NewNNode(an.Id, t)
		n.ActivationType = nodeActs[an.Act]
		byId[an.Id] = n
		all = append(all, n)
	}
	for _, i := range a.Inputs {
		ins = append(ins, byId[i])
	}
	for _, o := range a.Outputs {
		outs = append(outs, byId[o])
	}
	for _, l := range a.Links {
		lk := byId[l.Dst].ConnectFrom(byId[l.Src], symWeight(l.W))
		lk.IsRecurrent = l.Rec
	}
	if len(a.Ctrl) == 0 {
		return network.NewNetwork(ins, outs, all, id), nil
	}
	var ctrl []*network.NNode
	for _, c := range a.Ctrl {
		cn := network.NewNNode(c.Id, network.HiddenNeuron)
		cn.ActivationType = modActs[c.Act]
		for _, io := range c.Ins {
			cn.AddIncoming(byId[io.N], symWeight(io.W))
		}
		for _, io := range c.Outs {
			cn.AddOutgoing(byId[io.N], symWeight(io.W))
		}
		ctrl = append(ctrl, cn)
	}
	return network.NewModularNetwork(ins, outs, all, ctrl, id), nil
}

// ---- projection of a real network onto the abstract record (shared by B2 comparison and B1 logging) ----

type symbols struct {
	weight  func(float64) (int, bool)                     // float64 -> weight symbol
	nodeAct func(neatmath.NodeActivationType) (int, bool) // activation type of an ordinary node -> symbol
	modAct  func(neatmath.NodeActivationType) (int, bool) // activation type of a control node -> symbol
}

// modelSymbols inverts the B2 symbol tables; a value outside the tables is reported, never mapped.
func modelSymbols() symbols {
	inv := func(tab []neatmath.NodeActivationType) func(neatmath.NodeActivationType) (int, bool) {
		return func(t neatmath.NodeActivationType) (int, bool) {
			for k, v := range tab {
				if v == t {
					return k, true
				}
			}
			return int(t) + 1000, false
		}
	}
	return symbols{
		weight: func(x float64) (int, bool) {
			k := int(x * 4)
			if symWeight(k) == x {
				return k, true
			}
			return 0, false
		},
		nodeAct: inv(nodeActs), modAct: inv(modActs),
	}
}

// projectNet reads a network through its exported fields and accessors. Structural defects that make the network
// unreadable as [nodes, inputs, outputs, links, ctrl] (dangling or half-registered links, links to foreign node
// objects) are returned as problems. The input list is observed through LoadSensors (the only exported consumer of
// the unexported `inputs`): the k-th loaded value lands in the k-th input node.
func projectNet(net *network.Network, sy symbols, observeInputs bool) (aNet, []string) {
	var a aNet
	var problems []string
	bad := func(f string, x ...interface{}) { problems = append(problems, fmt.Sprintf(f, x...)) }
	base := net.BaseNodes()
	own := map[*network.NNode]bool{}
	for _, n := range base {
		if own[n] {
			bad("node %d is listed twice in BaseNodes", n.Id)
		}
		own[n] = true
	}
	for _, n := range base {
		act, ok := sy.nodeAct(n.ActivationType)
		if !ok {
			bad("node %d has activation type %d outside the symbol table", n.Id, n.ActivationType)
		}
		a.Nodes = append(a.Nodes, aNode{Id: n.Id, Role: typeRole(n.NeuronType), Act: act})
	}
	a.Outputs = []int{}
	for _, o := range net.Outputs {
		if !own[o] {
			bad("output node %d is not one of the network's own nodes", o.Id)
		}
		a.Outputs = append(a.Outputs, o.Id)
	}
	// links: the union of the Incoming lists; every link must also be in the Outgoing list of its source
	a.Links = []aLink{}
	inSet := map[*network.Link]bool{}
	for _, n := range base {
		for _, l := range n.Incoming {
			if l.OutNode != n {
				bad("a link in Incoming of node %d has OutNode %v", n.Id, l.OutNode)
			}
			if l.InNode == nil || !own[l.InNode] {
				bad("link into node %d starts at an object that is not a node of this network", n.Id)
				continue
			}
			if inSet[l] {
				bad("one link object is listed twice in Incoming lists (node %d)", n.Id)
			}
			inSet[l] = true
			w, ok := sy.weight(l.ConnectionWeight)
			if !ok {
				bad("link %d->%d has weight %v outside the symbol table", l.InNode.Id, n.Id, l.ConnectionWeight)
			}
			a.Links = append(a.Links, aLink{Src: l.InNode.Id, Dst: n.Id, W: w, Rec: l.IsRecurrent})
		}
	}
	nOut := 0
	for _, n := range base {
		for _, l := range n.Outgoing {
			nOut++
			if l.InNode != n {
				bad("a link in Outgoing of node %d has InNode %v", n.Id, l.InNode)
			}
			if !inSet[l] {
				to := -1
				if l.OutNode != nil {
					to = l.OutNode.Id
				}
				bad("link %d->%d is in Outgoing of its source but in no Incoming list of the network", n.Id, to)
			}
		}
	}
	if nOut != len(inSet) {
		bad("%d links in Incoming lists but %d in Outgoing lists", len(inSet), nOut)
	}
	a.Ctrl = []aCtrl{}
	for _, c := range net.ControlNodes() {
		act, ok := sy.modAct(c.ActivationType)
		if !ok {
			bad("control node %d has activation type %d outside the symbol table", c.Id, c.ActivationType)
		}
		ac := aCtrl{Id: c.Id, Act: act, Ins: []aIo{}, Outs: []aIo{}}
		for _, l := range c.Incoming {
			if l.OutNode != c || l.InNode == nil || !own[l.InNode] {
				bad("control node %d: incoming link not wired between a network node and the control node", c.Id)
				continue
			}
			if l.IsRecurrent {
				bad("control node %d: incoming link is flagged recurrent", c.Id)
			}
			w, ok := sy.weight(l.ConnectionWeight)
			if !ok {
				bad("control link %d->%d has weight %v outside the symbol table", l.InNode.Id, c.Id, l.ConnectionWeight)
			}
			ac.Ins = append(ac.Ins, aIo{N: l.InNode.Id, W: w})
		}
		for _, l := range c.Outgoing {
			if l.InNode != c || l.OutNode == nil || !own[l.OutNode] {
				bad("control node %d: outgoing link not wired between the control node and a network node", c.Id)
				continue
			}
			if l.IsRecurrent {
				bad("control node %d: outgoing link is flagged recurrent", c.Id)
			}
			w, ok := sy.weight(l.ConnectionWeight)
			if !ok {
				bad("control link %d->%d has weight %v outside the symbol table", c.Id, l.OutNode.Id, l.ConnectionWeight)
			}
			ac.Outs = append(ac.Outs, aIo{N: l.OutNode.Id, W: w})
		}
		a.Ctrl = append(a.Ctrl, ac)
	}
	// AllNodes = BaseNodes followed by ControlNodes
	alln := net.AllNodes()
	want := append(append([]*network.NNode{}, base...), net.ControlNodes()...)
	if len(alln) != len(want) {
		bad("AllNodes has %d nodes, BaseNodes+ControlNodes %d", len(alln), len(want))
	} else {
		for i := range alln {
			if alln[i] != want[i] {
				bad("AllNodes[%d] is not BaseNodes/ControlNodes[%d]", i, i)
				break
			}
		}
	}
	a.Inputs = []int{}
	if observeInputs {
		k := 0
		for _, n := range base {
			if n.IsSensor() {
				k++
			}
		}
		vals := make([]float64, k)
		for i := range vals {
			vals[i] = float64(i + 1)
		}
		if p := guardErr(func() error { return net.LoadSensors(vals) }); p != "" {
			bad("LoadSensors with one value per sensor node failed: %s", p)
		} else {
			slot := make([]int, k)
			for i := range slot {
				slot[i] = -1
			}
			for _, n := range base {
				v := n.Activation
				if !n.IsSensor() {
					if v != 0 {
						bad("LoadSensors wrote %v into non-sensor node %d", v, n.Id)
					}
					continue
				}
				i := int(v) - 1
				if i < 0 || i >= k || float64(i+1) != v {
					bad("sensor node %d did not receive an input value (is it in the input list?)", n.Id)
					continue
				}
				if slot[i] != -1 {
					bad("input slot %d is taken by nodes %d and %d", i, slot[i], n.Id)
				}
				slot[i] = n.Id
			}
			for _, id := range slot {
				if id != -1 {
					a.Inputs = append(a.Inputs, id)
				}
			}
		}
	}
	return a, problems
}

func guardErr(fn func() error) (msg string) {
	defer func() {
		if r := recover(); r != nil {
			msg = fmt.Sprint("panic: ", r)
		}
	}()
	if err := fn(); err != nil {
		return err.Error()
	}
	return ""
}

// ---- comparison of two abstract networks: what C11 states, and separately what it does not fix (orders) ----

func sortedLinks(l []aLink) []aLink {
	c := append([]aLink{}, l...)
	sort.Slice(c, func(i, j int) bool {
		a, b := c[i], c[j]
		if a.Src != b.Src {
			return a.Src < b.Src
		}
		if a.Dst != b.Dst {
			return a.Dst < b.Dst
		}
		if a.Rec != b.Rec {
			return !a.Rec
		}
		return a.W < b.W
	})
	return c
}
func sortedIo(l []aIo) []aIo {
	c := append([]aIo{}, l...)
	sort.Slice(c, func(i, j int) bool {
		if c[i].N != c[j].N {
			return c[i].N < c[j].N
		}
		return c[i].W < c[j].W
	})
	return c
}
func sortedNodes(l []aNode) []aNode {
	c := append([]aNode{}, l...)
	sort.Slice(c, func(i, j int) bool { return c[i].Id < c[j].Id })
	return c
}
func sortedCtrl(l []aCtrl) []aCtrl {
	c := make([]aCtrl, len(l))
	for i, x := range l {
		c[i] = aCtrl{Id: x.Id, Act: x.Act, Ins: sortedIo(x.Ins), Outs: sortedIo(x.Outs)}
	}
	sort.Slice(c, func(i, j int) bool { return c[i].Id < c[j].Id })
	return c
}

// diffNet lists the differences C11 speaks about (node set with roles and activation types, inputs and outputs in
// order, link multiset, control nodes with their wiring) and, separately, pure order differences of the node, link
// and control lists, which the statement does not fix.
func diffNet(got, want *aNet, withInputs bool) (diffs []string, orderOnly []string) {
	if !reflect.DeepEqual(sortedNodes(got.Nodes), sortedNodes(want.Nodes)) || len(got.Nodes) != len(want.Nodes) {
		diffs = append(diffs, fmt.Sprintf("nodes %v, expected %v", got.Nodes, want.Nodes))
	} else if !reflect.DeepEqual(got.Nodes, want.Nodes) {
		orderOnly = append(orderOnly, "node order")
	}
	if withInputs && fmt.Sprint(got.Inputs) != fmt.Sprint(want.Inputs) {
		diffs = append(diffs, fmt.Sprintf("inputs %v, expected %v", got.Inputs, want.Inputs))
	}
	if fmt.Sprint(got.Outputs) != fmt.Sprint(want.Outputs) {
		diffs = append(diffs, fmt.Sprintf("outputs %v, expected %v", got.Outputs, want.Outputs))
	}
	if !reflect.DeepEqual(sortedLinks(got.Links), sortedLinks(want.Links)) {
		diffs = append(diffs, fmt.Sprintf("links %v, expected one per enabled gene %v", sortedLinks(got.Links), sortedLinks(want.Links)))
	}
	if !reflect.DeepEqual(sortedCtrl(got.Ctrl), sortedCtrl(want.Ctrl)) {
		diffs = append(diffs, fmt.Sprintf("control nodes %v, expected one per enabled module %v", sortedCtrl(got.Ctrl), sortedCtrl(want.Ctrl)))
	} else if len(got.Ctrl) > 0 {
		if a, b := fmt.Sprint(got.Ctrl), fmt.Sprint(want.Ctrl); a != b {
			orderOnly = append(orderOnly, "control node / control link order")
		}
	}
	return
}

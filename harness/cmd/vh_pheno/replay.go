package main

import (
	"encoding/json"
	"flag"
	"fmt"
	"reflect"
	"sort"
	"time"

	"verifharness/vhu"

	"github.com/yaricom/goNEAT/v4/neat/network"
	"gonum.org/v1/gonum/graph"
)

// C11 replay (B2): every genome enumerated by MC_Phenotype is built as a real Genome (NewGenome / NewModularGenome),
// expressed by the real Genesis, and
//   (1) the resulting network - read through BaseNodes / AllNodes / ControlNodes / Outputs / Incoming / Outgoing /
//       LoadSensors - is compared with the network the specification assigns to the genome (Genesis(g));
//   (2) every graph query of network_graph.go (Node, Nodes, From, To, Edge, WeightedEdge, Weight, HasEdgeFromTo,
//       HasEdgeBetween) is asked for every id / every ORDERED pair of ids in 0..dom and compared with the answers
//       the specification emitted, and NodeCount / LinkCount / Complexity with its counts;
//   (3) the same graph queries and counts are asked of a network with the same structure that is built through the
//       network API alone (no genome involved).

type edgeAns struct {
	U   int `json:"u"`
	V   int `json:"v"`
	Any []struct {
		W   int  `json:"w"`
		Rec bool `json:"rec"`
	} `json:"any"` // the links u->v of the network; parallel links (the two recurrence flags) make this longer than 1
}
type queries struct {
	Nodes   []aNode   `json:"nodes"`   // every present id (control nodes with role "C")
	Order   []int     `json:"order"`   // Nodes(): ordinary nodes then control nodes
	From    [][]int   `json:"from"`    // index = id
	To      [][]int   `json:"to"`      // index = id
	Edges   []edgeAns `json:"edges"`   // every ordered pair that has an edge
	Between [][]int   `json:"between"` // every ordered pair with HasEdgeBetween
	Nc      int       `json:"nc"`
	Lc      int       `json:"lc"`
	Cx      int       `json:"cx"`
}
type phenoCase struct {
	G   aGenome `json:"g"`
	Net aNet    `json:"net"`
	Dom int     `json:"dom"`
	Q   queries `json:"q"`
}

func init() { commands["replay-pheno"] = replayPheno }

// isNil also recognises a nil pointer wrapped in a non-nil interface value, so that "no answer" and "typed nil answer"
// are told apart: the latter is reported with the signature "pheno graph-view typed-nil" (C11: absent = nil means == nil).
func isNil(x interface{}) bool {
	if x == nil {
		return true
	}
	v := reflect.ValueOf(x)
	return v.Kind() == reflect.Ptr && v.IsNil()
}

func idsOf(it graph.Nodes) []int {
	var ids []int
	if it == nil {
		return nil
	}
	for it.Next() {
		ids = append(ids, int(it.Node().ID()))
	}
	return ids
}

func sameSet(a, b []int) bool {
	x, y := append([]int{}, a...), append([]int{}, b...)
	sort.Ints(x)
	sort.Ints(y)
	x, y = uniq(x), uniq(y)
	return fmt.Sprint(x) == fmt.Sprint(y)
}
func uniq(s []int) []int {
	var o []int
	for i, v := range s {
		if i == 0 || v != s[i-1] {
			o = append(o, v)
		}
	}
	return o
}
func hasDup(s []int) bool {
	x := append([]int{}, s...)
	sort.Ints(x)
	return len(uniq(x)) != len(x)
}

type graphStats struct {
	queries        int
	typedNil       int  // absent node / edge answered with a nil *NNode / *Link wrapped in a non-nil interface value
	strictNil      bool // -strict-nil: count such an answer as "not nil"
	selfWeightTrue int  // Weight(x,x) = (_, true) on an existing node without a self-loop (gonum's convention)
	nilDiffs       []string
}

func (st *graphStats) typed(what string) {
	st.typedNil++
	if st.strictNil && len(st.nilDiffs) < 3 {
		st.nilDiffs = append(st.nilDiffs, what)
	}
}

// checkGraphView asks every query on every id / ordered id pair of 0..dom and returns the disagreements.
func checkGraphView(net *network.Network, c *phenoCase, st *graphStats) []string {
	var diffs []string
	bad := func(f string, x ...interface{}) {
		if len(diffs) < 12 {
			diffs = append(diffs, fmt.Sprintf(f, x...))
		}
	}
	sy := modelSymbols()
	present := map[int]aNode{}
	for _, n := range c.Q.Nodes {
		present[n.Id] = n
	}
	edges := map[[2]int]*edgeAns{}
	for i := range c.Q.Edges {
		e := &c.Q.Edges[i]
		edges[[2]int{e.U, e.V}] = e
	}
	between := map[[2]int]bool{}
	for _, p := range c.Q.Between {
		between[[2]int{p[0], p[1]}] = true
	}
	// Nodes()
	st.queries++
	it := net.Nodes()
	if it == nil {
		bad("Nodes() returned nil")
	} else {
		if it.Len() != c.Q.Nc {
			bad("Nodes().Len() = %d, expected %d", it.Len(), c.Q.Nc)
		}
		got := idsOf(it)
		if !sameSet(got, c.Q.Order) || len(got) != len(c.Q.Order) {
			bad("Nodes() iterates %v, expected the nodes %v", got, c.Q.Order)
		}
	}
	// The queries are pure: every one is asked twice on the same network instance, the second time in another order
	// (ids descending, the undirected question about a pair BEFORE the directed ones), and must be answered alike.
	for pass := 0; pass < 2; pass++ {
		for ui := 0; ui <= c.Dom; ui++ {
			u := ui
			if pass == 1 {
				u = c.Dom - ui
			}
			want, isThere := present[u]
			// Node(id)
			st.queries++
			n := net.Node(int64(u))
			if isThere {
				if isNil(n) {
					bad("Node(%d) = nil, but the network has this node", u)
				} else if int(n.ID()) != u {
					bad("Node(%d) returned the node with id %d", u, n.ID())
				} else if nn, ok := n.(*network.NNode); ok {
					if want.Role == "C" {
						if a, _ := sy.modAct(nn.ActivationType); a != want.Act {
							bad("Node(%d): control node with activation type %d, expected symbol %d", u, nn.ActivationType, want.Act)
						}
						if !net.IsControlNode(u) {
							bad("IsControlNode(%d) = false for the control node of an enabled module", u)
						}
					} else {
						a, _ := sy.nodeAct(nn.ActivationType)
						if typeRole(nn.NeuronType) != want.Role || a != want.Act {
							bad("Node(%d) = {role %s, act %d}, expected {role %s, act %d}", u, typeRole(nn.NeuronType), a, want.Role, want.Act)
						}
						if net.IsControlNode(u) {
							bad("IsControlNode(%d) = true for an ordinary node", u)
						}
					}
				}
			} else {
				if !isNil(n) {
					bad("Node(%d) returned node %d, but the network has no node %d", u, n.ID(), u)
				} else if n != nil {
					st.typed(fmt.Sprintf("Node(%d) of an absent node is a non-nil graph.Node holding a nil *NNode", u))
				}
			}
			// From(id), To(id)
			for dir, wantIds := range map[string][]int{"From": c.Q.From[u], "To": c.Q.To[u]} {
				st.queries++
				var it graph.Nodes
				if dir == "From" {
					it = net.From(int64(u))
				} else {
					it = net.To(int64(u))
				}
				if it == nil {
					bad("%s(%d) returned nil (must not)", dir, u)
					continue
				}
				got := idsOf(it)
				if !sameSet(got, wantIds) {
					bad("%s(%d) = %v, expected %v", dir, u, got, uniq(append([]int{}, wantIds...)))
				} else if hasDup(got) && !hasDup(wantIds) {
					bad("%s(%d) = %v lists a node twice although no parallel links exist", dir, u, got)
				}
			}
			for vi := 0; vi <= c.Dom; vi++ {
				v := vi
				if pass == 1 {
					v = c.Dom - vi
				}
				ea := edges[[2]int{u, v}]
				okW := func(w float64, rec *bool) bool {
					for _, a := range ea.Any {
						if symWeight(a.W) == w && (rec == nil || *rec == a.Rec) {
							return true
						}
					}
					return false
				}
				// Edge, WeightedEdge
				st.queries += 5
				hb := false
				if pass == 1 {
					hb = net.HasEdgeBetween(int64(u), int64(v))
				}
				e := net.Edge(int64(u), int64(v))
				we := net.WeightedEdge(int64(u), int64(v))
				w, ok := net.Weight(int64(u), int64(v))
				hft := net.HasEdgeFromTo(int64(u), int64(v))
				if pass == 0 {
					hb = net.HasEdgeBetween(int64(u), int64(v))
				}
				if ea == nil {
					if !isNil(e) {
						bad("Edge(%d,%d) returned an edge %d->%d, but the network has no link %d->%d", u, v, e.From().ID(), e.To().ID(), u, v)
					} else if e != nil {
						st.typed(fmt.Sprintf("Edge(%d,%d) of an absent edge is a non-nil graph.Edge holding a nil *Link", u, v))
					}
					if !isNil(we) {
						bad("WeightedEdge(%d,%d) returned an edge of weight %v, but the network has no link %d->%d", u, v, we.Weight(), u, v)
					} else if we != nil {
						st.typed(fmt.Sprintf("WeightedEdge(%d,%d) of an absent edge is a non-nil graph.WeightedEdge holding a nil *Link", u, v))
					}
					if ok {
						if _, there := present[u]; u == v && there {
							// gonum's Weighted contract lets Weight(x,x) answer true for an existing node without a self-loop;
							// C11 does not decide between the two conventions: counted, not alarmed
							st.selfWeightTrue++
						} else {
							bad("Weight(%d,%d) = (%v, true), but the network has no link %d->%d", u, v, w, u, v)
						}
					}
					if hft {
						bad("HasEdgeFromTo(%d,%d) = true, but the network has no link %d->%d", u, v, u, v)
					}
				} else {
					if isNil(e) {
						bad("Edge(%d,%d) = nil, but the network has a link %d->%d", u, v, u, v)
					} else {
						if int(e.From().ID()) != u || int(e.To().ID()) != v {
							bad("Edge(%d,%d) returned the edge %d->%d", u, v, e.From().ID(), e.To().ID())
						}
						if l, isLink := e.(*network.Link); isLink {
							if !okW(l.ConnectionWeight, &l.IsRecurrent) {
								bad("Edge(%d,%d) is a link {w %v, rec %v}; the links %d->%d of the network are %v (w in quarters)", u, v,
									l.ConnectionWeight, l.IsRecurrent, u, v, ea.Any)
							}
						}
					}
					if isNil(we) {
						bad("WeightedEdge(%d,%d) = nil, but the network has a link %d->%d", u, v, u, v)
					} else if !okW(we.Weight(), nil) {
						bad("WeightedEdge(%d,%d).Weight() = %v; the links %d->%d of the network are %v (w in quarters)", u, v, we.Weight(), u, v, ea.Any)
					}
					if !ok {
						bad("Weight(%d,%d) reports no edge, but the network has a link %d->%d", u, v, u, v)
					} else if !okW(w, nil) {
						bad("Weight(%d,%d) = %v; the links %d->%d of the network are %v (w in quarters)", u, v, w, u, v, ea.Any)
					}
					if !hft {
						bad("HasEdgeFromTo(%d,%d) = false, but the network has a link %d->%d", u, v, u, v)
					}
				}
				if hb != between[[2]int{u, v}] {
					bad("HasEdgeBetween(%d,%d) = %v, expected %v", u, v, hb, !hb)
				}
			}
		}
	}
	st.queries += 3
	if got := net.NodeCount(); got != c.Q.Nc {
		bad("NodeCount() = %d, expected %d", got, c.Q.Nc)
	}
	if got := net.LinkCount(); got != c.Q.Lc {
		bad("LinkCount() = %d, expected %d", got, c.Q.Lc)
	}
	if got := net.Complexity(); got != c.Q.Cx {
		bad("Complexity() = %d, expected %d", got, c.Q.Cx)
	}
	return diffs
}

// nontrivial: the genome mixes enabled and disabled genes and has a recurrent-flagged gene, a self-loop or a module.
func (c *phenoCase) nontrivial() bool {
	en, dis, special := false, false, len(c.G.Mods) > 0
	for _, g := range c.G.Genes {
		if g.En {
			en = true
		} else {
			dis = true
		}
		if g.Rec || g.Src == g.Dst {
			special = true
		}
	}
	return en && dis && special
}

func replayPheno(args []string) int {
	fs := flag.NewFlagSet("replay-pheno", flag.ExitOnError)
	cases := fs.String("cases", "", "NDJSON cases printed by MC_Phenotype")
	out := fs.String("out", "", "report file")
	strict := fs.Bool("strict-nil", true, "an absent node / edge must be answered with an interface value that == nil; a nil "+
		"*NNode / *Link wrapped in a non-nil graph.Node / graph.Edge is a failure (false: accept it, as reflection-based asserts do)")
	_ = fs.Parse(args)
	rep := &vhu.Report{Command: "replay-pheno"}
	st := &graphStats{strictNil: *strict}
	orderInfo := map[string]int{}
	sy := modelSymbols()
	err := vhu.ReadNDJSON(*cases, func(line []byte) error {
		var c phenoCase
		if err := json.Unmarshal(line, &c); err != nil {
			return err
		}
		if len(c.Q.From) != c.Dom+1 || len(c.Q.To) != c.Dom+1 {
			return fmt.Errorf("malformed case: from/to do not cover 0..dom")
		}
		raw := json.RawMessage(append([]byte(nil), line...))
		rep.Cases++
		if c.nontrivial() {
			rep.Nontrivial++
			rep.Sample(raw)
		}
		fail := func(kind, what string) {
			rep.Fail(map[string]interface{}{"case": raw, "what": what, "signature": "pheno " + kind})
		}
		done := make(chan struct{})
		go func() {
			defer close(done)
			if p := vhu.Guard(func() {
				// (1) + (2): the real genome, the real Genesis
				g, err := buildGenome(&c.G, 7)
				if err != nil {
					fail("harness", "cannot build the genome: "+err.Error())
					return
				}
				net, err := g.Genesis(7)
				rep.Evaluations++
				if err != nil || net == nil {
					fail("genesis", fmt.Sprintf("Genesis failed on a well-formed genome with %d genes: %v", len(c.G.Genes), err))
					return
				}
				if g.Phenotype != net {
					fail("genesis", "Genesis did not record the network it returned as the genome's Phenotype")
				}
				for i, n := range g.Nodes {
					if n.PhenotypeAnalogue == nil || i >= len(net.BaseNodes()) || n.PhenotypeAnalogue.Id != n.Id {
						fail("genesis", fmt.Sprintf("genome node %d has no / a wrong PhenotypeAnalogue", n.Id))
						break
					}
				}
				if d := checkGraphView(net, &c, st); len(d) > 0 {
					fail("graph-view", fmt.Sprintf("expressed network: %v", d))
				}
				if len(st.nilDiffs) > 0 {
					fail("graph-view typed-nil", fmt.Sprintf("expressed network: %v", st.nilDiffs))
					st.nilDiffs = nil
				}
				got, problems := projectNet(net, sy, true)
				diffs, orderOnly := diffNet(&got, &c.Net, true)
				if len(problems)+len(diffs) > 0 {
					fail("genesis", fmt.Sprintf("the expressed network is not the enabled part of the genome: %v", append(problems, diffs...)))
				}
				for _, o := range orderOnly {
					orderInfo[o]++
				}
				// a second expression of the same genome gives the same network again (and fresh node objects)
				net2, err := g.Genesis(8)
				if err != nil {
					fail("genesis", "second Genesis failed: "+err.Error())
				} else {
					got2, p2 := projectNet(net2, sy, true)
					if d2, _ := diffNet(&got2, &c.Net, true); len(d2)+len(p2) > 0 {
						fail("genesis", fmt.Sprintf("second expression of the same genome differs: %v", append(p2, d2...)))
					}
				}
				// (3) the same structure through the network API
				dn, err := buildDirect(&c.Net, 9)
				if err != nil {
					fail("harness", "cannot build the direct network: "+err.Error())
					return
				}
				rep.Evaluations++
				if d := checkGraphView(dn, &c, st); len(d) > 0 {
					fail("graph-view", fmt.Sprintf("network built through the network API: %v", d))
				}
			}); p != "" {
				fail("panic", "panic: "+p)
			}
		}()
		select {
		case <-done:
		case <-time.After(10 * time.Second):
			fail("hang", "expression / graph queries did not finish within 10s")
			return fmt.Errorf("watchdog")
		}
		return nil
	})
	if err != nil && err.Error() != "watchdog" {
		fmt.Println("vh_pheno replay-pheno:", err)
		return 2
	}
	if rep.Extra == nil {
		rep.Extra = map[string]interface{}{}
	}
	rep.Extra["graph_queries"] = st.queries
	rep.Extra["typed_nil_answers"] = st.typedNil
	rep.Extra["weight_of_node_with_itself_true_without_selfloop"] = st.selfWeightTrue
	rep.Extra["order_only_differences"] = orderInfo
	return rep.Write(*out)
}

package main

import (
	"bufio"
	"context"
	"encoding/json"
	"flag"
	"fmt"
	"math"
	"math/rand"
	"os"

	"verifharness/vhu"

	"github.com/yaricom/goNEAT/v4/neat"
	"github.com/yaricom/goNEAT/v4/neat/genetics"
	neatmath "github.com/yaricom/goNEAT/v4/neat/math"
	"github.com/yaricom/goNEAT/v4/neat/network"
)

// C11, cache clause (B1).  record-cache runs REAL code and writes one observation per organism:
//   * lineage steps: a pool of genomes grown from a start genome; each step duplicates a pool member, applies one real
//     mutator through the verif shims (add-link, add-node, connect-sensors, link weights, toggle-enable, re-enable),
//     wraps the result with the real NewOrganism - exactly what Species.reproduce does - and observes
//     Organism.Phenotype(); then UpdatePhenotype() and observes again; every third step the organism's own genome is
//     mutated once more (add-node / toggle-enable) followed by UpdatePhenotype() and a third observation;
//   * a minimal deterministic lineage step (two-node genome, one gene, add-link);
//   * epochs: a population spawned from the XOR start genome, random positive fitness, real NextEpoch of the
//     sequential and of the parallel executor; after the spawn and after every epoch every organism is observed.
// An observation is the projection of the organism's CURRENT genome and the projection of what Phenotype() returned,
// in the record shapes of spec/Phenotype.tla.  The verdict is Trace_PhenoCache's (TLC), not this program's.

type observation struct {
	Ev     string  `json:"ev"`
	Src    string  `json:"src"` // lineage | minimal | seq | par
	How    string  `json:"how"` // operator (lineage) or "epoch"
	Epoch  int     `json:"epoch"`
	Idx    int     `json:"idx"`
	Cached bool    `json:"cached"` // the organism already held a network before the harness asked for it
	Genome aGenome `json:"genome"`
	Pheno  aNet    `json:"pheno"`
	Err    string  `json:"err"`
}

func init() { commands["record-cache"] = recordCache }

// interning of float64 weights per observation (strategy P1 of DESIGN.md 4.2): equal bit patterns <-> equal symbols
func interner() func(float64) (int, bool) {
	tab := map[uint64]int{}
	return func(x float64) (int, bool) {
		b := math.Float64bits(x)
		if k, ok := tab[b]; ok {
			return k, true
		}
		tab[b] = len(tab) + 1
		return len(tab), true
	}
}

func enumSymbols() symbols {
	id := func(t neatmath.NodeActivationType) (int, bool) { return int(t), true }
	return symbols{weight: interner(), nodeAct: id, modAct: id}
}

func projectGenome(g *genetics.Genome, sy symbols) aGenome {
	a := aGenome{Nodes: []aNode{}, Genes: []aGene{}, Mods: []aMod{}}
	for _, n := range g.Nodes {
		act, _ := sy.nodeAct(n.ActivationType)
		a.Nodes = append(a.Nodes, aNode{Id: n.Id, Role: typeRole(n.NeuronType), Act: act})
	}
	for _, gn := range g.Genes {
		w, _ := sy.weight(gn.Link.ConnectionWeight)
		a.Genes = append(a.Genes, aGene{Inn: gn.InnovationNum, Src: gn.Link.InNode.Id, Dst: gn.Link.OutNode.Id, W: w,
			Rec: gn.Link.IsRecurrent, En: gn.IsEnabled})
	}
	for _, cg := range g.ControlGenes {
		act, _ := sy.modAct(cg.ControlNode.ActivationType)
		m := aMod{Id: cg.ControlNode.Id, En: cg.IsEnabled, Act: act, Ins: []aIo{}, Outs: []aIo{}}
		for _, l := range cg.ControlNode.Incoming {
			w, _ := sy.weight(l.ConnectionWeight)
			m.Ins = append(m.Ins, aIo{N: l.InNode.Id, W: w})
		}
		for _, l := range cg.ControlNode.Outgoing {
			w, _ := sy.weight(l.ConnectionWeight)
			m.Outs = append(m.Outs, aIo{N: l.OutNode.Id, W: w})
		}
		a.Mods = append(a.Mods, m)
	}
	return a
}

type recorder struct {
	w      *bufio.Writer
	n      int
	cached int
	rep    *vhu.Report
}

// observe logs one organism: current genome + whatever Phenotype() hands out.
func (r *recorder) observe(src, how string, epoch, idx int, org *genetics.Organism) {
	sy := enumSymbols()
	ob := observation{Ev: "org", Src: src, How: how, Epoch: epoch, Idx: idx,
		Cached: org.VerifState().HasCachedPhenotype,
		Pheno:  aNet{Nodes: []aNode{}, Inputs: []int{}, Outputs: []int{}, Links: []aLink{}, Ctrl: []aCtrl{}}}
	ob.Genome = projectGenome(org.Genotype, sy)
	var net *network.Network
	if p := guardErr(func() (err error) { net, err = org.Phenotype(); return }); p != "" {
		ob.Err = p
	} else if net == nil {
		ob.Err = "Phenotype() returned nil without an error"
	} else {
		a, problems := projectNet(net, sy, true)
		ob.Pheno = a
		if len(problems) > 0 {
			// an unreadable network cannot be the expression of anything: logged as an error observation
			ob.Err = fmt.Sprint("phenotype is not a readable network: ", problems)
		}
	}
	b, _ := json.Marshal(ob)
	_, _ = r.w.Write(b)
	_ = r.w.WriteByte('\n')
	r.n++
	r.rep.Evaluations++
	if ob.Cached {
		r.cached++
		r.rep.Nontrivial++
		r.rep.Sample(json.RawMessage(b))
	}
}

func cacheOptions(pop int, par bool) *neat.Options {
	o := vhu.BaseOptions(pop)
	o.MutateAddLinkProb = 0.3
	o.MutateAddNodeProb = 0.1
	o.RecurOnlyProb = 0.2
	o.MutateToggleEnableProb = 0.1
	o.MutateGeneReenableProb = 0.05
	o.CompatThreshold = 2.0
	if par {
		o.EpochExecutorType = neat.EpochExecutorTypeParallel
	}
	return o
}

func (r *recorder) epochs(par bool, epochs, popSize int, seed int64) error {
	src := "seq"
	if par {
		src = "par"
	}
	rand.Seed(seed)
	opts := cacheOptions(popSize, par)
	pop, err := genetics.NewPopulation(vhu.ReadGenomeString(vhu.XorStartGenome, 1), opts)
	if err != nil {
		return err
	}
	ctx := neat.NewContext(context.Background(), opts)
	for i, o := range pop.Organisms {
		r.observe(src, "spawn", 0, i, o)
	}
	var ex genetics.PopulationEpochExecutor
	if par {
		ex = &genetics.ParallelPopulationEpochExecutor{}
	} else {
		ex = &genetics.SequentialPopulationEpochExecutor{}
	}
	for e := 1; e <= epochs; e++ {
		for _, o := range pop.Organisms {
			o.Fitness = 0.01 + 10*rand.Float64()
		}
		if err := ex.NextEpoch(ctx, e, pop); err != nil {
			return fmt.Errorf("%s epoch %d: %v", src, e, err)
		}
		for i, o := range pop.Organisms {
			r.observe(src, "epoch", e, i, o)
		}
	}
	return nil
}

var lineageOps = []string{"add-link", "add-link", "add-node", "connect-sensors", "link-weights", "toggle-enable", "re-enable"}

func (r *recorder) lineage(steps int, seed int64) error {
	rand.Seed(seed)
	opts := cacheOptions(10, false)
	start := vhu.ReadGenomeString(vhu.XorStartGenome, 1)
	pop, err := genetics.NewPopulation(start, opts) // innovation registry + node id generator, as in an epoch
	if err != nil {
		return err
	}
	pool := []*genetics.Genome{start}
	for s := 0; s < steps; s++ {
		parent := pool[rand.Intn(len(pool))]
		g, err := parent.VerifDuplicate(100 + s)
		if err != nil {
			return err
		}
		op := lineageOps[rand.Intn(len(lineageOps))]
		if s < 4 {
			op = "add-node" // grow a little first: the start genome has no open node pair
		}
		ok := false
		switch op {
		case "add-link":
			ok, err = g.VerifMutateAddLink(pop, 1+s/10, opts)
		case "add-node":
			ok, err = g.VerifMutateAddNode(pop, pop, opts)
		case "connect-sensors":
			ok, err = g.VerifMutateConnectSensors(pop, opts)
		case "link-weights":
			ok, err = g.VerifMutateLinkWeights(opts.WeightMutPower, 1.0, false)
		case "toggle-enable":
			ok, err = g.VerifMutateToggleEnable(1)
		case "re-enable":
			ok, err = g.VerifMutateGeneReEnable()
		}
		if err != nil {
			continue // a refused mutation produces no organism
		}
		org, err := genetics.NewOrganism(1.0, g, 1+s/10)
		if err != nil {
			return err
		}
		how := op
		if !ok {
			how += "(no change)"
		}
		r.observe("lineage", how, 0, s, org)
		if err := org.UpdatePhenotype(); err == nil {
			r.observe("lineage", how+"/UpdatePhenotype", 0, s, org)
		}
		// the documented use of UpdatePhenotype: the genotype of a living organism changes, the network is regenerated
		if s%3 == 0 {
			var ok2 bool
			how2 := "add-node"
			if s%2 == 0 {
				ok2, err = org.Genotype.VerifMutateAddNode(pop, pop, opts)
			} else {
				how2 = "toggle-enable"
				ok2, err = org.Genotype.VerifMutateToggleEnable(1)
			}
			if err == nil && ok2 {
				if err := org.UpdatePhenotype(); err == nil {
					r.observe("lineage", how+", then "+how2+" on the organism's genome/UpdatePhenotype", 0, s, org)
				}
			}
		}
		// edits of the living organism's genome that keep the node set and the NUMBER of enabled genes (a change of an
		// activation type, of a recurrence flag, an enabled and a disabled gene trading places, a weight): UpdatePhenotype
		// must express the genome as it is now, whatever the network it replaces looked like
		if s%3 != 0 {
			gg := org.Genotype
			how2 := ""
			switch s % 4 {
			case 0, 1:
				var cand []*network.NNode
				for _, n := range gg.Nodes {
					if n.IsNeuron() {
						cand = append(cand, n)
					}
				}
				if len(cand) > 0 {
					n := cand[rand.Intn(len(cand))]
					if n.ActivationType == neatmath.TanhActivation {
						n.ActivationType = neatmath.LinearActivation
					} else {
						n.ActivationType = neatmath.TanhActivation
					}
					how2 = "activation type of a neuron changed"
				}
			case 2:
				var en, dis []*genetics.Gene
				for _, x := range gg.Genes {
					if x.IsEnabled {
						en = append(en, x)
					} else {
						dis = append(dis, x)
					}
				}
				if len(en) > 0 && len(dis) > 0 {
					en[rand.Intn(len(en))].IsEnabled = false
					dis[rand.Intn(len(dis))].IsEnabled = true
					how2 = "an enabled gene disabled and a disabled gene enabled"
				} else if len(en) > 0 {
					en[rand.Intn(len(en))].Link.ConnectionWeight += 1
					how2 = "weight of a gene changed"
				}
			default:
				x := gg.Genes[rand.Intn(len(gg.Genes))]
				twin := false
				for _, y := range gg.Genes {
					twin = twin || (y != x && y.Link.InNode.Id == x.Link.InNode.Id && y.Link.OutNode.Id == x.Link.OutNode.Id)
				}
				if !twin {
					x.Link.IsRecurrent = !x.Link.IsRecurrent
					how2 = "recurrence flag of a gene changed"
				}
			}
			if how2 != "" {
				if err := org.UpdatePhenotype(); err == nil {
					r.observe("lineage", how+", then "+how2+" on the organism's genome/UpdatePhenotype", 0, s, org)
				}
			}
		}
		if len(pool) < 40 {
			pool = append(pool, g)
		} else {
			pool[rand.Intn(len(pool))] = g
		}
		if s%10 == 9 {
			pop.VerifClearInnovations()
		}
	}
	return nil
}

// minimal: genome {input 1, output 2; gene 1->2}; add-link with RecurOnlyProb = 1 can only add the self-loop 2->2;
// the organism wrapped around the mutated genome is observed.
func (r *recorder) minimal(seed int64) error {
	for try := 0; try < 50; try++ {
		rand.Seed(seed + int64(try))
		opts := cacheOptions(2, false)
		opts.RecurOnlyProb = 1.0
		tr := neat.NewTrait()
		tr.Id = 1
		tr.Params = make([]float64, neat.NumTraitParams)
		in := network.NewSensorNode(1, false)
		out := network.NewNNode(2, network.OutputNeuron)
		in.Trait, out.Trait = tr, tr
		g := genetics.NewGenome(1, []*neat.Trait{tr}, []*network.NNode{in, out},
			[]*genetics.Gene{genetics.NewGeneWithTrait(tr, 0.5, in, out, false, 1, 0)})
		reg := genetics.VerifNewEmptyPopulation()
		reg.VerifSetCounters(2, 3)
		ok, err := g.VerifMutateAddLink(reg, 1, opts)
		if err != nil {
			return err
		}
		if !ok {
			continue
		}
		org, err := genetics.NewOrganism(1.0, g, 1)
		if err != nil {
			return err
		}
		r.observe("minimal", "add-link on {1:I, 2:O; 1->2}, then NewOrganism", 0, try, org)
		return nil
	}
	return fmt.Errorf("add-link never succeeded on the minimal genome")
}

func recordCache(args []string) int {
	fs := flag.NewFlagSet("record-cache", flag.ExitOnError)
	out := fs.String("out", "", "NDJSON trace file")
	report := fs.String("report", "", "report file")
	epochs := fs.Int("epochs", 8, "epochs per executor")
	popSize := fs.Int("pop", 30, "population size")
	steps := fs.Int("lineage", 120, "lineage steps")
	runs := fs.Int("runs", 1, "independent runs (seeds) of each source")
	seed := fs.Int64("seed", vhu.EnvSeed(), "random seed")
	_ = fs.Parse(args)
	f, err := os.Create(*out)
	if err != nil {
		fmt.Println("vh_pheno record-cache:", err)
		return 2
	}
	defer f.Close()
	rec := &recorder{w: bufio.NewWriterSize(f, 1<<20), rep: &vhu.Report{Command: "record-cache"}}
	perSrc := map[string]int{}
	step := func(name string, fn func() error) bool {
		before := rec.n
		if p := guardErr(fn); p != "" {
			fmt.Printf("vh_pheno record-cache: %s: %s\n", name, p)
			return false
		}
		perSrc[name] += rec.n - before
		return true
	}
	for k := 0; k < *runs; k++ {
		s := *seed*1000 + int64(k)
		if !step("minimal", func() error { return rec.minimal(s) }) ||
			!step("lineage", func() error { return rec.lineage(*steps, s) }) ||
			!step("seq", func() error { return rec.epochs(false, *epochs, *popSize, s) }) ||
			!step("par", func() error { return rec.epochs(true, *epochs, *popSize, s) }) {
			return 2
		}
	}
	if err := rec.w.Flush(); err != nil {
		fmt.Println("vh_pheno record-cache:", err)
		return 2
	}
	rec.rep.Cases = rec.n
	rec.rep.Extra = map[string]interface{}{"observations": perSrc, "already_cached": rec.cached}
	return rec.rep.Write(*report)
}

// Command vh_pheno is the Go side of check C11 (a phenotype network expresses exactly the enabled part of its genome):
// it replays the genomes enumerated by MC_Phenotype on the real Genome.Genesis and the real graph view (B2) and records
// organism/phenotype pairs of real epochs and lineage steps for the trace specification Trace_PhenoCache (B1).
package main

import (
	"fmt"
	"os"

	"github.com/yaricom/goNEAT/v4/neat"
)

type command func(args []string) int

var commands = map[string]command{}

func main() {
	_ = neat.InitLogger("error")
	if len(os.Args) < 2 {
		fmt.Fprintln(os.Stderr, "usage: vh_pheno <command> [flags]")
		os.Exit(2)
	}
	cmd, ok := commands[os.Args[1]]
	if !ok {
		fmt.Fprintf(os.Stderr, "vh_pheno: unknown command %q\n", os.Args[1])
		os.Exit(2)
	}
	os.Exit(cmd(os.Args[2:]))
}

package main

import (
	"encoding/json"
	"flag"
	"fmt"

	"verifharness/vhu"
)

// replay-validation: one pass over the NDJSON cases of MC_Validation; every case is dispatched on its kind.

type caseHead struct {
	Kind string `json:"kind"`
	Op   string `json:"op"`
	Fam  string `json:"fam"`
}

// failer collects what went wrong in one case.
type failer struct{ bad string }

func (f *failer) fail(format string, a ...interface{}) {
	if len(f.bad) < 1500 {
		f.bad += fmt.Sprintf(format, a...) + "; "
	}
}

type state struct {
	rep      *vhu.Report
	observed map[string]int
	kinds    map[string]int
	matrix   *matrix
	seeds    int
	base     int64
	mut      mutStats
	mimoVia  map[string]int
}

func init() { commands["replay-validation"] = replayValidation }

func replayValidation(args []string) int {
	fs := flag.NewFlagSet("replay-validation", flag.ExitOnError)
	cases := fs.String("cases", "", "NDJSON cases printed by MC_Validation")
	out := fs.String("out", "", "report file")
	seeds := fs.Int("seeds", 24, "seeds per Trait.Mutate case")
	_ = fs.Parse(args)
	st := &state{rep: &vhu.Report{Command: "replay-validation", Extra: map[string]interface{}{}}, observed: map[string]int{},
		kinds: map[string]int{}, matrix: newMatrix(), seeds: *seeds, base: vhu.EnvSeed(), mimoVia: map[string]int{}}
	err := vhu.ReadNDJSON(*cases, func(line []byte) error {
		var h caseHead
		if err := json.Unmarshal(line, &h); err != nil {
			return err
		}
		st.rep.Cases++
		key := h.Kind
		if h.Fam != "" {
			key += "/" + h.Fam
		} else if h.Op != "" {
			key += "/" + h.Op
		}
		st.kinds[key]++
		raw := json.RawMessage(append([]byte(nil), line...))
		f := &failer{}
		nontrivial := false
		var sig string
		var err error
		switch h.Kind {
		case "verify":
			nontrivial, sig, err = st.replayVerify(line, f)
		case "popverify":
			nontrivial, sig, err = st.replayPopVerify(line, f)
		case "trait":
			nontrivial, sig, err = st.replayTrait(line, f)
		case "value":
			nontrivial, sig, err = st.replayValue(line, f)
		default:
			err = fmt.Errorf("unknown case kind %q", h.Kind)
		}
		if err != nil {
			return err
		}
		if nontrivial {
			st.rep.Nontrivial++
			if st.rep.Nontrivial%997 == 1 {
				st.rep.Sample(raw)
			}
		}
		if f.bad != "" {
			st.rep.Fail(map[string]interface{}{"case": raw, "what": key + ": " + f.bad, "signature": "validation " + key + " " + sig})
		}
		return nil
	})
	if err != nil {
		fmt.Println("vh_x08 replay-validation:", err)
		return 2
	}
	st.rep.Extra["cases_by_kind"] = st.kinds
	st.rep.Extra["verify_detection"] = st.matrix.report()
	st.rep.Extra["mutate"] = st.mut.report()
	st.rep.Extra["has_intersection_reached_through"] = st.mimoVia
	if sharedControlGene > 0 {
		st.observed["multipoint crossover hands the parent's MIMO control gene object (not a copy) to the child"] = sharedControlGene
	}
	if len(st.observed) > 0 {
		st.rep.Extra["observations"] = st.observed
	}
	return st.rep.Write(*out)
}

package main

import (
	"encoding/json"
	"fmt"
	"sort"
	"strings"

	"verifharness/vhu"

	"github.com/yaricom/goNEAT/v4/neat"
	"github.com/yaricom/goNEAT/v4/neat/genetics"
	"github.com/yaricom/goNEAT/v4/neat/network"
)

// X08 part 1.  Every genome of MC_Validation is built from real traits / nodes / genes, wired the way the case says
// (own objects, foreign end-point objects, foreign trait objects, one gene object listed twice, padded with hidden nodes
// up to the size limit of the "two disables in a row" rule); Genome.verify() (through the export shim VerifVerify) and
// Population.Verify() of a population holding just that genome are compared with the step at which the specification's
// verify fails; the clauses of WellFormed are evaluated on the REAL objects by the replayer and compared with the
// specification's clause table (so the decoration of the model is what the objects really are).

type vNode struct {
	Id   int    `json:"id"`
	Role string `json:"role"`
	Tr   int    `json:"tr"`
}
type vGene struct {
	Inn int64 `json:"inn"`
	Src int   `json:"src"`
	Dst int   `json:"dst"`
	Rec bool  `json:"rec"`
	En  bool  `json:"en"`
	Tr  int   `json:"tr"`
}
type vGenome struct {
	Traits []int   `json:"traits"`
	Nodes  []vNode `json:"nodes"`
	Genes  []vGene `json:"genes"`
}
type verifyCase struct {
	Fam        string          `json:"fam"`
	G          vGenome         `json:"g"`
	Wiring     string          `json:"wiring"`
	Pad        int             `json:"pad"`
	Verify     string          `json:"verify"`
	Wf         map[string]bool `json:"wf"`
	Wellformed bool            `json:"wellformed"`
}
type popCase struct {
	Genomes []vGenome `json:"genomes"`
	Each    []string  `json:"each"`
	Verify  string    `json:"verify"`
}

func neuronType(role string) network.NodeNeuronType {
	switch role {
	case "I":
		return network.InputNeuron
	case "B":
		return network.BiasNeuron
	case "O":
		return network.OutputNeuron
	}
	return network.HiddenNeuron
}

func newTraitWithId(id int) *neat.Trait {
	t := neat.NewTrait()
	t.Id = id
	return t
}

// buildGenome makes the real genome of a case.
func buildGenome(id int, a *vGenome, wiring string, pad int) *genetics.Genome {
	traits := make([]*neat.Trait, 0, len(a.Traits))
	for _, tid := range a.Traits {
		traits = append(traits, newTraitWithId(tid))
	}
	traitFor := func(tr int) *neat.Trait {
		if tr == 0 {
			return nil
		}
		if wiring != "foreign_trait" {
			for _, t := range traits {
				if t.Id == tr {
					return t
				}
			}
		}
		return newTraitWithId(tr)
	}
	nodes := make([]*network.NNode, 0, len(a.Nodes)+pad)
	for _, n := range a.Nodes {
		nn := network.NewNNode(n.Id, neuronType(n.Role))
		nn.Trait = traitFor(n.Tr)
		nodes = append(nodes, nn)
	}
	for i := 1; i <= pad; i++ {
		nodes = append(nodes, network.NewNNode(1000+i, network.HiddenNeuron))
	}
	nodeFor := func(nid int) *network.NNode {
		if wiring != "foreign_ends" {
			for _, n := range nodes {
				if n.Id == nid {
					return n
				}
			}
		}
		return network.NewNNode(nid, network.HiddenNeuron)
	}
	genes := make([]*genetics.Gene, 0, len(a.Genes))
	for k, x := range a.Genes {
		if wiring == "alias" {
			shared := false
			for j := 0; j < k; j++ {
				if a.Genes[j] == x {
					genes = append(genes, genes[j])
					shared = true
					break
				}
			}
			if shared {
				continue
			}
		}
		gn := genetics.NewConnectionGene(network.NewLinkWithTrait(traitFor(x.Tr), 0, nodeFor(x.Src), nodeFor(x.Dst), x.Rec), x.Inn, 0, x.En)
		genes = append(genes, gn)
	}
	return genetics.NewGenome(id, traits, nodes, genes)
}

// classify maps the result of verify() to the name of the failing step.
func classify(ok bool, err error) string {
	if err == nil {
		if ok {
			return "ok"
		}
		return "false-without-error"
	}
	if ok {
		return "true-with-error: " + err.Error()
	}
	m := strings.ToLower(err.Error())
	switch {
	case strings.Contains(m, "no genes"):
		return "no_genes"
	case strings.Contains(m, "no nodes"):
		return "no_nodes"
	case strings.Contains(m, "no traits"):
		return "no_traits"
	case strings.Contains(m, "missing input node"):
		return "missing_in"
	case strings.Contains(m, "missing output node"):
		return "missing_out"
	case strings.Contains(m, "out of order"):
		return "nodes_order"
	case strings.Contains(m, "duplicate gene"):
		return "dup_gene"
	case strings.Contains(m, "disables in a row"):
		return "two_disabled"
	}
	return "unrecognised error: " + err.Error()
}

// wellFormedOnObjects evaluates the clauses of WellFormed (Genome.tla) on the real objects.
func wellFormedOnObjects(g *genetics.Genome) map[string]bool {
	r := map[string]bool{"genes_ascending": true, "no_duplicate_link": true, "nodes_ascending": true, "endpoints_own": true,
		"trait_refs_own": true, "no_sensor_target": true, "cells_ends": true, "cells_traits": true, "cells_index": true}
	nodeById := map[int]*network.NNode{}
	nodeObj := map[*network.NNode]bool{}
	for i, n := range g.Nodes {
		if i > 0 && !(g.Nodes[i-1].Id < n.Id) {
			r["nodes_ascending"] = false
		}
		if _, seen := nodeById[n.Id]; !seen {
			nodeById[n.Id] = n
		}
		nodeObj[n] = true
		if g.NodeWithId(n.Id) != n {
			r["cells_index"] = false
		}
	}
	traitIds := map[int]bool{}
	traitObj := map[*neat.Trait]bool{}
	for _, t := range g.Traits {
		traitIds[t.Id] = true
		traitObj[t] = true
	}
	refOK := func(t *neat.Trait) {
		if t == nil {
			return
		}
		if t.Id == 0 || !traitIds[t.Id] { // a trait reference with id 0 is the nil reference of the model
			r["trait_refs_own"] = false
		}
		if !traitObj[t] {
			r["cells_traits"] = false
		}
	}
	for _, n := range g.Nodes {
		refOK(n.Trait)
	}
	type key struct {
		s, d int
		rec  bool
	}
	seen := map[key]bool{}
	for i, gn := range g.Genes {
		if i > 0 && !(g.Genes[i-1].InnovationNum < gn.InnovationNum) {
			r["genes_ascending"] = false
		}
		k := key{gn.Link.InNode.Id, gn.Link.OutNode.Id, gn.Link.IsRecurrent}
		if seen[k] {
			r["no_duplicate_link"] = false
		}
		seen[k] = true
		if nodeById[k.s] == nil || nodeById[k.d] == nil {
			r["endpoints_own"] = false
		}
		if d := nodeById[k.d]; d != nil && d.IsSensor() {
			r["no_sensor_target"] = false
		}
		if !nodeObj[gn.Link.InNode] || !nodeObj[gn.Link.OutNode] {
			r["cells_ends"] = false
		}
		refOK(gn.Link.Trait)
	}
	if g.NodeWithId(987654) != nil {
		r["cells_index"] = false
	}
	return r
}

// verifyBoth runs Genome.verify() twice (it must not change its verdict, i.e. not modify the genome) and
// Population.Verify() on a population holding only this genome.
func verifyBoth(g *genetics.Genome, f *failer) (string, int) {
	var ok bool
	var err error
	evals := 0
	if p := vhu.Guard(func() { ok, err = g.VerifVerify() }); p != "" {
		f.fail("verify() panicked: %s", p)
		return "panic", evals
	}
	evals++
	got := classify(ok, err)
	nn, ng, nt := len(g.Nodes), len(g.Genes), len(g.Traits)
	ok2, err2 := g.VerifVerify()
	if again := classify(ok2, err2); again != got {
		f.fail("verify() gives %q and then %q on the same genome", got, again)
	}
	if nn != len(g.Nodes) || ng != len(g.Genes) || nt != len(g.Traits) {
		f.fail("verify() changed the genome")
	}
	pop := genetics.VerifNewEmptyPopulation()
	org, _ := genetics.NewOrganism(0, g, 0)
	pop.Organisms = append(pop.Organisms, org)
	var pok bool
	var perr error
	if p := vhu.Guard(func() { pok, perr = pop.Verify() }); p != "" {
		f.fail("Population.Verify() panicked: %s", p)
		return got, evals
	}
	evals++
	if pg := classify(pok, perr); pg != got {
		f.fail("Population.Verify() of the one-genome population gives %q, Genome.verify() gives %q", pg, got)
	}
	return got, evals
}

func (st *state) replayVerify(line []byte, f *failer) (bool, string, error) {
	var c verifyCase
	if err := json.Unmarshal(line, &c); err != nil {
		return false, "", err
	}
	g := buildGenome(7, &c.G, c.Wiring, c.Pad)
	got, evals := verifyBoth(g, f)
	st.rep.Evaluations += evals
	if got != c.Verify {
		f.fail("verify() = %q, the specification's verify gives %q", got, c.Verify)
	}
	wf := wellFormedOnObjects(g)
	all := true
	for name, want := range c.Wf {
		have, known := wf[name]
		if !known {
			return false, "", fmt.Errorf("clause %q of the specification is unknown to the replayer", name)
		}
		if have != want {
			f.fail("clause %s is %v on the real objects, %v in the specification's decorated genome", name, have, want)
		}
		all = all && want
	}
	if len(wf) != len(c.Wf) {
		return false, "", fmt.Errorf("the specification lists %d clauses, the replayer %d", len(c.Wf), len(wf))
	}
	if all != c.Wellformed {
		f.fail("wellformed = %v but the conjunction of the clauses is %v", c.Wellformed, all)
	}
	st.matrix.add(&c, got)
	// observations
	if c.Wellformed && c.Verify != "ok" {
		st.observed[fmt.Sprintf("verify() rejects a genome on which WellFormed holds: %s", c.Verify)]++
	}
	if !c.Wellformed && c.Verify == "ok" {
		st.observed["verify() accepts a genome on which WellFormed does not hold (see verify_detection for the clauses)"]++
	}
	sig, _ := json.Marshal(c.G)
	nonEmpty := len(c.G.Genes) > 0 && len(c.G.Nodes)+c.Pad > 0 && len(c.G.Traits) > 0
	return (nonEmpty && !c.Wellformed) || (c.Wellformed && c.Verify != "ok"), fmt.Sprintf("%s %s pad %d %s", c.Fam, c.Wiring, c.Pad, sig), nil
}

func (st *state) replayPopVerify(line []byte, f *failer) (bool, string, error) {
	var c popCase
	if err := json.Unmarshal(line, &c); err != nil {
		return false, "", err
	}
	pop := genetics.VerifNewEmptyPopulation()
	for i := range c.Genomes {
		g := buildGenome(i+1, &c.Genomes[i], "own", 0)
		ok, err := g.VerifVerify()
		st.rep.Evaluations++
		if got := classify(ok, err); got != c.Each[i] {
			f.fail("genome %d: verify() = %q, specification gives %q", i+1, got, c.Each[i])
		}
		org, _ := genetics.NewOrganism(float64(i), g, 0)
		pop.Organisms = append(pop.Organisms, org)
	}
	var ok bool
	var err error
	if p := vhu.Guard(func() { ok, err = pop.Verify() }); p != "" {
		f.fail("Population.Verify() panicked: %s", p)
	} else {
		st.rep.Evaluations++
		if got := classify(ok, err); got != c.Verify {
			f.fail("Population.Verify() = %q, specification gives %q (per genome: %v)", got, c.Verify, c.Each)
		}
	}
	bad := 0
	for _, e := range c.Each {
		if e != "ok" {
			bad++
		}
	}
	return bad >= 1 && len(c.Each) >= 2, strings.Join(c.Each, ","), nil
}

// ------------------------------------------------------------------------------------------------ detection matrix
// For every clause of WellFormed: on how many genomes it is broken, on how many it is the ONLY broken clause, and what
// verify() said there.  Computed from the real verdicts (which equal the specification's when nothing failed).
type clauseStat struct {
	Broken        int            `json:"broken"`
	OnlyBroken    int            `json:"only_this_clause_broken"`
	OnlyAccepted  int            `json:"accepted_when_only_this_is_broken"`
	OnlyRejected  map[string]int `json:"rejected_when_only_this_is_broken"`
	OnItsAccount  int            `json:"rejected_by_the_step_that_looks_at_it"`
	Verdict       string         `json:"verdict"`
	BrokenNonEmpt int            `json:"broken_on_non_empty_genomes"`
	AcceptedAny   int            `json:"accepted_although_broken"`
}
type matrix struct {
	clauses  map[string]*clauseStat
	wfReject map[string]int
	wfTotal  int
	wfOK     int
	total    int
	nonWfOK  int
	nonWfTot int
}

// which failing step of verify() speaks about which clause of WellFormed
var stepOfClause = map[string]map[string]bool{
	"endpoints_own":     {"missing_in": true, "missing_out": true},
	"nodes_ascending":   {"nodes_order": true},
	"no_duplicate_link": {"dup_gene": true},
}

func newMatrix() *matrix {
	return &matrix{clauses: map[string]*clauseStat{}, wfReject: map[string]int{}}
}

func (m *matrix) add(c *verifyCase, got string) {
	m.total++
	var broken []string
	for name, ok := range c.Wf {
		if _, have := m.clauses[name]; !have {
			m.clauses[name] = &clauseStat{OnlyRejected: map[string]int{}}
		}
		if !ok {
			broken = append(broken, name)
		}
	}
	nonEmpty := len(c.G.Genes) > 0 && len(c.G.Nodes)+c.Pad > 0 && len(c.G.Traits) > 0
	for _, name := range broken {
		s := m.clauses[name]
		s.Broken++
		if nonEmpty {
			s.BrokenNonEmpt++
			if got == "ok" {
				s.AcceptedAny++
			}
			if stepOfClause[name][got] {
				s.OnItsAccount++
			}
		}
		if len(broken) == 1 && nonEmpty {
			s.OnlyBroken++
			if got == "ok" {
				s.OnlyAccepted++
			} else {
				s.OnlyRejected[got]++
			}
		}
	}
	if c.Wellformed {
		m.wfTotal++
		if got == "ok" {
			m.wfOK++
		} else {
			m.wfReject[got]++
		}
	} else {
		m.nonWfTot++
		if got == "ok" {
			m.nonWfOK++
		}
	}
}

func (m *matrix) report() map[string]interface{} {
	names := make([]string, 0, len(m.clauses))
	for n := range m.clauses {
		names = append(names, n)
	}
	sort.Strings(names)
	out := map[string]interface{}{}
	for _, n := range names {
		s := m.clauses[n]
		switch {
		case s.BrokenNonEmpt == 0:
			s.Verdict = "never broken in scope"
		case s.AcceptedAny == 0:
			s.Verdict = "detected: every non-empty genome with this clause broken is rejected"
		case s.OnItsAccount > 0:
			s.Verdict = "partly detected: verify() has a step for it, yet some genomes with this clause broken are accepted"
		default:
			s.Verdict = "not detected: verify() has no step for it; such genomes are rejected only on account of other clauses"
		}
		out[n] = s
	}
	out["_summary"] = map[string]interface{}{
		"genomes": m.total, "well_formed": m.wfTotal, "well_formed_accepted": m.wfOK, "well_formed_rejected_by": m.wfReject,
		"not_well_formed": m.nonWfTot, "not_well_formed_accepted": m.nonWfOK,
	}
	return out
}

//go:build verif

package main

import (
	"github.com/yaricom/goNEAT/v4/neat/genetics"
	"github.com/yaricom/goNEAT/v4/neat/network"
)

// MIMOControlGene.hasIntersection through the export shim of /repo/neat/genetics/verif_grow_on.go (build tag verif).
var hasIntersectionShim = func(g *genetics.MIMOControlGene, nodes map[int]*network.NNode) bool {
	return g.VerifHasIntersection(nodes)
}

//go:build x08shim

package main

import (
	"github.com/yaricom/goNEAT/v4/neat/genetics"
	"github.com/yaricom/goNEAT/v4/neat/network"
)

// Built with `-tags "verif x08shim"` once harness/shim_x08.go.txt has been added to /repo/neat/genetics.
var hasIntersectionShim = func(g *genetics.MIMOControlGene, nodes map[int]*network.NNode) bool {
	return g.VerifHasIntersection(nodes)
}

//go:build !x08shim

package main

import (
	"github.com/yaricom/goNEAT/v4/neat/genetics"
	"github.com/yaricom/goNEAT/v4/neat/network"
)

// Without the proposed export shim (harness/shim_x08.go.txt) MIMOControlGene.hasIntersection is only observed through
// multipoint crossover.
var hasIntersectionShim func(g *genetics.MIMOControlGene, nodes map[int]*network.NNode) bool

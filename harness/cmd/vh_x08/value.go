package main

import (
	"bytes"
	"encoding/json"
	"errors"
	"fmt"
	"strings"

	"verifharness/vhu"

	"github.com/yaricom/goNEAT/v4/neat"
	"github.com/yaricom/goNEAT/v4/neat/genetics"
	neatmath "github.com/yaricom/goNEAT/v4/neat/math"
	"github.com/yaricom/goNEAT/v4/neat/network"
)

// X08 part 3: constructors and predicates of Gene / MIMOControlGene / Innovation and the enum <-> string tables.
// Weights and mutation numbers are n/8.

type jGene struct {
	Inn int64 `json:"inn"`
	Src int   `json:"src"`
	Dst int   `json:"dst"`
	Rec bool  `json:"rec"`
	En  bool  `json:"en"`
	W   int   `json:"w"`
	Mut int   `json:"mut"`
	Tr  int   `json:"tr"`
}
type jModNode struct {
	Id   int   `json:"id"`
	Ins  []int `json:"ins"`
	Outs []int `json:"outs"`
}
type jMod struct {
	Inn  int64 `json:"inn"`
	Mut  int   `json:"mut"`
	En   bool  `json:"en"`
	Nid  int   `json:"nid"`
	Ins  []int `json:"ins"`
	Outs []int `json:"outs"`
	Io   []int `json:"io"`
}
type jInnov struct {
	K    string `json:"k"`
	Src  int    `json:"src"`
	Dst  int    `json:"dst"`
	Rec  bool   `json:"rec"`
	Inn  int64  `json:"inn"`
	Inn2 int64  `json:"inn2"`
	Node int    `json:"node"`
	Old  int64  `json:"old"`
	W    int    `json:"w"`
	Tr   int    `json:"tr"`
}
type valueArgs struct {
	W        int             `json:"w"`
	Rec      bool            `json:"rec"`
	Inn      int64           `json:"inn"`
	Inn2     int64           `json:"inn2"`
	Mut      int             `json:"mut"`
	Tr       int             `json:"tr"`
	En       bool            `json:"en"`
	Gene     jGene           `json:"gene"`
	SameEnds bool            `json:"same_ends"`
	Node     json.RawMessage `json:"node"`
	Probe    []int           `json:"probe"`
	U        int             `json:"u"`
	V        int             `json:"v"`
	Old      int64           `json:"old"`
}
type valueCase struct {
	Op       string          `json:"op"`
	Args     valueArgs       `json:"args"`
	Gene     json.RawMessage `json:"gene"`
	Hit      bool            `json:"hit"`
	Extra    []int           `json:"extra"`
	Copy     jMod            `json:"copy"`
	CopyHit  bool            `json:"copy_hit"`
	Rec      jInnov          `json:"rec"`
	Code     int             `json:"code"`
	Name     string          `json:"name"`
	NodeType json.RawMessage `json:"node_type"`
	Ok       bool            `json:"ok"`
	Role     string          `json:"role"`
	Sensor   bool            `json:"sensor"`
}

func valTrait(id int) *neat.Trait {
	if id == 0 {
		return nil
	}
	t := neat.NewTrait()
	t.Id = id
	for i := range t.Params {
		t.Params[i] = float64(id*10+i) / 8
	}
	return t
}

// checkGene compares every field of a real gene with the specification's record; the end points and the trait are compared
// as OBJECTS (the specification's src / dst / tr name the objects handed to the constructor).
func checkGene(what string, g *genetics.Gene, want *jGene, nodes map[int]*network.NNode, tr *neat.Trait, f *failer) {
	if g == nil || g.Link == nil {
		f.fail("%s returned %v", what, g)
		return
	}
	if g.InnovationNum != want.Inn {
		f.fail("%s: innovation number %d, specification gives %d", what, g.InnovationNum, want.Inn)
	}
	if g.MutationNum != float64(want.Mut)/8 {
		f.fail("%s: mutation number %s, specification gives %d/8", what, vhu.Fstr(g.MutationNum), want.Mut)
	}
	if g.IsEnabled != want.En {
		f.fail("%s: enabled = %v, specification gives %v", what, g.IsEnabled, want.En)
	}
	if g.Link.ConnectionWeight != float64(want.W)/8 {
		f.fail("%s: weight %s, specification gives %d/8", what, vhu.Fstr(g.Link.ConnectionWeight), want.W)
	}
	if g.Link.IsRecurrent != want.Rec {
		f.fail("%s: recurrent = %v, specification gives %v", what, g.Link.IsRecurrent, want.Rec)
	}
	if g.Link.IsTimeDelayed {
		f.fail("%s: the link is time delayed", what)
	}
	if g.Link.InNode != nodes[want.Src] || g.Link.OutNode != nodes[want.Dst] {
		f.fail("%s: the link does not connect the node objects %d -> %d it was given", what, want.Src, want.Dst)
	}
	if want.Tr == 0 {
		if g.Link.Trait != nil || g.Link.Params != nil {
			f.fail("%s: trait %v / params %v, specification gives no trait", what, g.Link.Trait, g.Link.Params)
		}
	} else {
		if g.Link.Trait != tr || tr == nil || tr.Id != want.Tr {
			f.fail("%s: the link's trait is not the trait object (id %d) it was given", what, want.Tr)
		} else {
			if len(g.Link.Params) != len(tr.Params) {
				f.fail("%s: the link has %d parameters, its trait %d", what, len(g.Link.Params), len(tr.Params))
			} else {
				for i := range tr.Params {
					if g.Link.Params[i] != tr.Params[i] {
						f.fail("%s: link parameter %d differs from the trait's", what, i)
						break
					}
				}
				if len(tr.Params) > 0 {
					old := g.Link.Params[0]
					g.Link.Params[0] = old + 77
					if tr.Params[0] == old+77 {
						f.fail("%s: the link's parameters are the trait's slice, not a copy", what)
					}
					g.Link.Params[0] = old
				}
			}
		}
	}
}

func (st *state) replayValue(line []byte, f *failer) (bool, string, error) {
	var c valueCase
	if err := json.Unmarshal(line, &c); err != nil {
		return false, "", err
	}
	sig := string(line)
	if len(sig) > 300 {
		sig = sig[:300]
	}
	nodes := map[int]*network.NNode{}
	for id := 1; id <= 4; id++ {
		nodes[id] = network.NewNNode(id, network.HiddenNeuron)
	}
	switch c.Op {
	case "NewGene", "NewGeneWithTrait", "NewConnectionGene", "NewGeneCopy":
		var want jGene
		if err := json.Unmarshal(c.Gene, &want); err != nil {
			return false, "", err
		}
		a := c.Args
		var g *genetics.Gene
		var tr *neat.Trait
		p := vhu.Guard(func() {
			switch c.Op {
			case "NewGene":
				g = genetics.NewGene(float64(a.W)/8, nodes[1], nodes[2], a.Rec, a.Inn, float64(a.Mut)/8)
			case "NewGeneWithTrait":
				tr = valTrait(a.Tr)
				g = genetics.NewGeneWithTrait(tr, float64(a.W)/8, nodes[1], nodes[2], a.Rec, a.Inn, float64(a.Mut)/8)
			case "NewConnectionGene":
				tr = valTrait(a.Gene.Tr)
				g = genetics.NewConnectionGene(network.NewLinkWithTrait(tr, float64(a.Gene.W)/8, nodes[a.Gene.Src], nodes[a.Gene.Dst], a.Gene.Rec),
					a.Gene.Inn, float64(a.Gene.Mut)/8, a.Gene.En)
			case "NewGeneCopy":
				srcTr := valTrait(a.Gene.Tr)
				src := genetics.NewConnectionGene(network.NewLinkWithTrait(srcTr, float64(a.Gene.W)/8, nodes[a.Gene.Src], nodes[a.Gene.Dst], a.Gene.Rec),
					a.Gene.Inn, float64(a.Gene.Mut)/8, a.Gene.En)
				tr = valTrait(a.Tr)
				if a.Tr != 0 && a.Tr == a.Gene.Tr {
					tr = srcTr
				}
				in, out := nodes[3], nodes[4]
				if a.SameEnds {
					in, out = nodes[a.Gene.Src], nodes[a.Gene.Dst]
				}
				g = genetics.NewGeneCopy(src, tr, in, out)
				if g == src || (g != nil && g.Link == src.Link) {
					f.fail("NewGeneCopy returned the gene (or the link) it was given")
				}
				checkGene("the source gene after NewGeneCopy", src, &a.Gene, nodes, srcTr, f)
			}
		})
		if p != "" {
			f.fail("%s panicked: %s", c.Op, p)
			return false, sig, nil
		}
		st.rep.Evaluations++
		checkGene(c.Op, g, &want, nodes, tr, f)
		return c.Op == "NewGeneCopy" && (!want.En || want.Rec), sig, nil
	case "mimo":
		return st.replayMimo(&c, f), sig, nil
	case "InnovationForNode", "InnovationForLink", "InnovationForRecurrentLink":
		a := c.Args
		var in *genetics.Innovation
		switch c.Op {
		case "InnovationForNode":
			var nd int
			if err := json.Unmarshal(a.Node, &nd); err != nil {
				return false, "", err
			}
			in = genetics.NewInnovationForNode(a.U, a.V, a.Inn, a.Inn2, nd, a.Old)
		case "InnovationForLink":
			in = genetics.NewInnovationForLink(a.U, a.V, a.Inn, float64(a.W)/8, a.Tr)
		default:
			in = genetics.NewInnovationForRecurrentLink(a.U, a.V, a.Inn, float64(a.W)/8, a.Tr, a.Rec)
		}
		st.rep.Evaluations++
		w := c.Rec
		if in == nil {
			f.fail("%s returned nil", c.Op)
			return false, sig, nil
		}
		if in.InNodeId != w.Src || in.OutNodeId != w.Dst || in.InnovationNum != w.Inn || in.InnovationNum2 != w.Inn2 ||
			in.NewWeight != float64(w.W)/8 || in.NewTraitNum != w.Tr || in.NewNodeId != w.Node || in.OldInnovNum != w.Old ||
			in.IsRecurrent != w.Rec {
			f.fail("%s = %+v, specification gives %+v (weights in eighths)", c.Op, *in, w)
		}
		if k := genetics.VerifInnovationKind(*in); k != c.Code {
			f.fail("%s: innovation type code %d, specification gives %d", c.Op, k, c.Code)
		}
		return true, sig, nil
	case "neuron_name":
		st.rep.Evaluations++
		if got := network.NeuronTypeName(network.NodeNeuronType(c.Code)); got != c.Name {
			f.fail("NeuronTypeName(%d) = %q, specification gives %q", c.Code, got, c.Name)
		}
		var nt int
		if err := json.Unmarshal(c.NodeType, &nt); err != nil {
			return false, "", err
		}
		n := network.NewNNode(1, network.NodeNeuronType(c.Code))
		if int(n.NodeType()) != nt || n.IsSensor() != (nt == 1) {
			f.fail("a node of neuron type %d has node type %d (IsSensor %v), specification gives %d", c.Code, n.NodeType(), n.IsSensor(), nt)
		}
		if c.Code <= 3 && n.IsNeuron() == n.IsSensor() {
			f.fail("a node of neuron type %d is neuron = %v and sensor = %v", c.Code, n.IsNeuron(), n.IsSensor())
		}
		return c.Code <= 4, sig, nil
	case "node_type_name":
		st.rep.Evaluations++
		if got := network.NodeTypeName(network.NodeType(c.Code)); got != c.Name {
			f.fail("NodeTypeName(%d) = %q, specification gives %q", c.Code, got, c.Name)
		}
		return c.Code <= 2, sig, nil
	case "neuron_by_name":
		st.rep.Evaluations++
		got, err := network.NeuronTypeByName(c.Name)
		if (err == nil) != c.Ok || int(got) != c.Code {
			f.fail("NeuronTypeByName(%q) = (%d, %v), specification gives (%d, ok = %v)", c.Name, got, err, c.Code, c.Ok)
		}
		if c.Ok {
			if back := network.NeuronTypeName(got); back != c.Name {
				f.fail("NeuronTypeName(NeuronTypeByName(%q)) = %q", c.Name, back)
			}
		}
		return true, sig, nil
	case "encoding":
		st.rep.Evaluations += 2
		enc := genetics.GenomeEncoding(c.Code)
		r, err := genetics.NewGenomeReader(strings.NewReader(""), enc)
		if (err == nil) != c.Ok {
			f.fail("NewGenomeReader with encoding %d: error %v, specification gives ok = %v", c.Code, err, c.Ok)
		} else if err != nil && !errors.Is(err, genetics.ErrUnsupportedGenomeEncoding) {
			f.fail("NewGenomeReader with encoding %d fails with %q, not ErrUnsupportedGenomeEncoding", c.Code, err)
		} else if err == nil && (r == nil || r.Encoding() != enc) {
			f.fail("the reader for encoding %d reports another encoding", c.Code)
		}
		w, err := genetics.NewGenomeWriter(&bytes.Buffer{}, enc)
		if (err == nil) != c.Ok || (err == nil) != (w != nil) {
			f.fail("NewGenomeWriter with encoding %d: error %v, specification gives ok = %v", c.Code, err, c.Ok)
		} else if err != nil && !errors.Is(err, genetics.ErrUnsupportedGenomeEncoding) {
			f.fail("NewGenomeWriter with encoding %d fails with %q, not ErrUnsupportedGenomeEncoding", c.Code, err)
		}
		if c.Code == 1 && genetics.PlainGenomeEncoding != enc || c.Code == 2 && genetics.YAMLGenomeEncoding != enc {
			f.fail("the encoding constants are not plain = 1, YAML = 2")
		}
		return c.Code <= 3, sig, nil
	case "role":
		st.rep.Evaluations++
		nt := neuronType(c.Role)
		if int(nt) != c.Code {
			f.fail("role %s has neuron type code %d, specification gives %d", c.Role, nt, c.Code)
		}
		var ntName string
		if err := json.Unmarshal(c.NodeType, &ntName); err != nil {
			return false, "", err
		}
		n := network.NewNNode(5, nt)
		if n.Id != 5 || n.NeuronType != nt || n.IsSensor() != c.Sensor || n.IsNeuron() == c.Sensor ||
			network.NodeTypeName(n.NodeType()) != ntName || network.NeuronTypeName(n.NeuronType) != c.Name {
			f.fail("NewNNode(5, %s): sensor %v, node type %q, neuron name %q; specification gives %v, %q, %q", c.Role, n.IsSensor(),
				network.NodeTypeName(n.NodeType()), network.NeuronTypeName(n.NeuronType), c.Sensor, ntName, c.Name)
		}
		if c.Sensor {
			s := network.NewSensorNode(6, c.Role == "B")
			if s.Id != 6 || s.NeuronType != nt || !s.IsSensor() || s.ActivationType != neatmath.NullActivation {
				f.fail("NewSensorNode(6, bias = %v) is not a %s sensor with the null activation", c.Role == "B", c.Name)
			}
		}
		return true, sig, nil
	}
	return false, "", fmt.Errorf("unknown value op %q", c.Op)
}

// ------------------------------------------------------------------------------------------------ MIMO control genes
func controlNode(id int, ins, outs []int, pool map[int]*network.NNode) *network.NNode {
	cn := network.NewNNode(id, network.HiddenNeuron)
	cn.ActivationType = neatmath.MultiplyModuleActivation
	for _, i := range ins {
		cn.Incoming = append(cn.Incoming, network.NewLink(1, pool[i], cn, false))
	}
	for _, o := range outs {
		cn.Outgoing = append(cn.Outgoing, network.NewLink(1, cn, pool[o], false))
	}
	return cn
}

// intersectsThroughMating observes MIMOControlGene.hasIntersection (unexported) through the public effect it has:
// multipoint crossover hands a parent's control gene to the child iff the gene has an IO node among the child's nodes,
// which are the parents' sensors and outputs (1, 2) plus the end points of the inherited connection genes (probe).
func intersectsThroughMating(mk func(pool map[int]*network.NNode) *genetics.MIMOControlGene, probe []int) (hit bool, ok bool, problem string, extra []int) {
	var parentGene *genetics.MIMOControlGene
	in := map[int]bool{}
	for _, p := range probe {
		in[p] = true
		if p > 6 {
			return false, false, "", nil
		}
	}
	if !in[1] || !in[2] {
		return false, false, "", nil
	}
	parent := func(withModule bool) *genetics.Genome {
		pool := map[int]*network.NNode{1: network.NewSensorNode(1, false), 2: network.NewNNode(2, network.OutputNeuron)}
		nodes := []*network.NNode{pool[1], pool[2]}
		for id := 3; id <= 6; id++ {
			pool[id] = network.NewNNode(id, network.HiddenNeuron)
			nodes = append(nodes, pool[id])
		}
		genes := []*genetics.Gene{genetics.NewGene(1, pool[1], pool[2], false, 1, 0)}
		for id := 3; id <= 6; id++ {
			if in[id] {
				genes = append(genes, genetics.NewGene(1, pool[1], pool[id], false, int64(10+id), 0))
			}
		}
		traits := []*neat.Trait{newTraitWithId(1)}
		if !withModule {
			return genetics.NewGenome(2, traits, nodes, genes)
		}
		parentGene = mk(pool)
		return genetics.NewModularGenome(1, traits, nodes, genes, []*genetics.MIMOControlGene{parentGene})
	}
	a, b := parent(true), parent(false)
	var child *genetics.Genome
	var err error
	if p := vhu.Guard(func() { child, err = a.VerifMateMultipoint(b, 3, 1, 1) }); p != "" {
		return false, true, "multipoint crossover of the probe genomes panicked: " + p, nil
	}
	if err != nil || child == nil {
		return false, true, fmt.Sprintf("multipoint crossover of the probe genomes failed: %v", err), nil
	}
	if len(child.ControlGenes) > 0 && child.ControlGenes[0] == parentGene {
		sharedControlGene++
	}
	// the child's own nodes are the probe nodes in ascending id order; whatever follows was appended for the control gene
	own := 0
	for own < len(child.Nodes) && own < len(probe) && in[child.Nodes[own].Id] {
		own++
	}
	for _, n := range child.Nodes[own:] {
		extra = append(extra, n.Id)
	}
	return len(child.ControlGenes) > 0, true, "", extra
}

// sharedControlGene counts crossovers whose child holds the parent's control gene OBJECT (observation, not judged here).
var sharedControlGene int

func eqInts(a, b []int) bool {
	if len(a) != len(b) {
		return false
	}
	for i := range a {
		if a[i] != b[i] {
			return false
		}
	}
	return true
}

func (st *state) replayMimo(c *valueCase, f *failer) bool {
	var nd jModNode
	if err := json.Unmarshal(c.Args.Node, &nd); err != nil {
		f.fail("bad case: %v", err)
		return false
	}
	var want jMod
	if err := json.Unmarshal(c.Gene, &want); err != nil {
		f.fail("bad case: %v", err)
		return false
	}
	pool := map[int]*network.NNode{}
	for id := 1; id <= 7; id++ {
		pool[id] = network.NewNNode(id, network.HiddenNeuron)
	}
	check := func(what string, g *genetics.MIMOControlGene, cn *network.NNode, w *jMod) {
		if g == nil {
			f.fail("%s returned nil", what)
			return
		}
		if g.InnovationNum != w.Inn || g.MutationNum != float64(w.Mut)/8 || g.IsEnabled != w.En {
			f.fail("%s: innovation %d mutation %s enabled %v, specification gives %d, %d/8, %v", what, g.InnovationNum,
				vhu.Fstr(g.MutationNum), g.IsEnabled, w.Inn, w.Mut, w.En)
		}
		if g.ControlNode != cn || cn.Id != w.Nid {
			f.fail("%s: the control node is not the node object (id %d) it was given", what, w.Nid)
		}
		var ins, outs []int
		for _, l := range g.ControlNode.Incoming {
			ins = append(ins, l.InNode.Id)
		}
		for _, l := range g.ControlNode.Outgoing {
			outs = append(outs, l.OutNode.Id)
		}
		if !eqInts(ins, w.Ins) || !eqInts(outs, w.Outs) || !eqInts(append(append([]int{}, w.Ins...), w.Outs...), w.Io) {
			f.fail("%s: inputs %v outputs %v, specification gives %v / %v (io %v)", what, ins, outs, w.Ins, w.Outs, w.Io)
		}
	}
	cn := controlNode(nd.Id, nd.Ins, nd.Outs, pool)
	var g, cp *genetics.MIMOControlGene
	cn2 := controlNode(c.Copy.Nid, c.Copy.Ins, c.Copy.Outs, pool)
	if p := vhu.Guard(func() {
		g = genetics.NewMIMOGene(cn, c.Args.Inn, float64(c.Args.Mut)/8, c.Args.En)
		cp = genetics.NewMIMOGeneCopy(g, cn2)
	}); p != "" {
		f.fail("NewMIMOGene / NewMIMOGeneCopy panicked: %s", p)
		return false
	}
	st.rep.Evaluations += 2
	check("NewMIMOGene", g, cn, &want)
	check("NewMIMOGeneCopy", cp, cn2, &c.Copy)
	if cp == g {
		f.fail("NewMIMOGeneCopy returned the gene it was given")
	}
	// hasIntersection: directly when the harness is built with the proposed shim, otherwise through crossover
	probe := map[int]*network.NNode{}
	for _, id := range c.Args.Probe {
		probe[id] = network.NewNNode(id, network.HiddenNeuron) // the predicate goes by id, not by object
	}
	if hasIntersectionShim != nil {
		st.mimoVia["shim VerifHasIntersection"]++
		if got := hasIntersectionShim(g, probe); got != c.Hit {
			f.fail("hasIntersection(%v) = %v on io %v, specification gives %v", c.Args.Probe, got, want.Io, c.Hit)
		}
		if got := hasIntersectionShim(cp, probe); got != c.CopyHit {
			f.fail("copy: hasIntersection(%v) = %v on io %v, specification gives %v", c.Args.Probe, got, c.Copy.Io, c.CopyHit)
		}
		st.rep.Evaluations += 2
	}
	hit, ok, problem, extra := intersectsThroughMating(func(pl map[int]*network.NNode) *genetics.MIMOControlGene {
		return genetics.NewMIMOGene(controlNode(nd.Id, nd.Ins, nd.Outs, pl), c.Args.Inn, float64(c.Args.Mut)/8, c.Args.En)
	}, c.Args.Probe)
	if problem != "" {
		f.fail("%s", problem)
	} else if ok {
		st.mimoVia["multipoint crossover (probe sets containing the sensor and the output)"]++
		st.rep.Evaluations++
		if hit != c.Hit {
			f.fail("crossover hands the control gene (io %v) to a child with nodes %v: %v, hasIntersection of the specification gives %v",
				want.Io, c.Args.Probe, hit, c.Hit)
		} else if !eqInts(extra, c.Extra) {
			f.fail("crossover appends the nodes %v for the inherited control gene (io %v, child nodes %v), the specification's IO order gives %v",
				extra, want.Io, c.Args.Probe, c.Extra)
		}
		hit2, _, problem2, _ := intersectsThroughMating(func(pl map[int]*network.NNode) *genetics.MIMOControlGene {
			first := genetics.NewMIMOGene(controlNode(nd.Id, nd.Ins, nd.Outs, pl), c.Args.Inn, float64(c.Args.Mut)/8, c.Args.En)
			return genetics.NewMIMOGeneCopy(first, controlNode(c.Copy.Nid, c.Copy.Ins, c.Copy.Outs, pl))
		}, c.Args.Probe)
		if problem2 != "" {
			f.fail("%s", problem2)
		} else if hit2 != c.CopyHit {
			f.fail("crossover hands the COPIED control gene (io %v) to a child with nodes %v: %v, specification gives %v",
				c.Copy.Io, c.Args.Probe, hit2, c.CopyHit)
		}
	} else {
		st.mimoVia["not reachable without the shim (probe set without sensor / output or outside the genome)"]++
	}
	return len(want.Io) > 0 && len(c.Args.Probe) > 0
}

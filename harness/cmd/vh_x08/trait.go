package main

import (
	"encoding/json"
	"errors"
	"fmt"
	"hash/fnv"
	"math"
	"math/big"
	"math/rand"

	"verifharness/vhu"

	"github.com/yaricom/goNEAT/v4/neat"
)

// X08 part 2: neat.Trait.  Parameters are n/8 (exact in float64), means are n/16, so every comparison is ==.
// Trait.Mutate draws from the global source, which cannot be stubbed: as in X01 / X05 the draws are LEARNED - the source
// is seeded, the stream is read the way the specification says Mutate consumes it (per parameter one uniform u; if
// u > prob one integer for the sign and one uniform m), seeded again and the real Mutate is called.  The expected value
// of a parameter is the specification's MutElem evaluated on the learned draws in exact rational arithmetic (math/big;
// power is a power of two, so the only rounding of the code is the final addition and the expected float64 is the
// rational rounded to nearest); it is also bracketed by the TLC-generated row for the grid points m = j/8 around the real
// m.  The next value of the stream afterwards must be the one the specification predicts (number of draws consumed).

type jTrait struct {
	Id int   `json:"id"`
	P  []int `json:"p"`
}
type traitCase struct {
	Op     string  `json:"op"`
	T      jTrait  `json:"t"`
	T1     jTrait  `json:"t1"`
	T2     jTrait  `json:"t2"`
	Id     int     `json:"id"`
	P      []int   `json:"p"`
	P16    []int   `json:"p16"`
	Ok     bool    `json:"ok"`
	Power2 int     `json:"power2"`
	Prob8  int     `json:"prob8"`
	Plus   [][]int `json:"plus"`
	Minus  [][]int `json:"minus"`
	Str    string  `json:"str"`
}

type mutStats struct {
	calls, params, mutated, clamped, kept, bracketed int
}

func (m *mutStats) report() map[string]int {
	return map[string]int{"calls": m.calls, "parameters": m.params, "perturbed": m.mutated, "clamped_to_zero": m.clamped,
		"left_alone": m.kept, "bracketed_by_grid_row": m.bracketed}
}

func mkTrait(t jTrait) *neat.Trait {
	tr := &neat.Trait{Id: t.Id, Params: make([]float64, len(t.P))}
	for i, n := range t.P {
		tr.Params[i] = float64(n) / 8
	}
	return tr
}

func sameParams(got []float64, want []int, den float64) bool {
	if len(got) != len(want) {
		return false
	}
	for i := range got {
		if got[i]*den != float64(want[i]) || math.Signbit(got[i]) != (want[i] < 0) {
			return false
		}
	}
	return true
}

// independent reports whether writing into a's parameters leaves b's alone (and restores a).
func independent(a, b *neat.Trait) bool {
	if len(a.Params) == 0 || len(b.Params) == 0 {
		return true
	}
	ok := true
	for i := range a.Params {
		if i >= len(b.Params) {
			break
		}
		old, other := a.Params[i], b.Params[i]
		a.Params[i] = old + 1024.5
		if b.Params[i] != other {
			ok = false
		}
		a.Params[i] = old
	}
	return ok
}

func (st *state) replayTrait(line []byte, f *failer) (bool, string, error) {
	var c traitCase
	if err := json.Unmarshal(line, &c); err != nil {
		return false, "", err
	}
	switch c.Op {
	case "new":
		t := neat.NewTrait()
		st.rep.Evaluations++
		if t == nil || t.Id != c.Id || !sameParams(t.Params, c.P, 8) {
			f.fail("NewTrait() = %v, specification gives id %d params %v/8", t, c.Id, c.P)
		}
		if neat.NumTraitParams != len(c.P) {
			f.fail("NumTraitParams = %d, specification says %d", neat.NumTraitParams, len(c.P))
		}
		t2 := neat.NewTrait()
		if !independent(t, t2) {
			f.fail("two NewTrait() share their parameters")
		}
		return true, "new", nil
	case "copy":
		t := mkTrait(c.T)
		var cp *neat.Trait
		if p := vhu.Guard(func() { cp = neat.NewTraitCopy(t) }); p != "" {
			f.fail("NewTraitCopy panicked: %s", p)
			return false, fmt.Sprint(c.T), nil
		}
		st.rep.Evaluations++
		if cp == nil || cp == t || cp.Id != c.Id || !sameParams(cp.Params, c.P, 8) {
			f.fail("NewTraitCopy = %v, specification gives id %d params %v/8", cp, c.Id, c.P)
		} else {
			if !independent(cp, t) || !independent(t, cp) {
				f.fail("the copy shares its parameters with the original")
			}
			if !sameParams(t.Params, c.T.P, 8) || t.Id != c.T.Id {
				f.fail("NewTraitCopy modified the original")
			}
		}
		return len(c.T.P) > 0, fmt.Sprint(c.T), nil
	case "avg":
		t1, t2 := mkTrait(c.T1), mkTrait(c.T2)
		var got *neat.Trait
		var err error
		if p := vhu.Guard(func() { got, err = neat.NewTraitAvrg(t1, t2) }); p != "" {
			f.fail("NewTraitAvrg panicked: %s", p)
			return false, fmt.Sprint(c.T1, c.T2), nil
		}
		st.rep.Evaluations++
		if c.Ok {
			if err != nil || got == nil {
				f.fail("NewTraitAvrg failed (%v), specification gives id %d params %v/16", err, c.Id, c.P16)
			} else {
				if got.Id != c.Id || !sameParams(got.Params, c.P16, 16) {
					f.fail("NewTraitAvrg = id %d %v, specification gives id %d params %v/16", got.Id, got.Params, c.Id, c.P16)
				}
				if got == t1 || got == t2 || !independent(got, t1) || !independent(got, t2) {
					f.fail("the average shares its parameters with an operand")
				}
			}
		} else {
			if err == nil {
				f.fail("NewTraitAvrg of %d and %d parameters succeeded, specification gives an error", len(c.T1.P), len(c.T2.P))
			} else if !errors.Is(err, neat.ErrTraitsParametersCountMismatch) {
				f.fail("NewTraitAvrg error is %q, not ErrTraitsParametersCountMismatch", err)
			}
			if got != nil {
				f.fail("NewTraitAvrg returned a trait together with its error")
			}
		}
		if !sameParams(t1.Params, c.T1.P, 8) || !sameParams(t2.Params, c.T2.P, 8) || t1.Id != c.T1.Id || t2.Id != c.T2.Id {
			f.fail("NewTraitAvrg modified an operand")
		}
		differ := false
		for i := range c.T1.P {
			differ = differ || (i < len(c.T2.P) && c.T1.P[i] != c.T2.P[i])
		}
		return !c.Ok || differ, fmt.Sprint(c.T1, c.T2), nil
	case "mutate":
		nt := st.replayMutate(&c, line, f)
		return nt, fmt.Sprint(c.T, c.Power2, c.Prob8), nil
	case "string":
		t := mkTrait(c.T)
		got := t.String()
		st.rep.Evaluations++
		if got != c.Str {
			f.fail("String() = %q, specification gives %q", got, c.Str)
		}
		return len(c.T.P) > 0, fmt.Sprint(c.T), nil
	}
	return false, "", fmt.Errorf("unknown trait op %q", c.Op)
}

type learned struct {
	mutated bool
	u, m    float64
	sign    int
}

func (st *state) replayMutate(c *traitCase, line []byte, f *failer) bool {
	// the seeds depend on the case itself (not on its position in the file): a recorded case replays with the same draws
	h := fnv.New32a()
	_, _ = h.Write(line)
	caseKey := int64(h.Sum32() % 1_000_000)
	power := float64(c.Power2) / 2
	prob := float64(c.Prob8) / 8
	n := len(c.T.P)
	sawBoth := false
	for k := 0; k < st.seeds; k++ {
		seed := st.base*1_000_003 + caseKey*131 + int64(k)
		// learn the draws
		rand.Seed(seed)
		ds := make([]learned, n)
		for i := 0; i < n; i++ {
			ds[i].u = rand.Float64()
			if ds[i].u > prob {
				ds[i].mutated = true
				ds[i].sign = 1
				if rand.Int()%2 == 0 {
					ds[i].sign = -1
				}
				ds[i].m = rand.Float64()
			}
		}
		sentinel := rand.Float64()
		// run the real thing on the same stream
		t := mkTrait(c.T)
		var next float64
		rand.Seed(seed)
		if p := vhu.Guard(func() { t.Mutate(power, prob); next = rand.Float64() }); p != "" {
			f.fail("Mutate panicked: %s", p)
			return false
		}
		st.rep.Evaluations++
		st.mut.calls++
		if t.Id != c.T.Id || len(t.Params) != n {
			f.fail("seed %d: Mutate changed the id or the number of parameters", seed)
			continue
		}
		if next != sentinel {
			f.fail("seed %d: after Mutate the stream continues with %s, the specification's draw count predicts %s", seed, vhu.Fstr(next), vhu.Fstr(sentinel))
		}
		nm := 0
		for i := 0; i < n; i++ {
			st.mut.params++
			p0 := big.NewRat(int64(c.T.P[i]), 8)
			want := new(big.Rat).Set(p0)
			if ds[i].mutated {
				nm++
				st.mut.mutated++
				delta := new(big.Rat).SetFloat64(ds[i].m)
				delta.Mul(delta, big.NewRat(int64(ds[i].sign)*int64(c.Power2), 2))
				want.Add(want, delta)
				if want.Sign() < 0 {
					want.SetInt64(0)
					st.mut.clamped++
				}
			} else {
				st.mut.kept++
			}
			wf, _ := want.Float64()
			if t.Params[i] != wf || (wf == 0 && math.Signbit(t.Params[i])) {
				f.fail("seed %d parameter %d: %d/8 with draws u=%s sign=%d m=%s power %s prob %s became %s, specification gives %s",
					seed, i, c.T.P[i], vhu.Fstr(ds[i].u), ds[i].sign, vhu.Fstr(ds[i].m), vhu.Fstr(power), vhu.Fstr(prob), vhu.Fstr(t.Params[i]), vhu.Fstr(wf))
				continue
			}
			if ds[i].mutated {
				row := c.Plus[i]
				if ds[i].sign < 0 {
					row = c.Minus[i]
				}
				j := int(ds[i].m * 8)
				lo, hi := float64(row[j])/16, float64(row[j+1])/16
				if lo > hi {
					lo, hi = hi, lo
				}
				if t.Params[i] < lo || t.Params[i] > hi {
					f.fail("seed %d parameter %d: result %s is outside [%s, %s], the specification's row between m = %d/8 and %d/8",
						seed, i, vhu.Fstr(t.Params[i]), vhu.Fstr(lo), vhu.Fstr(hi), j, j+1)
				} else {
					st.mut.bracketed++
				}
			}
		}
		if nm > 0 && nm < n {
			sawBoth = true
		}
		if n > 0 && c.Prob8 > 0 && c.Prob8 < 8 {
			// recorded once per call: the sense of the probability
			if nm > 0 {
				st.observed["Trait.Mutate perturbs a parameter when the draw is GREATER than traitParamMutProb: the option is the probability of leaving a parameter alone (prob = 1 never mutates, prob = 0 always)"]++
			}
		}
	}
	return sawBoth
}

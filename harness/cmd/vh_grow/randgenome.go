package main

import (
	"encoding/json"
	"flag"
	"fmt"
	"math/rand"

	"verifharness/vhu"

	"github.com/yaricom/goNEAT/v4/neat"
	"github.com/yaricom/goNEAT/v4/neat/genetics"
	neatmath "github.com/yaricom/goNEAT/v4/neat/math"
	"github.com/yaricom/goNEAT/v4/neat/network"
)

// X05 replay.  The connection matrix of newGenomeRand is random and math/rand cannot be stubbed: as in X01 the draws are
// *learned*.  The global source is seeded and the stream is read the way the specification says the construction
// consumes it (one uniform per cell; one roulette draw per hidden node when there are two activators; per created gene one
// integer for the sign and one uniform for the magnitude; created genes = cells whose bit is set AND that the TLC-generated
// cell table marks eligible); the source is seeded again and the real constructor is called.  Nodes, genes (innovation
// number, ends, recurrence flag, weight, mutation number), trait wiring and the next value of the stream are compared.

type rgParams struct {
	In  int  `json:"nin"`
	Out int  `json:"nout"`
	Mh  int  `json:"mh"`
	N   int  `json:"n"`
	Rec bool `json:"rec"`
}
type rgGene struct {
	Inn int64 `json:"inn"`
	Src int   `json:"src"`
	Dst int   `json:"dst"`
	Rec bool  `json:"rec"`
}
type rgCase struct {
	Kind  string   `json:"kind"`
	P     rgParams `json:"p"`
	Total int      `json:"total"`
	Nodes []struct {
		Id   int    `json:"id"`
		Role string `json:"role"`
	} `json:"nodes"`
	Cells []struct {
		C        int    `json:"c"`
		Eligible bool   `json:"eligible"`
		Gene     rgGene `json:"gene"`
	} `json:"cells"`
}

func init() { commands["replay-randgenome"] = replayRandGenome }

type expectedGene struct {
	rgGene
	weight float64
}
type expectedGenome struct {
	acts  []neatmath.NodeActivationType // per hidden node
	genes []expectedGene
	bits  int
}

// readStream consumes the global source the way the specification says newGenomeRand does and returns what it must build.
func readStream(c *rgCase, linkProb float64, opts *neat.Options) expectedGenome {
	var e expectedGenome
	on := make([]bool, len(c.Cells))
	for k := range c.Cells {
		on[k] = rand.Float64() < linkProb
		if on[k] {
			e.bits++
		}
	}
	for h := 0; h < c.P.N; h++ {
		if len(opts.NodeActivators) == 1 {
			e.acts = append(e.acts, opts.NodeActivators[0])
			continue
		}
		// two equally likely activators: the roulette of X01 (first index whose cumulative sum reaches u * total)
		u := rand.Float64()
		idx := 1
		if u*1.0 <= 0.5 {
			idx = 0
		}
		e.acts = append(e.acts, opts.NodeActivators[idx])
	}
	for k, cell := range c.Cells {
		if on[k] && cell.Eligible {
			sign := 1.0
			if rand.Int()%2 == 0 {
				sign = -1.0
			}
			e.genes = append(e.genes, expectedGene{cell.Gene, sign * rand.Float64()})
		}
	}
	return e
}

func roleOf(n *network.NNode) string {
	switch n.NeuronType {
	case network.InputNeuron:
		return "I"
	case network.BiasNeuron:
		return "B"
	case network.OutputNeuron:
		return "O"
	case network.HiddenNeuron:
		return "H"
	}
	return "?"
}

func compareGenome(g *genetics.Genome, id int, c *rgCase, e *expectedGenome, fail func(string, ...interface{})) {
	if g == nil {
		fail("no genome returned")
		return
	}
	if g.Id != id {
		fail("genome id %d, want %d", g.Id, id)
	}
	if len(g.Traits) != 1 || g.Traits[0].Id != 1 || len(g.Traits[0].Params) != neat.NumTraitParams {
		fail("the genome must carry exactly one trait with id 1 and %d parameters", neat.NumTraitParams)
		return
	}
	tr := g.Traits[0]
	if len(g.Nodes) != len(c.Nodes) {
		fail("%d nodes, specification gives %d", len(g.Nodes), len(c.Nodes))
		return
	}
	h := 0
	for i, wn := range c.Nodes {
		n := g.Nodes[i]
		if n.Id != wn.Id || roleOf(n) != wn.Role {
			fail("node %d is (id %d, %s), specification gives (id %d, %s)", i, n.Id, roleOf(n), wn.Id, wn.Role)
		}
		wantAct := neatmath.SigmoidSteepenedActivation
		switch wn.Role {
		case "I", "B":
			wantAct = neatmath.NullActivation
		case "H":
			wantAct = e.acts[h]
			h++
		}
		if n.ActivationType != wantAct {
			fail("node %d (id %d) has activation %d, specification gives %d", i, n.Id, n.ActivationType, wantAct)
		}
		if n.Trait != tr {
			fail("node %d does not reference the genome's trait", i)
		}
		if g.NodeWithId(n.Id) != n {
			fail("node id %d is not indexed by the genome", n.Id)
		}
	}
	if len(g.Genes) != len(e.genes) {
		fail("%d genes, specification gives %d for the %d bits drawn", len(g.Genes), len(e.genes), e.bits)
		return
	}
	for k, wg := range e.genes {
		gn := g.Genes[k]
		if gn.Link == nil || gn.Link.InNode == nil || gn.Link.OutNode == nil {
			fail("gene %d has no link ends", k)
			continue
		}
		if gn.InnovationNum != wg.Inn || gn.Link.InNode.Id != wg.Src || gn.Link.OutNode.Id != wg.Dst || gn.Link.IsRecurrent != wg.Rec {
			fail("gene %d is (innovation %d, %d -> %d, recurrent %v), specification gives (%d, %d -> %d, %v)", k, gn.InnovationNum,
				gn.Link.InNode.Id, gn.Link.OutNode.Id, gn.Link.IsRecurrent, wg.Inn, wg.Src, wg.Dst, wg.Rec)
		}
		if gn.Link.ConnectionWeight != wg.weight || gn.MutationNum != wg.weight {
			fail("gene %d has weight %s / mutation number %s, the stream gives %s", k, vhu.Fstr(gn.Link.ConnectionWeight), vhu.Fstr(gn.MutationNum), vhu.Fstr(wg.weight))
		}
		if !gn.IsEnabled || gn.Link.Trait != tr {
			fail("gene %d must be enabled and reference the genome's trait", k)
		}
		if g.NodeWithId(wg.Src) != gn.Link.InNode || g.NodeWithId(wg.Dst) != gn.Link.OutNode {
			fail("gene %d is not wired to the genome's own node objects", k)
		}
	}
	ok, verr := g.VerifVerify()
	if (len(e.genes) > 0) != (ok && verr == nil) {
		fail("Genome.verify() = (%v, %v) for a genome with %d genes", ok, verr, len(e.genes))
	}
}

func replayRandGenome(args []string) int {
	fs := flag.NewFlagSet("replay-randgenome", flag.ExitOnError)
	cases := fs.String("cases", "", "NDJSON cases printed by MC_RandGenome")
	out := fs.String("out", "", "report file")
	seeds := fs.Int("seeds", 40, "seeds per parameter set, link probability and activator list")
	_ = fs.Parse(args)
	rep := &vhu.Report{Command: "replay-randgenome", Extra: map[string]interface{}{}}
	base := vhu.EnvSeed() * 7919
	one := vhu.BaseOptions(5)
	two := vhu.BaseOptions(5)
	two.NodeActivators = []neatmath.NodeActivationType{neatmath.TanhActivation, neatmath.LinearActivation}
	two.NodeActivatorsProb = []float64{0.5, 0.5}
	observed := map[string]int{}
	byShape := map[string]*rgCase{} // "in/out/mh/rec/n"
	var shapes []*rgCase
	geneless, genomes := 0, 0
	err := vhu.ReadNDJSON(*cases, func(line []byte) error {
		c := &rgCase{}
		if err := json.Unmarshal(line, c); err != nil {
			return err
		}
		if c.Kind != "shape" || len(c.Cells) != c.Total*c.Total {
			return fmt.Errorf("malformed case")
		}
		rep.Cases++
		byShape[fmt.Sprintf("%d/%d/%d/%v/%d", c.P.In, c.P.Out, c.P.Mh, c.P.Rec, c.P.N)] = c
		shapes = append(shapes, c)
		raw := json.RawMessage(append([]byte(nil), line...))
		bad := ""
		fail := func(format string, a ...interface{}) {
			if len(bad) < 1500 {
				bad += fmt.Sprintf(format, a...) + "; "
			}
		}
		sawRec, sawSkip := false, false
		for _, linkProb := range []float64{0, 0.25, 0.5, 0.75, 1} {
			for oi, opts := range []*neat.Options{one, two} {
				for s := 0; s < *seeds && bad == ""; s++ {
					seed := base + int64(s)
					rand.Seed(seed)
					e := readStream(c, linkProb, opts)
					next := rand.Float64()
					var g *genetics.Genome
					var gerr error
					var gotNext float64
					rand.Seed(seed)
					if p := vhu.Guard(func() {
						g, gerr = genetics.VerifNewGenomeRand(11+s, c.P.In, c.P.Out, c.P.N, c.P.Mh, c.P.Rec, linkProb, opts)
						gotNext = rand.Float64()
					}); p != "" {
						fail("seed %d linkProb %v: newGenomeRand panicked: %s", seed, linkProb, p)
						break
					}
					rep.Evaluations++
					genomes++
					if gerr != nil {
						fail("seed %d linkProb %v: error %v", seed, linkProb, gerr)
						break
					}
					before := bad
					compareGenome(g, 11+s, c, &e, fail)
					if gotNext != next {
						fail("the construction consumed a different number of random draws than the specification says")
					}
					if bad != before {
						bad = fmt.Sprintf("seed %d, linkProb %v, %d activator(s): ", seed, linkProb, oi+1) + bad
					}
					if len(e.genes) == 0 {
						geneless++
					}
					for _, wg := range e.genes {
						sawRec = sawRec || wg.Rec
					}
					sawSkip = sawSkip || e.bits > len(e.genes)
				}
			}
		}
		if sawSkip && (sawRec || !c.P.Rec) && c.P.N > 0 {
			rep.Nontrivial++
			if rep.Cases%13 == 0 {
				rep.Sample(map[string]interface{}{"p": c.P, "nodes": c.Nodes})
			}
		}
		if bad != "" {
			rep.Fail(map[string]interface{}{"case": raw, "what": bad, "signature": fmt.Sprintf("randgenome shape %+v", c.P)})
		}
		return nil
	})
	if err != nil {
		fmt.Println("vh_grow replay-randgenome:", err)
		return 2
	}
	// NewPopulationRandom: per genome one Intn(maxHidden) for the number of hidden nodes, then the genome's own draws
	pops := 0
	for _, c := range shapes {
		if c.P.N != 0 || c.P.Mh == 0 {
			if c.P.N == 0 && c.P.Mh == 0 && !c.P.Rec && c.P.In == 1 && c.P.Out == 1 {
				opts := vhu.BaseOptions(3)
				if p := vhu.Guard(func() { _, _ = genetics.NewPopulationRandom(1, 1, 0, false, 0.5, opts) }); p != "" {
					observed["NewPopulationRandom panics for maxHidden = 0 (rand.Intn(0)): "+p]++
				}
			}
			continue
		}
		bad := ""
		fail := func(format string, a ...interface{}) {
			if len(bad) < 1500 {
				bad += fmt.Sprintf(format, a...) + "; "
			}
		}
		// information: a population whose genomes all come out without genes (link probability 0)
		{
			opts := vhu.BaseOptions(4)
			var perr error
			if p := vhu.Guard(func() { _, perr = genetics.NewPopulationRandom(c.P.In, c.P.Out, c.P.Mh, c.P.Rec, 0, opts) }); p != "" {
				observed["NewPopulationRandom with link probability 0 (no genome has a gene) panics: "+p]++
			} else if perr != nil {
				observed["NewPopulationRandom with link probability 0 (no genome has a gene) returns an error: "+perr.Error()]++
			} else {
				observed["NewPopulationRandom with link probability 0 succeeds with gene-less genomes (Genome.verify() rejects such genomes: `genome has no Genes`)"]++
			}
		}
		for s := 0; s < 6 && bad == ""; s++ {
			seed := base + 1000 + int64(s)
			opts := vhu.BaseOptions(6)
			opts.CompatThreshold = 1.0
			linkProb := 0.6
			rand.Seed(seed)
			var exp []expectedGenome
			var shapeOf []*rgCase
			for k := 0; k < opts.PopSize; k++ {
				n := rand.Intn(c.P.Mh)
				sc := byShape[fmt.Sprintf("%d/%d/%d/%v/%d", c.P.In, c.P.Out, c.P.Mh, c.P.Rec, n)]
				if sc == nil {
					fmt.Println("vh_grow replay-randgenome: no shape case for n =", n)
					return 2
				}
				shapeOf = append(shapeOf, sc)
				exp = append(exp, readStream(sc, linkProb, opts))
			}
			next := rand.Float64()
			var pop *genetics.Population
			var perr error
			var gotNext float64
			rand.Seed(seed)
			if p := vhu.Guard(func() {
				pop, perr = genetics.NewPopulationRandom(c.P.In, c.P.Out, c.P.Mh, c.P.Rec, linkProb, opts)
				gotNext = rand.Float64()
			}); p != "" {
				fail("seed %d: NewPopulationRandom panicked: %s", seed, p)
				break
			}
			rep.Evaluations++
			pops++
			if perr != nil {
				allEmpty := true
				for i := range exp {
					allEmpty = allEmpty && len(exp[i].genes) == 0
				}
				observed["NewPopulationRandom returns an error when a drawn genome has no genes: "+perr.Error()]++
				_ = allEmpty
				continue
			}
			if len(pop.Organisms) != opts.PopSize {
				fail("seed %d: %d organisms, want %d", seed, len(pop.Organisms), opts.PopSize)
				break
			}
			for k, o := range pop.Organisms {
				before := bad
				compareGenome(o.Genotype, k, shapeOf[k], &exp[k], fail)
				if o.Generation != 1 || o.Fitness != 0 {
					fail("organism %d: generation %d fitness %v, want 1 and 0", k, o.Generation, o.Fitness)
				}
				if bad != before {
					bad = fmt.Sprintf("seed %d organism %d: ", seed, k) + bad
					break
				}
			}
			if gotNext != next {
				fail("seed %d: NewPopulationRandom consumed a different number of random draws than the specification says", seed)
			}
			total := c.P.In + c.P.Out + c.P.Mh
			ni, nn := pop.VerifCounters()
			if ni != int64(total*total+1) || nn != int32(total+1) {
				fail("seed %d: counters (next innovation %d, next node %d), want (%d, %d)", seed, ni, nn, total*total+1, total+1)
			}
			inSpecies := map[*genetics.Organism]int{}
			for _, sp := range pop.Species {
				if len(sp.Organisms) == 0 {
					fail("seed %d: empty species %d", seed, sp.Id)
				}
				for _, o := range sp.Organisms {
					inSpecies[o]++
					if o.Species != sp {
						fail("seed %d: organism does not point at the species that holds it", seed)
					}
				}
			}
			for _, o := range pop.Organisms {
				if inSpecies[o] != 1 {
					fail("seed %d: an organism is in %d species", seed, inSpecies[o])
					break
				}
			}
		}
		if bad != "" {
			rep.Fail(map[string]interface{}{"case": json.RawMessage(fmt.Sprintf(`{"population":{"nin":%d,"nout":%d,"mh":%d,"rec":%v}}`, c.P.In, c.P.Out, c.P.Mh, c.P.Rec)),
				"what": bad, "signature": fmt.Sprintf("randgenome population %d/%d/%d/%v", c.P.In, c.P.Out, c.P.Mh, c.P.Rec)})
		}
	}
	rep.Extra["genomes_built"] = genomes
	rep.Extra["genomes_without_genes"] = geneless
	rep.Extra["populations_built"] = pops
	if len(observed) > 0 {
		rep.Extra["observations"] = observed
	}
	return rep.Write(*out)
}

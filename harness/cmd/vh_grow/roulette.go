package main

import (
	"encoding/json"
	"errors"
	"flag"
	"fmt"
	"math"
	"math/rand"

	"verifharness/vhu"

	"github.com/yaricom/goNEAT/v4/neat"
	neatmath "github.com/yaricom/goNEAT/v4/neat/math"
)

// X01 replay.  math/rand cannot be stubbed, so a draw is *learned* instead of forced: the global source is seeded, the
// first two rand.Float64() values (u, u2) are read; the source is seeded again with the same seed and the real function is
// called: it sees exactly u.  The index it returns is compared with the entry of the TLC-generated interval table
// (lo < u*total <= hi -> idx) that contains u (exact integer comparison: u = m/2^53), and with the bracket given by the
// TLC-generated grid table (monotonicity); the next rand.Float64() must be u2 (exactly one draw consumed).

type segment struct {
	Lo  int64 `json:"lo"`
	Hi  int64 `json:"hi"`
	Idx int   `json:"idx"`
}
type rouletteCase struct {
	Kind    string    `json:"kind"`
	P       []int64   `json:"p"`
	Den     int64     `json:"den"`
	Total   int64     `json:"total"`
	Grid    int       `json:"grid"`
	AtZero  int       `json:"at_zero"`
	AllZero bool      `json:"all_zero"`
	OnGrid  []int     `json:"on_grid"`
	Segs    []segment `json:"segs"`
	// sign
	Even int `json:"even"`
	Odd  int `json:"odd"`
	// activator
	Acts  []string `json:"acts"`
	Err   string   `json:"err"`
	Draws int      `json:"draws"`
	Fixed string   `json:"fixed"`
}

type draw struct {
	seed   int64
	u, u2  float64
	m      int64 // u = m / 2^53
	v      int   // first rand.Int() of the same stream
	vNextF float64
}

func init() { commands["replay-roulette"] = replayRoulette }

// seedTable learns, for perCell seeds in every cell [j/grid, (j+1)/grid), the first two uniform draws of the stream.
func seedTable(base int64, grid, perCell int) []draw {
	have := make([]int, grid)
	missing := grid * perCell
	var out []draw
	for s := base; missing > 0 && s < base+int64(400*grid*perCell); s++ {
		rand.Seed(s)
		u := rand.Float64()
		j := int(u * float64(grid))
		if have[j] >= perCell {
			continue
		}
		have[j]++
		missing--
		d := draw{seed: s, u: u, u2: rand.Float64(), m: int64(u * (1 << 53))}
		rand.Seed(s)
		d.v = rand.Int()
		d.vNextF = rand.Float64()
		out = append(out, d)
	}
	return out
}

// expectedIndex looks u up in the TLC tables. near reports that u*total is so close to a segment end that the single
// rounding of the float product in the code may legitimately fall on either side.
func expectedIndex(c *rouletteCase, d *draw) (idx int, near bool) {
	if len(c.P) == 0 {
		return -1, false
	}
	if c.AllZero || d.m == 0 {
		return c.AtZero, false
	}
	x := d.m * c.Total // u*total in units of 2^-53 / den
	idx = -2
	for _, s := range c.Segs {
		lo, hi := s.Lo<<53, s.Hi<<53
		if lo < x && x <= hi {
			idx = s.Idx
		}
		if d := x - hi; d > -64 && d < 64 {
			near = true
		}
	}
	return idx, near
}

func wheelFloats(c *rouletteCase, scale float64) []float64 {
	p := make([]float64, len(c.P))
	for i, v := range c.P {
		p[i] = float64(v) / float64(c.Den) * scale
	}
	return p
}

func replayRoulette(args []string) int {
	fs := flag.NewFlagSet("replay-roulette", flag.ExitOnError)
	cases := fs.String("cases", "", "NDJSON cases printed by MC_Roulette")
	out := fs.String("out", "", "report file")
	perCell := fs.Int("per-cell", 3, "seeds per grid cell")
	empirical := fs.Int("empirical", 20000, "free-running draws per wheel for the (informational) frequency comparison")
	_ = fs.Parse(args)
	rep := &vhu.Report{Command: "replay-roulette", Extra: map[string]interface{}{}}
	tables := map[int][]draw{}
	base := vhu.EnvSeed() * 1000003
	boundary, empWorst, empOut, empWheels := 0, 0.0, 0, 0
	err := vhu.ReadNDJSON(*cases, func(line []byte) error {
		var c rouletteCase
		if err := json.Unmarshal(line, &c); err != nil {
			return err
		}
		rep.Cases++
		raw := json.RawMessage(append([]byte(nil), line...))
		bad := ""
		fail := func(format string, a ...interface{}) {
			if len(bad) < 1500 {
				bad += fmt.Sprintf(format, a...) + "; "
			}
		}
		grid := c.Grid
		if grid == 0 {
			grid = 64
		}
		if _, ok := tables[grid]; !ok {
			tables[grid] = seedTable(base, grid, *perCell)
		}
		draws := tables[grid]
		switch c.Kind {
		case "sign":
			for i := range draws {
				d := &draws[i]
				want := c.Even
				if d.v%2 != 0 {
					want = c.Odd
				}
				var got int32
				var next float64
				if p := vhu.Guard(func() { rand.Seed(d.seed); got = neatmath.RandSign(); next = rand.Float64() }); p != "" {
					fail("RandSign panicked: %s", p)
					continue
				}
				rep.Evaluations++
				if int(got) != want {
					fail("seed %d: the integer draw is %d, RandSign() = %d, specification gives %d", d.seed, d.v, got, want)
				}
				if next != d.vNextF {
					fail("seed %d: RandSign() did not consume exactly one integer draw", d.seed)
				}
			}
			rep.Nontrivial++
		case "wheel":
			zeroProb := false
			for _, v := range c.P {
				zeroProb = zeroProb || v == 0
			}
			for _, scale := range []float64{1, 8, 1.0 / 8192} {
				p := wheelFloats(&c, scale)
				orig := append([]float64(nil), p...)
				for i := range draws {
					d := &draws[i]
					want, near := expectedIndex(&c, d)
					var got int
					var next float64
					if pn := vhu.Guard(func() { rand.Seed(d.seed); got = neatmath.SingleRouletteThrow(p); next = rand.Float64() }); pn != "" {
						fail("SingleRouletteThrow(%v) panicked: %s", p, pn)
						break
					}
					rep.Evaluations++
					if got != want {
						if near {
							boundary++
						} else {
							fail("seed %d: u = %s, SingleRouletteThrow(%v) = %d, specification gives %d", d.seed, vhu.Fstr(d.u), p, got, want)
						}
					}
					// bracket from the grid table: index at floor(u*G)/G <= got <= index at the next grid point
					if len(c.OnGrid) == grid && !near {
						j := int(d.u * float64(grid))
						if got < c.OnGrid[j] || (j+1 < grid && got > c.OnGrid[j+1]) {
							fail("seed %d: u = %s lies in grid cell %d but the index %d is outside the bracket of the grid table", d.seed, vhu.Fstr(d.u), j, got)
						}
					}
					// also the empty wheel draws once (the draw precedes the loop)
					if next != d.u2 {
						fail("seed %d: SingleRouletteThrow(%v) did not consume exactly one uniform draw", d.seed, p)
					}
				}
				for i := range p {
					if p[i] != orig[i] {
						fail("SingleRouletteThrow modified the probabilities")
						break
					}
				}
			}
			// information only: frequencies of a free-running stream against p[i]/total
			if c.Total > 0 && *empirical > 0 {
				p := wheelFloats(&c, 1)
				counts := make([]int, len(p))
				rand.Seed(base + int64(rep.Cases))
				okRun := true
				for k := 0; k < *empirical; k++ {
					i := neatmath.SingleRouletteThrow(p)
					if i < 0 || i >= len(p) {
						okRun = false
						break
					}
					counts[i]++
				}
				if okRun {
					empWheels++
					for i := range p {
						dev := math.Abs(float64(counts[i])/float64(*empirical) - float64(c.P[i])/float64(c.Total))
						if dev > empWorst {
							empWorst = dev
						}
						if dev > 0.02 {
							empOut++
						}
					}
				}
			}
			if zeroProb && c.Total > 0 && len(c.Segs) >= 2 {
				rep.Nontrivial++
				if rep.Cases%17 == 0 {
					rep.Sample(raw)
				}
			}
		case "activator":
			o := vhu.BaseOptions(10)
			o.NodeActivators = make([]neatmath.NodeActivationType, len(c.Acts))
			for i, name := range c.Acts {
				t, err := neatmath.NodeActivators.ActivationTypeFromName(name)
				if err != nil {
					return fmt.Errorf("activator name %q of the case is not registered: %v", name, err)
				}
				o.NodeActivators[i] = t
			}
			o.NodeActivatorsProb = wheelFloats(&c, 1)
			for i := range draws {
				d := &draws[i]
				var got neatmath.NodeActivationType
				var gerr error
				var next float64
				if pn := vhu.Guard(func() { rand.Seed(d.seed); got, gerr = o.RandomNodeActivationType(); next = rand.Float64() }); pn != "" {
					fail("RandomNodeActivationType panicked: %s", pn)
					break
				}
				rep.Evaluations++
				switch c.Err {
				case "no_activators":
					if !errors.Is(gerr, neat.ErrNoActivatorsRegistered) {
						fail("no activators: error %v, specification gives ErrNoActivatorsRegistered", gerr)
					}
				case "mismatch":
					if !errors.Is(gerr, neat.ErrActivatorsProbabilitiesNumberMismatch) {
						fail("%d activators, %d probabilities: error %v, specification gives ErrActivatorsProbabilitiesNumberMismatch", len(c.Acts), len(c.P), gerr)
					}
				default:
					if gerr != nil {
						fail("seed %d: unexpected error %v", d.seed, gerr)
						break
					}
					wantName, near := c.Fixed, false
					if c.Draws == 1 {
						var idx int
						idx, near = expectedIndex(&c, d)
						if idx < 0 || idx >= len(c.Acts) {
							return fmt.Errorf("case table gives index %d for u=%v", idx, d.u)
						}
						wantName = c.Acts[idx]
					}
					gotName, _ := neatmath.NodeActivators.ActivationNameFromType(got)
					if gotName != wantName {
						if near {
							boundary++
						} else {
							fail("seed %d: u = %s, RandomNodeActivationType() = %s, specification gives %s", d.seed, vhu.Fstr(d.u), gotName, wantName)
						}
					}
				}
				wantNext := d.u
				if c.Draws == 1 {
					wantNext = d.u2
				}
				if next != wantNext {
					fail("seed %d: RandomNodeActivationType consumed a different number of uniform draws than the specification's %d", d.seed, c.Draws)
				}
				if bad != "" {
					break
				}
			}
			if c.Draws == 1 {
				rep.Nontrivial++
			}
		default:
			return fmt.Errorf("unknown case kind %q", c.Kind)
		}
		if bad != "" {
			rep.Fail(map[string]interface{}{"case": raw, "what": bad, "signature": "roulette " + c.Kind + " " + string(line[:min(len(line), 120)])})
		}
		return nil
	})
	if err != nil {
		fmt.Println("vh_grow replay-roulette:", err)
		return 2
	}
	rep.Extra["rounding_boundary_draws_accepted"] = boundary
	rep.Extra["empirical"] = map[string]interface{}{"wheels": empWheels, "draws_per_wheel": *empirical,
		"worst_abs_deviation": empWorst, "entries_beyond_0.02": empOut, "note": "information only, never a verdict"}
	for g, t := range tables {
		rep.Extra[fmt.Sprintf("seeds_grid_%d", g)] = len(t)
	}
	return rep.Write(*out)
}

func min(a, b int) int {
	if a < b {
		return a
	}
	return b
}

// Command vh_x11 is the Go side of growth suite X11 (spec/Evaluator.tla): it calls the GenerationEvaluate of the shipped
// example evaluators (examples/xor, examples/pole) on real populations and records, per call, what the specification
// needs to re-derive the generation record and the result files (binding B1, spec/Trace_Evaluator.tla).
package main

import (
	"context"
	"encoding/json"
	"flag"
	"fmt"
	"math"
	"math/rand"
	"os"
	"path/filepath"
	"sort"
	"strings"

	"github.com/yaricom/goNEAT/v4/examples/pole"
	"github.com/yaricom/goNEAT/v4/examples/pole2"
	"github.com/yaricom/goNEAT/v4/examples/xor"
	"github.com/yaricom/goNEAT/v4/experiment"
	"github.com/yaricom/goNEAT/v4/neat"
	"github.com/yaricom/goNEAT/v4/neat/genetics"

	"verifharness/vhu"
)

const unit = 1 << 20

func fix(x float64, u float64) int {
	if math.IsNaN(x) || math.IsInf(x, 0) {
		return -1 << 30
	}
	v := math.Round(x * u)
	if v > float64(1<<30) {
		return 1 << 30
	}
	if v < -float64(1<<30) {
		return -(1 << 30)
	}
	return int(v)
}

type orgEv struct {
	Gid       int  `json:"gid"`
	Fit       int  `json:"fit"`
	Rk        int  `json:"rk"` // dense rank of the exact fitness among the population (larger = fitter)
	Win       bool `json:"win"`
	Nodes     int  `json:"nodes"`
	Ext       int  `json:"ext"`
	Nc        int  `json:"nc"`
	Lc        int  `json:"lc"`
	Evaluated bool `json:"evaluated"`
	Fit10     int  `json:"fit10"`
	Es10      int  `json:"es10"`
	Err       int  `json:"err"`
}
type spEv struct {
	Age int   `json:"age"`
	Mem []int `json:"mem"`
}
type postEv struct {
	Solved    bool  `json:"solved"`
	Champ     int   `json:"champ"`
	Wn        int   `json:"wn"`
	Wg        int   `json:"wg"`
	We        int   `json:"we"`
	Diversity int   `json:"diversity"`
	Age       []int `json:"age"`
	Cplx      []int `json:"cplx"`
	Fit       []int `json:"fit"`
}
type evalEv struct {
	Kind       string   `json:"kind"`
	PopSize    int      `json:"popsize"`
	PrintEvery int      `json:"printevery"`
	Id         int      `json:"id"`
	Trial      int      `json:"trial"`
	Optn       int      `json:"optn"`
	Orgs       []orgEv  `json:"orgs"`
	Species    []spEv   `json:"species"`
	Post       postEv   `json:"post"`
	Files      []string `json:"files"`
	Err        bool     `json:"err"`
	ErrText    string   `json:"errtext,omitempty"`
}

// xorSolver is a hand-made XOR network with k hidden nodes (1: AND unit; 2: OR and AND units) whose weights are scaled by s:
// the larger s, the closer its outputs to 0 / 1 (s = 1: a near miss, no winner; s >= 2: winners of increasing fitness).
func xorSolver(id int, hidden int, s float64) *genetics.Genome {
	var b strings.Builder
	fmt.Fprintf(&b, "genomestart %d\ntrait 1 0.1 0 0 0 0 0 0 0\n", id)
	b.WriteString("node 1 0 1 3 NullActivation\nnode 2 0 1 1 NullActivation\nnode 3 0 1 1 NullActivation\nnode 4 0 0 2 SigmoidSteepenedActivation\n")
	b.WriteString("node 5 0 0 0 SigmoidSteepenedActivation\n")
	if hidden == 2 {
		b.WriteString("node 6 0 0 0 SigmoidSteepenedActivation\n")
	}
	g := func(src, dst int, w float64, inn int) {
		fmt.Fprintf(&b, "gene 1 %d %d %s false %d 0 true\n", src, dst, vhu.Fstr(w*s), inn)
	}
	if hidden == 1 {
		// h = AND(x1, x2); out = x1 + x2 - 2h
		g(1, 5, -1.5, 1)
		g(2, 5, 1, 2)
		g(3, 5, 1, 3)
		g(1, 4, -0.5, 4)
		g(2, 4, 1, 5)
		g(3, 4, 1, 6)
		g(5, 4, -2, 7)
	} else {
		// h5 = OR, h6 = AND; out = h5 AND NOT h6
		g(1, 5, -0.5, 1)
		g(2, 5, 1, 2)
		g(3, 5, 1, 3)
		g(1, 6, -1.5, 4)
		g(2, 6, 1, 5)
		g(3, 6, 1, 6)
		g(1, 4, -0.5, 7)
		g(5, 4, 1, 8)
		g(6, 4, -1, 9)
	}
	fmt.Fprintf(&b, "genomeend %d\n", id)
	return vhu.ReadGenomeString(b.String(), id)
}

const poleStart = `genomestart 1
trait 1 0.1 0 0 0 0 0 0 0
trait 2 0.2 0 0 0 0 0 0 0
trait 3 0.3 0 0 0 0 0 0 0
node 1 0 1 3
node 2 0 1 1
node 3 0 1 1
node 4 0 1 1
node 5 0 1 1
node 6 0 0 2
node 7 0 0 2
gene 1 1 6 0.0 0 1 0 1
gene 2 2 6 0.0 0 2 0 1
gene 3 3 6 0.0 0 3 0 1
gene 1 4 6 0.0 0 4 0 1
gene 2 5 6 0.0 0 5 0 1
gene 3 1 7 0.0 0 6 0 1
gene 1 2 7 0.0 0 7 0 1
gene 2 3 7 0.0 0 8 0 1
gene 3 4 7 0.0 0 9 0 1
gene 1 5 7 0.0 0 10 0 1
genomeend 1
`

const pole2Start = `genomestart 1
trait 1 0.1 0 0 0 0 0 0 0
trait 2 0.2 0 0 0 0 0 0 0
trait 3 0.3 0 0 0 0 0 0 0
node 1 0 1 1
node 2 0 1 1
node 3 0 1 1
node 4 0 1 1
node 5 0 1 1
node 6 0 1 1
node 7 0 1 3
node 8 0 0 2
gene 1 1 8 0.0 0 1 0 1
gene 2 2 8 0.0 0 2 0 1
gene 3 3 8 0.0 0 3 0 1
gene 1 4 8 0.0 0 4 0 1
gene 2 5 8 0.0 0 5 0 1
gene 2 6 8 0.0 0 6 0 1
gene 2 7 8 0.0 0 7 0 1
genomeend 1
`

func listFiles(dir string) []string {
	var out []string
	_ = filepath.Walk(dir, func(p string, info os.FileInfo, err error) error {
		if err == nil && !info.IsDir() {
			rel, _ := filepath.Rel(dir, p)
			out = append(out, filepath.ToSlash(rel))
		}
		return nil
	})
	sort.Strings(out)
	return out
}

func main() {
	_ = neat.InitLogger("error")
	if len(os.Args) < 2 || os.Args[1] != "record-evaluator" {
		fmt.Fprintln(os.Stderr, "usage: vh_x11 record-evaluator -out <trace> -report <file> -dir <scratch dir> [-scenarios n]")
		os.Exit(2)
	}
	fs := flag.NewFlagSet("record-evaluator", flag.ExitOnError)
	out := fs.String("out", "", "NDJSON trace")
	repf := fs.String("report", "", "report file")
	dir := fs.String("dir", "", "scratch directory for the evaluators' output")
	nScen := fs.Int("scenarios", 24, "number of scenarios")
	_ = fs.Parse(os.Args[2:])
	f, err := os.Create(*out)
	if err != nil {
		fmt.Fprintln(os.Stderr, err)
		os.Exit(2)
	}
	defer f.Close()
	enc := json.NewEncoder(f)
	rep := &vhu.Report{Command: "record-evaluator", Extra: map[string]interface{}{}}
	seed := vhu.EnvSeed()
	solved, unsolved, optimal, ties, aborted, near := 0, 0, 0, 0, 0, 0
	for sc := 0; sc < *nScen; sc++ {
		r := rand.New(rand.NewSource(seed*7907 + int64(sc)))
		rand.Seed(seed*1009 + int64(sc))
		kind := []string{"xor", "xor", "pole", "xor", "pole2", "pole"}[sc%6]
		popSize := []int{8, 12, 20, 30}[r.Intn(4)]
		opts := vhu.BaseOptions(popSize)
		opts.PrintEvery = []int{1, 2, 3, 10}[r.Intn(4)]
		opts.CompatThreshold = []float64{0.3, 0.6, 3.0}[r.Intn(3)]
		opts.MutateAddNodeProb, opts.MutateAddLinkProb = 0.2, 0.3
		var start *genetics.Genome
		switch kind {
		case "xor":
			start = vhu.ReadGenomeString(vhu.XorStartGenome, 1)
		case "pole":
			start = vhu.ReadGenomeString(poleStart, 1)
		default:
			start = vhu.ReadGenomeString(pole2Start, 1)
		}
		pop, err := genetics.NewPopulation(start, opts)
		if err != nil {
			aborted++
			continue
		}
		ctx := neat.NewContext(context.Background(), opts)
		ex := &genetics.SequentialPopulationEpochExecutor{}
		ok := true
		for g := 1; g <= 1+r.Intn(4) && ok; g++ {
			for _, o := range pop.Organisms {
				o.Fitness = 0.1 + r.Float64()
			}
			ok = ex.NextEpoch(ctx, g, pop) == nil
		}
		if !ok {
			aborted++
			continue
		}
		// XOR: some organisms are given hand-made solvers of different quality (also two of EQUAL quality: the earlier one stays
		// champion), at random positions
		if kind == "xor" {
			k := r.Intn(4)
			for j := 0; j < k; j++ {
				o := pop.Organisms[r.Intn(len(pop.Organisms))]
				o.Genotype = xorSolver(o.Genotype.Id, 1+r.Intn(2), []float64{1, 1.5, 1.6, 1.7, 1.8, 1.9, 2, 3, 3, 6}[r.Intn(10)])
				if err := o.UpdatePhenotype(); err != nil {
					fmt.Fprintln(os.Stderr, "vh_x11: solver genome cannot be expressed:", err)
					os.Exit(2)
				}
			}
		}
		for _, o := range pop.Organisms {
			o.Fitness, o.IsWinner, o.Error = 0, false, -1 // (-1: not touched by the evaluation)
		}
		id := []int{0, 1, 2, 3, 6, 10}[r.Intn(6)]
		trial := r.Intn(3)
		odir := filepath.Join(*dir, fmt.Sprintf("sc%d", sc))
		_ = os.RemoveAll(odir)
		_ = os.MkdirAll(odir, 0o755)
		var ev experiment.GenerationEvaluator
		optn := 5
		switch kind {
		case "xor":
			ev = xor.NewXORGenerationEvaluator(odir)
		case "pole":
			optn = 7
			ev = pole.NewCartPoleGenerationEvaluator(odir, r.Intn(2) == 0, []int{3, 10, 40, 200}[r.Intn(4)])
		default:
			// the double-pole (Markov) evaluator: same protocol, no "optimal" dump, files named pole2_...
			optn = -1
			ev = pole2.NewCartDoublePoleGenerationEvaluator(odir, true, []pole2.ActionType{pole2.ContinuousAction, pole2.DiscreteAction}[r.Intn(2)])
		}
		// what the species list before the call
		index := map[*genetics.Organism]int{}
		for i, o := range pop.Organisms {
			index[o] = i + 1
		}
		e := evalEv{Kind: kind, PopSize: opts.PopSize, PrintEvery: opts.PrintEvery, Id: id, Trial: trial, Optn: optn, Files: []string{}}
		for _, sp := range pop.Species {
			s := spEv{Age: sp.Age, Mem: []int{}}
			for _, o := range sp.Organisms {
				s.Mem = append(s.Mem, index[o])
			}
			e.Species = append(e.Species, s)
		}
		epoch := &experiment.Generation{Id: id, TrialId: trial}
		var callErr error
		if p := vhu.Guard(func() { callErr = ev.GenerationEvaluate(ctx, pop, epoch) }); p != "" {
			e.Err, e.ErrText = true, "panic: "+p
		} else if callErr != nil {
			e.Err, e.ErrText = true, callErr.Error()
		}
		fits := map[int]int{}
		for _, o := range pop.Organisms {
			oe := orgEv{Gid: o.Genotype.Id, Fit: fix(o.Fitness, unit), Win: o.IsWinner, Nodes: len(o.Genotype.Nodes), Ext: o.Genotype.Extrons(),
				Evaluated: o.Error != -1, Fit10: fix(o.Fitness, 1024), Err: fix(o.Error, unit)}
			if o.Error >= 0 {
				oe.Es10 = fix(math.Sqrt(o.Error), 1024)
			}
			if ph, err := o.Phenotype(); err == nil {
				oe.Nc, oe.Lc = ph.NodeCount(), ph.LinkCount()
			}
			if o.IsWinner {
				fits[oe.Fit]++
			}
			if kind == "xor" && o.Fitness > 15.0 && o.Fitness < 15.9 {
				near++
			}
			e.Orgs = append(e.Orgs, oe)
		}
		{
			var vals []float64
			for _, o := range pop.Organisms {
				vals = append(vals, o.Fitness)
			}
			sort.Float64s(vals)
			rank := map[float64]int{}
			for _, v := range vals {
				if _, ok := rank[v]; !ok {
					rank[v] = len(rank) + 1
				}
			}
			for i, o := range pop.Organisms {
				e.Orgs[i].Rk = rank[o.Fitness]
			}
		}
		for _, n := range fits {
			if n > 1 {
				ties++
			}
		}
		e.Post = postEv{Solved: epoch.Solved, Champ: index[epoch.Champion], Wn: epoch.WinnerNodes, Wg: epoch.WinnerGenes, We: epoch.WinnerEvals,
			Diversity: epoch.Diversity, Age: []int{}, Cplx: []int{}, Fit: []int{}}
		for i := range epoch.Age {
			e.Post.Age = append(e.Post.Age, int(epoch.Age[i]))
		}
		for i := range epoch.Complexity {
			e.Post.Cplx = append(e.Post.Cplx, int(epoch.Complexity[i]))
		}
		for i := range epoch.Fitness {
			e.Post.Fit = append(e.Post.Fit, fix(epoch.Fitness[i], unit))
		}
		e.Files = append(e.Files, listFiles(odir)...)
		_ = os.RemoveAll(odir)
		_ = enc.Encode(e)
		rep.Cases++
		rep.Evaluations += len(e.Orgs)
		if epoch.Solved {
			solved++
			rep.Nontrivial++
		} else {
			unsolved++
		}
		for _, fn := range e.Files {
			if strings.Contains(fn, "_optimal_") {
				optimal++
				break
			}
		}
		if rep.Cases <= 2 {
			b, _ := json.Marshal(map[string]interface{}{"kind": kind, "id": id, "printevery": opts.PrintEvery, "organisms": len(e.Orgs),
				"species": len(e.Species), "post": e.Post, "files": e.Files})
			rep.Sample(json.RawMessage(b))
		}
	}
	rep.Extra["solved_generations"] = solved
	rep.Extra["unsolved_generations"] = unsolved
	rep.Extra["generations_with_an_optimal_dump"] = optimal
	rep.Extra["generations_with_winners_of_equal_fitness"] = ties
	rep.Extra["aborted_scenarios"] = aborted
	rep.Extra["xor_organisms_with_fitness_between_15_and_15.9"] = near
	os.Exit(rep.Write(*repf))
}

package main

import (
	"encoding/json"
	"flag"
	"fmt"
	"sort"

	neatmath "github.com/yaricom/goNEAT/v4/neat/math"
	"github.com/yaricom/goNEAT/v4/neat/network"

	"verifharness/vhu"
)

// INFORMATION ONLY (modular networks are outside the quantifiers of C12 / C13): the behaviours of MC_Modular -
// networks with one control node (multiply / max / min module) living through history; Flush; suffix - are run on
// real modular networks (NewModularNetwork) and their fast solvers. Reported, never failed: how many observations
// of the real code differ from what SolversModular.tla predicts, and how many suffix observations differ between
// the flushed instance and a fresh twin.

func init() { commands["replay-modular"] = replayModular }

var moduleActs = map[string]neatmath.NodeActivationType{
	"mul": neatmath.MultiplyModuleActivation,
	"max": neatmath.MaxModuleActivation,
	"min": neatmath.MinModuleActivation,
}

func (c *netCase) modular() *network.Network {
	base := c.direct(nil, 1)
	byId := map[int]*network.NNode{}
	for _, n := range base.BaseNodes() {
		byId[n.Id] = n
	}
	var ins []*network.NNode
	for _, id := range c.Inputs {
		ins = append(ins, byId[id])
	}
	var ctrls []*network.NNode
	for i, m := range c.Ctrl {
		cn := network.NewNNode(1000+i, network.HiddenNeuron)
		cn.ActivationType = moduleActs[m.Act]
		for _, id := range m.Ins {
			cn.AddIncoming(byId[id], 1.0)
		}
		for _, id := range m.Outs {
			cn.AddOutgoing(byId[id], 1.0)
		}
		ctrls = append(ctrls, cn)
	}
	return network.NewModularNetwork(ins, base.Outputs, base.BaseNodes(), ctrls, 1)
}

func newModularInstance(c *netCase) (*instance, error) {
	fs, err := c.modular().FastNetworkSolver()
	if err != nil {
		return nil, err
	}
	return &instance{std: c.modular(), fast: fs}, nil
}

func replayModular(args []string) int {
	fs := flag.NewFlagSet("replay-modular", flag.ExitOnError)
	cases := fs.String("cases", "", "NDJSON hist/suffix lines printed by MC_Modular")
	out := fs.String("out", "", "report file")
	maxPairs := fs.Int("maxpairs", 300, "cap on history x suffix combinations per network")
	_ = fs.Parse(args)
	rep := &vhu.Report{Command: "replay-modular"}
	groups := map[string]*flushGroup{}
	var order []string
	err := vhu.ReadNDJSON(*cases, func(line []byte) error {
		var l flushLine
		if err := json.Unmarshal(line, &l); err != nil {
			return err
		}
		if l.Kind != "hist" && l.Kind != "suffix" {
			return nil
		}
		key := string(l.Net)
		g := groups[key]
		if g == nil {
			g = &flushGroup{raw: append(json.RawMessage(nil), l.Net...)}
			if err := json.Unmarshal(l.Net, &g.net); err != nil {
				return err
			}
			groups[key] = g
			order = append(order, key)
		}
		if l.Kind == "hist" {
			g.hists = append(g.hists, flushSeq{l.Ops, l.Log})
		} else {
			g.sufs = append(g.sufs, flushSeq{l.Ops, l.Log})
		}
		return nil
	})
	if err != nil {
		fmt.Println("vh_solvers replay-modular:", err)
		return 2
	}
	sort.Strings(order)
	specMismatch, twinMismatch, flushErrors, pairs, problems := 0, 0, 0, 0, 0
	var examples []string
	note := func(kind *int, format string, a ...interface{}) {
		*kind++
		if len(examples) < 6 {
			examples = append(examples, fmt.Sprintf(format, a...))
		}
	}
	for gi, key := range order {
		g := groups[key]
		total := len(g.hists) * len(g.sufs)
		step := 1
		if total > *maxPairs {
			step = (total + *maxPairs - 1) / *maxPairs
		}
		for i, h := range g.hists {
			for j, s := range g.sufs {
				if step > 1 && int((uint32(i*len(g.sufs)+j+gi)*2654435761)>>8)%step != 0 {
					continue
				}
				pairs++
				rep.Cases++
				if p := vhu.Guard(func() {
					a, err := newModularInstance(&g.net)
					if err != nil {
						note(&problems, "cannot build fast solver: %v net=%s", err, g.raw)
						return
					}
					t, _ := newModularInstance(&g.net)
					for k, o := range h.Ops {
						r := a.apply(o, 1, intDelta)
						rep.Evaluations++
						if k < len(h.Log) && !r.matches(h.Log[k]) {
							note(&specMismatch, "history [%s] call %d: real std=%s err=%v fast=%s err=%v, specification std=%v err=%v fast=%v net=%s",
								opsString(h.Ops), k+1, fstrs(r.so), r.serr, fstrs(r.fo), r.ferr, h.Log[k].So, h.Log[k].Se, h.Log[k].Fo, g.raw)
							break
						}
					}
					if ok, err := a.std.Flush(); err != nil || !ok {
						flushErrors++
					}
					_, _ = a.fast.Flush()
					for k, o := range s.Ops {
						ra := a.apply(o, 1, intDelta)
						rt := t.apply(o, 1, intDelta)
						rep.Evaluations += 2
						if ra.se != rt.se || ra.fe != rt.fe || !sameBits(ra.so, rt.so) || !sameBits(ra.fo, rt.fo) {
							note(&twinMismatch, "after [%s]; Flush; [%s]: instance std=%s fast=%s, fresh twin std=%s fast=%s net=%s",
								opsString(h.Ops), opsString(s.Ops[:k+1]), fstrs(ra.so), fstrs(ra.fo), fstrs(rt.so), fstrs(rt.fo), g.raw)
							break
						}
						if k < len(s.Log) && !rt.matches(s.Log[k]) {
							note(&specMismatch, "fresh instance, suffix [%s] call %d: real std=%s err=%v fast=%s err=%v, specification std=%v err=%v fast=%v net=%s",
								opsString(s.Ops), k+1, fstrs(rt.so), rt.serr, fstrs(rt.fo), rt.ferr, s.Log[k].So, s.Log[k].Se, s.Log[k].Fo, g.raw)
							break
						}
					}
				}); p != "" {
					note(&problems, "panic: %s net=%s", p, g.raw)
				}
			}
		}
	}
	rep.Extra = map[string]interface{}{"networks": len(order), "pairs": pairs, "specification_mismatches": specMismatch,
		"twin_mismatches": twinMismatch, "flush_errors": flushErrors, "problems": problems, "examples": examples}
	rep.Failures = nil // information only
	_ = rep.Write(*out)
	return 0
}

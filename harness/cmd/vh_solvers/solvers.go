package main

import (
	"encoding/json"
	"flag"
	"fmt"
	"hash/fnv"
	"math"
	"time"

	neatmath "github.com/yaricom/goNEAT/v4/neat/math"
	"github.com/yaricom/goNEAT/v4/neat/network"

	"verifharness/vhu"
)

// C12 replay.  Every behaviour of MC_Solvers (a simple DAG in which every neuron is sensor-reachable, activation
// functions, an input vector, and the outputs the specification assigns after each call of each of the five solver
// instances) is rebuilt as a real network - directly through the network API and by expressing a genome with
// Genesis - and the real outputs after EACH call are compared `==` with the specification's integers (which the model
// checker has shown equal to TopoEval).  Then the same topology is re-run with the remaining registered activation
// types: the reference is computed from the case's topological order with the library's own ActivateByType and the
// procedures must agree with it within 1e-9 (floating-point summation order).

type solverEntry struct {
	Proc string `json:"proc"` // std, fwd, rec, rlx, rlxd : the instance
	Call string `json:"call"` // forward, recursive, relax
	Arg  int    `json:"arg"`
	Outs []int  `json:"outs"`
	Err  bool   `json:"err"`
}

type solverCase struct {
	Kind  string        `json:"kind"`
	Net   netCase       `json:"net"`
	Inp   []int         `json:"inp"`
	Depth int           `json:"depth"`
	Topo  []int         `json:"topo"`
	Want  []int         `json:"want"`
	Log   []solverEntry `json:"log"`
}

func init() { commands["replay-solvers"] = replaySolvers }

const floatTol = 1e-9

// relaxation threshold: in the integer rounds any change is at least 1; in the float rounds the smallest positive
// number makes "changed by more than delta" mean "changed" (up to one denormal), so Relax stops only at a fixed point.
const intDelta = 0.5

var tinyDelta = math.SmallestNonzeroFloat64

type procRunner struct {
	std  *network.Network
	fast network.Solver
}

// load loads the input vector; for every other vector another one (the negated, shifted values) is loaded first: the
// function computed is that of the values loaded LAST.
func (p *procRunner) load(v []float64, c *netCase, withBias bool) error {
	sum := 0.0
	for _, x := range v {
		sum += x
	}
	if len(v) > 0 && int(math.Abs(sum)*4)%2 == 1 {
		other := make([]float64, len(v))
		for i, x := range v {
			other[i] = -x + 0.5
		}
		if p.std != nil {
			if err := p.std.LoadSensors(c.sensorVector(other, withBias)); err != nil {
				return err
			}
		} else if err := p.fast.LoadSensors(other); err != nil {
			return err
		}
	}
	if p.std != nil {
		return p.std.LoadSensors(c.sensorVector(v, withBias))
	}
	return p.fast.LoadSensors(v)
}

func (p *procRunner) call(call string, arg int, delta float64) error {
	var err error
	switch call {
	case "forward":
		if p.std != nil {
			_, err = p.std.ForwardSteps(arg)
		} else {
			_, err = p.fast.ForwardSteps(arg)
		}
	case "recursive":
		_, err = p.fast.RecursiveSteps()
	case "relax":
		_, err = p.fast.Relax(arg, delta)
	default:
		err = fmt.Errorf("unknown call %q", call)
	}
	return err
}

func (p *procRunner) outputs() []float64 {
	if p.std != nil {
		return p.std.ReadOutputs()
	}
	return p.fast.ReadOutputs()
}

// reference evaluates every neuron once in the given topological order as activation(sum of weight * source) with
// the library's own activation functions, bias inputs being one.
func reference(c *netCase, topo []int, acts map[int]neatmath.NodeActivationType, v []float64, wscale float64) ([]float64, error) {
	val := map[int]float64{}
	kind := map[int]string{}
	for _, n := range c.Nodes {
		kind[n.Id] = n.Kind
	}
	k := 0
	for _, id := range c.Inputs {
		if kind[id] == "I" {
			val[id] = v[k]
			k++
		} else {
			val[id] = 1.0
		}
	}
	for _, n := range topo {
		sum := 0.0
		for _, l := range c.Links {
			if l.Dst == n {
				sum += float64(l.W) * wscale * val[l.Src]
			}
		}
		out, err := neatmath.NodeActivators.ActivateByType(sum, nil, acts[n])
		if err != nil {
			return nil, err
		}
		val[n] = out
	}
	outs := make([]float64, len(c.Outputs))
	for i, id := range c.Outputs {
		outs[i] = val[id]
	}
	return outs, nil
}

func closeAll(a, b []float64) bool {
	if len(a) != len(b) {
		return false
	}
	for i := range a {
		if !vhu.CloseRel(a[i], b[i], floatTol) {
			return false
		}
	}
	return true
}

func fstrs(a []float64) string {
	s := "["
	for i, x := range a {
		if i > 0 {
			s += " "
		}
		s += vhu.Fstr(x)
	}
	return s + "]"
}

type variant struct {
	name     string
	build    func() (*network.Network, error)
	withBias bool
}

func (c *solverCase) variants(over actOverride, wscale float64) []variant {
	vs := []variant{
		{"direct", func() (*network.Network, error) { return c.Net.direct(over, wscale), nil }, false},
		{"genome", func() (*network.Network, error) { return c.Net.viaGenome(over, wscale) }, false},
	}
	// the network as it is NOW: a network from which a fast solver was derived while it still had other weights and other
	// activation types, and one link less, is then tuned in place (weights, activation types, the last link connected);
	// every procedure - a fast solver derived afterwards too - computes the function of the network as it is
	vs = append(vs, variant{"direct, tuned in place after a fast solver had been derived", func() (*network.Network, error) {
		net := c.Net.direct(over, wscale)
		type saved struct {
			l *network.Link
			w float64
		}
		var ws []saved
		acts := map[*network.NNode]neatmath.NodeActivationType{}
		var lastNode *network.NNode
		var lastLink *network.Link
		for _, n := range net.BaseNodes() {
			if n.IsNeuron() {
				acts[n] = n.ActivationType
				if n.ActivationType == neatmath.TanhActivation {
					n.ActivationType = neatmath.LinearActivation
				} else {
					n.ActivationType = neatmath.TanhActivation
				}
			}
			for _, l := range n.Incoming {
				ws = append(ws, saved{l, l.ConnectionWeight})
				l.ConnectionWeight = -0.5*l.ConnectionWeight + 0.25
				lastNode, lastLink = n, l
			}
		}
		if lastLink != nil && len(lastNode.Incoming) > 1 && lastLink == lastNode.Incoming[len(lastNode.Incoming)-1] {
			// take the last link out for the moment (it is the last one of its target and of its source)
			src := lastLink.InNode
			if k := len(src.Outgoing); k > 0 && src.Outgoing[k-1] == lastLink {
				lastNode.Incoming = lastNode.Incoming[:len(lastNode.Incoming)-1]
				src.Outgoing = src.Outgoing[:k-1]
			} else {
				lastLink = nil
			}
		} else {
			lastLink = nil
		}
		if _, err := net.FastNetworkSolver(); err != nil {
			return nil, err
		}
		if lastLink != nil {
			lastNode.Incoming = append(lastNode.Incoming, lastLink)
			lastLink.InNode.Outgoing = append(lastLink.InNode.Outgoing, lastLink)
		}
		for _, x := range ws {
			x.l.ConnectionWeight = x.w
		}
		for n, a := range acts {
			n.ActivationType = a
		}
		return net, nil
	}, false})
	// the listing order of the neurons is not part of the network: with the neurons reversed every neuron is listed BEFORE the
	// neurons it reads from (the order Genesis yields after repeated splits of an entering link)
	vs = append(vs, variant{"direct, neurons of the all-nodes list reversed", func() (*network.Network, error) { return c.Net.directShuffled(over, wscale), nil }, false})
	if c.Net.hasBias() {
		vs = append(vs, variant{"direct+bias-passed", func() (*network.Network, error) { return c.Net.direct(over, wscale), nil }, true})
	}
	return vs
}

// newRunner builds a fresh instance for one of the five procedures.
func newRunner(v variant, proc string) (*procRunner, error) {
	net, err := v.build()
	if err != nil {
		return nil, err
	}
	if net == nil {
		return nil, nil
	}
	if proc == "std" {
		return &procRunner{std: net}, nil
	}
	fs, err := net.FastNetworkSolver()
	if err != nil {
		return nil, err
	}
	return &procRunner{fast: fs}, nil
}

var procNames = []string{"std", "fwd", "rec", "rlx", "rlxd"}

// runInteger replays the specification's log on real instances, exact comparison.
func (c *solverCase) runInteger(rep *vhu.Report) (bad string) {
	inp := floats(c.Inp, 1)
	for _, v := range c.variants(nil, 1) {
		for _, proc := range procNames {
			r, err := newRunner(v, proc)
			if err != nil {
				bad += fmt.Sprintf("%s/%s: cannot build: %v; ", v.name, proc, err)
				continue
			}
			if r == nil {
				continue
			}
			if err := r.load(inp, &c.Net, v.withBias); err != nil {
				bad += fmt.Sprintf("%s/%s: LoadSensors failed: %v; ", v.name, proc, err)
				continue
			}
			step := 0
			for _, e := range c.Log {
				if e.Proc != proc {
					continue
				}
				step++
				err := r.call(e.Call, e.Arg, intDelta)
				rep.Evaluations++
				got := r.outputs()
				if err != nil {
					bad += fmt.Sprintf("%s/%s call %d %s(%d) returned error %v; ", v.name, proc, step, e.Call, e.Arg, err)
					break
				}
				if !equalsInts(got, e.Outs) {
					bad += fmt.Sprintf("%s/%s call %d %s(%d): outputs %s, feed-forward value %v (depth %d); ",
						v.name, proc, step, e.Call, e.Arg, fstrs(got), e.Outs, c.Depth)
					break
				}
			}
		}
	}
	return bad
}

// runFloat re-runs the topology with activation types dealt from the registered ones.
func (c *solverCase) runFloat(rep *vhu.Report, seed uint64, round int, acts []neatmath.NodeActivationType) (bad string) {
	assign := map[int]neatmath.NodeActivationType{}
	over := func(pos int, id int) (neatmath.NodeActivationType, bool) {
		t := acts[(seed+uint64(round)*7+uint64(pos)*3)%uint64(len(acts))]
		assign[id] = t
		return t, true
	}
	// "all weights": dyadic scales (exactly representable whatever the precision) and scales that fill the whole float64
	// mantissa (an implementation that keeps weights in less than double precision differs beyond the summation-order tolerance)
	wscale, iscale := 1.0, 1.0
	switch (seed + uint64(round)) % 4 {
	case 1:
		wscale, iscale = 0.25, 0.5
	case 2:
		wscale, iscale = 0.1, 0.37
	case 3:
		wscale, iscale = math.Pi/7, 1.0/3
	}
	inp := floats(c.Inp, iscale)
	// fill `assign`
	c.Net.direct(over, wscale)
	want, err := reference(&c.Net, c.Topo, assign, inp, wscale)
	if err != nil {
		return "reference evaluation failed: " + err.Error()
	}
	d := c.Depth
	plan := map[string][]solverEntry{
		"std":  {{Call: "forward", Arg: d}, {Call: "forward", Arg: 1}},
		"fwd":  {{Call: "forward", Arg: d}, {Call: "forward", Arg: 2}},
		"rec":  {{Call: "recursive"}, {Call: "recursive"}},
		"rlx":  {{Call: "relax", Arg: d + 1}},
		"rlxd": {{Call: "relax", Arg: d}, {Call: "relax", Arg: 3}},
	}
	for _, v := range c.variants(over, wscale) {
		for _, proc := range procNames {
			r, err := newRunner(v, proc)
			if err != nil {
				bad += fmt.Sprintf("%s/%s: cannot build: %v; ", v.name, proc, err)
				continue
			}
			if r == nil {
				continue
			}
			if err := r.load(inp, &c.Net, v.withBias); err != nil {
				bad += fmt.Sprintf("%s/%s: LoadSensors failed: %v; ", v.name, proc, err)
				continue
			}
			for i, e := range plan[proc] {
				err := r.call(e.Call, e.Arg, tinyDelta)
				rep.Evaluations++
				got := r.outputs()
				if err != nil {
					bad += fmt.Sprintf("%s/%s call %d %s(%d) returned error %v; ", v.name, proc, i+1, e.Call, e.Arg, err)
					break
				}
				if !closeAll(got, want) {
					names := ""
					for _, id := range c.Topo {
						n, _ := neatmath.NodeActivators.ActivationNameFromType(assign[id])
						names += fmt.Sprintf("%d:%s ", id, n)
					}
					bad += fmt.Sprintf("%s/%s call %d %s(%d) with activations {%s} weights x%v inputs %s: outputs %s, "+
						"topological evaluation %s (depth %d); ", v.name, proc, i+1, e.Call, e.Arg, names, wscale,
						fstrs(inp), fstrs(got), fstrs(want), d)
					break
				}
			}
		}
	}
	return bad
}

func replaySolvers(args []string) int {
	fs := flag.NewFlagSet("replay-solvers", flag.ExitOnError)
	cases := fs.String("cases", "", "NDJSON behaviours printed by MC_Solvers")
	out := fs.String("out", "", "report file")
	rounds := fs.Int("float-rounds", 2, "re-runs of every case with activation types dealt from all registered ones")
	_ = fs.Parse(args)
	rep := &vhu.Report{Command: "replay-solvers"}
	acts := scalarActivations(true)
	seen := map[uint64]bool{}
	err := vhu.ReadNDJSON(*cases, func(line []byte) error {
		var c solverCase
		if err := json.Unmarshal(line, &c); err != nil {
			return err
		}
		if c.Kind != "solvers" {
			return nil
		}
		raw := json.RawMessage(append([]byte(nil), line...))
		h := fnv.New64a()
		_, _ = h.Write(line)
		key := h.Sum64()
		rep.Cases++
		// non-trivial: a bias link with a non-zero weight in a network of depth >= 2
		biasLink := false
		kind := map[int]string{}
		for _, n := range c.Net.Nodes {
			kind[n.Id] = n.Kind
		}
		for _, l := range c.Net.Links {
			if kind[l.Src] == "B" && l.W != 0 {
				biasLink = true
			}
		}
		if biasLink && c.Depth >= 2 && !seen[key] {
			rep.Nontrivial++
		}
		seen[key] = true
		bad := ""
		done := make(chan struct{})
		go func() {
			defer close(done)
			if p := vhu.Guard(func() {
				bad += c.runInteger(rep)
				for r := 0; r < *rounds; r++ {
					bad += c.runFloat(rep, key, r, acts)
				}
			}); p != "" {
				bad += "panic: " + p + "; "
			}
		}()
		select {
		case <-done:
		case <-time.After(20 * time.Second):
			bad += "the solvers did not terminate within 20s; "
		}
		if bad != "" {
			rep.Fail(map[string]interface{}{"case": raw, "what": bad, "signature": "solvers " + string(line)})
		} else if biasLink && c.Depth >= 3 {
			rep.Sample(raw)
		}
		return nil
	})
	if err != nil {
		fmt.Println("vh_solvers replay-solvers:", err)
		return 2
	}
	return rep.Write(*out)
}

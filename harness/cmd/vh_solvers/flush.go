package main

import (
	"encoding/json"
	"flag"
	"fmt"
	"sort"
	"sync"
	"time"

	neatmath "github.com/yaricom/goNEAT/v4/neat/math"
	"github.com/yaricom/goNEAT/v4/neat/network"

	"verifharness/vhu"
)

// C13 replay.  MC_Flush prints, per network, the HISTORIES (sequences of API calls before the flush, with the
// observations the specification assigns after each call) and the SUFFIXES (sequences of calls after the flush, with
// the observations of a fresh twin).  For every network every history is combined with every suffix (capped, evenly
// thinned): a real instance lives through `history; Flush; suffix`, a freshly built twin through `suffix` only, and
// after EVERY suffix call outputs (bit for bit) and error results of instance and twin must coincide - for the
// standard network and for the fast solver, built through the network API and from a genome, with the
// specification's integer-closed activations and again with the library's other activation types.
// Independently of the verdict the real observations are compared with the specification's (conformance of the
// model); a mismatch there is reported separately - it is not a violation of C13.

type flushOp struct {
	Op string `json:"op"` // load, fwd, rec, relax, act
	K  int    `json:"k"`
	V  []int  `json:"v"`
}

type flushObs struct {
	So []int `json:"so"`
	Se bool  `json:"se"`
	Fo []int `json:"fo"`
	Fe bool  `json:"fe"`
}

type flushSeq struct {
	Ops []flushOp  `json:"ops"`
	Log []flushObs `json:"log"`
}

type flushLine struct {
	Kind   string          `json:"kind"` // hist, suffix, pair
	Net    json.RawMessage `json:"net"`
	Ops    []flushOp       `json:"ops"`
	Log    []flushObs      `json:"log"`
	Hist   *flushSeq       `json:"hist"`
	Suffix *flushSeq       `json:"suffix"`
	Salt   *int            `json:"salt"` // pair: the draw of the non-integer activation types of the recorded run
}

type flushGroup struct {
	raw   json.RawMessage
	net   netCase
	hists []flushSeq
	sufs  []flushSeq
	pairs []flushPair // explicit pairs (replay of recorded failures)
}

type flushPair struct {
	h, s flushSeq
	salt int // decides which activation types the float round deals; -1: derive from the pair's position
}

func init() { commands["replay-flush"] = replayFlush }

type instance struct {
	std  *network.Network
	fast network.Solver
}

func newInstance(c *netCase, genome bool, over actOverride, wscale float64) (*instance, error) {
	build := func() (*network.Network, error) {
		if genome {
			return c.viaGenome(over, wscale)
		}
		return c.direct(over, wscale), nil
	}
	a, err := build()
	if err != nil || a == nil {
		return nil, err
	}
	b, err := build()
	if err != nil {
		return nil, err
	}
	fs, err := b.FastNetworkSolver()
	if err != nil {
		return nil, err
	}
	return &instance{std: a, fast: fs}, nil
}

type realObs struct {
	so, fo     []float64
	se, fe     bool
	serr, ferr error
}

func (in *instance) apply(o flushOp, iscale float64, delta float64) realObs {
	var r realObs
	switch o.Op {
	case "load":
		v := floats(o.V, iscale)
		r.serr = in.std.LoadSensors(v)
		r.ferr = in.fast.LoadSensors(v)
	case "fwd":
		_, r.serr = in.std.ForwardSteps(o.K)
		_, r.ferr = in.fast.ForwardSteps(o.K)
	case "rec":
		_, r.serr = in.std.RecursiveSteps()
		_, r.ferr = in.fast.RecursiveSteps()
	case "relax":
		_, r.serr = in.std.ActivateSteps(o.K)
		_, r.ferr = in.fast.Relax(o.K, delta)
	case "act":
		_, r.serr = in.std.Activate()
		_, r.ferr = in.fast.Relax(2, 0)
	case "flush":
		_, r.serr = in.std.Flush()
		_, r.ferr = in.fast.Flush()
	default:
		panic("unknown op " + o.Op)
	}
	r.se, r.fe = r.serr != nil, r.ferr != nil
	r.so, r.fo = in.std.ReadOutputs(), in.fast.ReadOutputs()
	return r
}

func opString(o flushOp) string {
	switch o.Op {
	case "load":
		return fmt.Sprintf("load%v", o.V)
	case "fwd", "relax":
		return fmt.Sprintf("%s(%d)", o.Op, o.K)
	}
	return o.Op
}

func opsString(ops []flushOp) string {
	s := ""
	for i, o := range ops {
		if i > 0 {
			s += "; "
		}
		s += opString(o)
	}
	return s
}

func (r realObs) matches(e flushObs) bool {
	return r.se == e.Se && r.fe == e.Fe && equalsInts(r.so, e.So) && equalsInts(r.fo, e.Fo)
}

// hasFeedback: a cycle (incl. self-loop) or a time-delayed link.
func (c *netCase) hasFeedback() bool {
	if c.hasTd() {
		return true
	}
	adj := map[int][]int{}
	for _, l := range c.Links {
		adj[l.Src] = append(adj[l.Src], l.Dst)
	}
	state := map[int]int{}
	var visit func(n int) bool
	visit = func(n int) bool {
		state[n] = 1
		for _, m := range adj[n] {
			if state[m] == 1 || (state[m] == 0 && visit(m)) {
				return true
			}
		}
		state[n] = 2
		return false
	}
	for _, n := range c.Nodes {
		if state[n.Id] == 0 && visit(n.Id) {
			return true
		}
	}
	return false
}

func leavesState(ops []flushOp) bool {
	loaded := false
	for _, o := range ops {
		if o.Op == "load" {
			loaded = true
		} else if loaded {
			return true
		}
	}
	return false
}

type flushStats struct {
	conformance      int
	conformanceNotes []string
}

// runPair executes one `history; Flush; suffix` against a twin. mode "int": specification's activations, with
// conformance checks; mode "float": other activation types, twin comparison only.
func runPair(g *flushGroup, h, s flushSeq, genome bool, float bool, acts []neatmath.NodeActivationType, salt int,
	rep *vhu.Report, st *flushStats) (bad string) {
	var over actOverride
	wscale, iscale, delta := 1.0, 1.0, intDelta
	if float {
		over = func(pos int, id int) (neatmath.NodeActivationType, bool) {
			return acts[(salt+pos*5)%len(acts)], true
		}
		wscale, iscale = 0.5, 0.75
		delta = 1e-3
	}
	name := "direct"
	if genome {
		name = "genome"
	}
	if float {
		name += "/float"
	}
	a, err := newInstance(&g.net, genome, over, wscale)
	if err != nil {
		return name + ": cannot build the network: " + err.Error() + "; "
	}
	if a == nil {
		return ""
	}
	t, err := newInstance(&g.net, genome, over, wscale)
	if err != nil || t == nil {
		return name + ": cannot build the twin; "
	}
	note := func(format string, args ...interface{}) {
		st.conformance++
		if len(st.conformanceNotes) < 5 {
			st.conformanceNotes = append(st.conformanceNotes, name+": "+fmt.Sprintf(format, args...)+" net="+string(g.raw))
		}
	}
	for i, o := range h.Ops {
		r := a.apply(o, iscale, delta)
		rep.Evaluations++
		if !float && i < len(h.Log) && !r.matches(h.Log[i]) {
			note("history [%s] call %d: real std=%s err=%v fast=%s err=%v, specification std=%v err=%v fast=%v err=%v",
				opsString(h.Ops), i+1, fstrs(r.so), r.se, fstrs(r.fo), r.fe, h.Log[i].So, h.Log[i].Se, h.Log[i].Fo, h.Log[i].Fe)
			break
		}
	}
	if ok, err := a.std.Flush(); err != nil || !ok {
		bad += fmt.Sprintf("%s: Network.Flush after history [%s] returned (%v, %v); ", name, opsString(h.Ops), ok, err)
	}
	if ok, err := a.fast.Flush(); err != nil || !ok {
		bad += fmt.Sprintf("%s: fast solver Flush after history [%s] returned (%v, %v); ", name, opsString(h.Ops), ok, err)
	}
	stdDone, fastDone := false, false
	for i, o := range s.Ops {
		ra := a.apply(o, iscale, delta)
		rt := t.apply(o, iscale, delta)
		rep.Evaluations += 2
		if !stdDone && (ra.se != rt.se || !sameBits(ra.so, rt.so)) {
			bad += fmt.Sprintf("%s: standard network after [%s]; Flush; [%s] (call %d of the suffix) has outputs %s err=%v, "+
				"a fresh network after the same suffix has %s err=%v; ", name, opsString(h.Ops), opsString(s.Ops[:i+1]), i+1,
				fstrs(ra.so), ra.serr, fstrs(rt.so), rt.serr)
			stdDone = true
		}
		if !fastDone && (ra.fe != rt.fe || !sameBits(ra.fo, rt.fo)) {
			bad += fmt.Sprintf("%s: fast solver after [%s]; Flush; [%s] (call %d of the suffix) has outputs %s err=%v, "+
				"a fresh solver after the same suffix has %s err=%v; ", name, opsString(h.Ops), opsString(s.Ops[:i+1]), i+1,
				fstrs(ra.fo), ra.ferr, fstrs(rt.fo), rt.ferr)
			fastDone = true
		}
		if !float && i < len(s.Log) && !rt.matches(s.Log[i]) {
			note("fresh instance, suffix [%s] call %d: real std=%s err=%v fast=%s err=%v, specification std=%v err=%v fast=%v err=%v",
				opsString(s.Ops), i+1, fstrs(rt.so), rt.se, fstrs(rt.fo), rt.fe, s.Log[i].So, s.Log[i].Se, s.Log[i].Fo, s.Log[i].Fe)
			break
		}
		if stdDone && fastDone {
			break
		}
	}
	return bad
}

func replayFlush(args []string) int {
	fs := flag.NewFlagSet("replay-flush", flag.ExitOnError)
	cases := fs.String("cases", "", "NDJSON hist/suffix (or pair) lines printed by MC_Flush")
	out := fs.String("out", "", "report file")
	maxPairs := fs.Int("maxpairs", 3000, "cap on history x suffix combinations per network")
	workers := fs.Int("workers", 6, "parallel replay workers (one network each)")
	_ = fs.Parse(args)
	rep := &vhu.Report{Command: "replay-flush"}
	groups := map[string]*flushGroup{}
	var order []string
	err := vhu.ReadNDJSON(*cases, func(line []byte) error {
		var l flushLine
		if err := json.Unmarshal(line, &l); err != nil {
			return err
		}
		if l.Kind != "hist" && l.Kind != "suffix" && l.Kind != "pair" {
			return nil
		}
		key := string(l.Net)
		g := groups[key]
		if g == nil {
			g = &flushGroup{raw: append(json.RawMessage(nil), l.Net...)}
			if err := json.Unmarshal(l.Net, &g.net); err != nil {
				return err
			}
			groups[key] = g
			order = append(order, key)
		}
		switch l.Kind {
		case "hist":
			g.hists = append(g.hists, flushSeq{l.Ops, l.Log})
		case "suffix":
			g.sufs = append(g.sufs, flushSeq{l.Ops, l.Log})
		case "pair":
			if l.Hist != nil && l.Suffix != nil {
				salt := -1
				if l.Salt != nil {
					salt = *l.Salt
				}
				g.pairs = append(g.pairs, flushPair{*l.Hist, *l.Suffix, salt})
			}
		}
		return nil
	})
	if err != nil {
		fmt.Println("vh_solvers replay-flush:", err)
		return 2
	}
	sort.Strings(order)
	acts := scalarActivations(false)
	seed := int(vhu.EnvSeed())
	type result struct {
		rep       *vhu.Report
		st        *flushStats
		recurrent bool
		pairs     int
	}
	results := make([]result, len(order))
	runGroup := func(gi int) {
		g := groups[order[gi]]
		lrep := &vhu.Report{}
		st := &flushStats{}
		res := result{rep: lrep, st: st}
		feedback := g.net.hasFeedback()
		res.recurrent = feedback
		pairs := g.pairs
		if len(pairs) == 0 {
			total := len(g.hists) * len(g.sufs)
			step := 1
			if total > *maxPairs {
				step = (total + *maxPairs - 1) / *maxPairs
			}
			for i, h := range g.hists {
				for j, s := range g.sufs {
					// thinning by a multiplicative hash of the pair's index (no alignment with rows or columns)
					if step == 1 || int((uint32(i*len(g.sufs)+j+seed+gi)*2654435761)>>8)%step == 0 {
						pairs = append(pairs, flushPair{h, s, -1})
					}
				}
			}
			// "evaluating the same organism repeatedly on the same inputs": the suffix is also its own history
			for _, s := range g.sufs {
				pairs = append(pairs, flushPair{flushSeq{Ops: s.Ops}, s, -1})
			}
		}
		done := make(chan struct{})
		var current flushPair
		go func() {
			defer close(done)
			for pi, p := range pairs {
				current = p
				lrep.Cases++
				res.pairs++
				// (a suffix run as its own history repeats a history x suffix combination: not counted as distinct)
				if feedback && leavesState(p.h.Ops) && len(p.h.Log) > 0 {
					lrep.Nontrivial++
				}
				bad := ""
				salt := p.salt
				if salt < 0 {
					salt = seed + gi*31 + pi
				}
				if pn := vhu.Guard(func() {
					for _, genome := range []bool{false, true} {
						bad += runPair(g, p.h, p.s, genome, false, acts, 0, lrep, st)
						bad += runPair(g, p.h, p.s, genome, true, acts, salt, lrep, st)
					}
				}); pn != "" {
					bad += "panic: " + pn + "; "
				}
				if bad != "" {
					pc := map[string]interface{}{"kind": "pair", "net": g.raw, "hist": p.h, "suffix": p.s, "salt": salt}
					raw, _ := json.Marshal(pc)
					lrep.Fail(map[string]interface{}{"case": json.RawMessage(raw), "what": bad,
						"signature": "flush " + string(raw)})
				} else if feedback && leavesState(p.h.Ops) && len(p.h.Log) > 0 {
					lrep.Sample(map[string]interface{}{"net": g.raw, "hist": p.h.Ops, "suffix": p.s})
				}
			}
		}()
		select {
		case <-done:
		case <-time.After(120 * time.Second):
			pc := map[string]interface{}{"kind": "pair", "net": g.raw, "hist": current.h, "suffix": current.s}
			raw, _ := json.Marshal(pc)
			// the stuck goroutine still owns lrep: report through a fresh one
			res.rep = &vhu.Report{}
			res.rep.Fail(map[string]interface{}{"case": json.RawMessage(raw),
				"what": "the solvers did not terminate within 120s on this network", "signature": "flush timeout " + string(g.raw)})
			res.st = &flushStats{}
		}
		results[gi] = res
	}
	var wg sync.WaitGroup
	next := make(chan int)
	for w := 0; w < *workers; w++ {
		wg.Add(1)
		go func() {
			defer wg.Done()
			for gi := range next {
				runGroup(gi)
			}
		}()
	}
	for gi := range order {
		next <- gi
	}
	close(next)
	wg.Wait()
	conf, recurrentNets, pairsRun := 0, 0, 0
	var notes []string
	for _, r := range results {
		rep.Cases += r.rep.Cases
		rep.Nontrivial += r.rep.Nontrivial
		rep.Evaluations += r.rep.Evaluations
		for _, f := range r.rep.Failures {
			rep.Fail(f)
		}
		for _, smp := range r.rep.Samples {
			rep.Sample(smp)
		}
		conf += r.st.conformance
		for _, n := range r.st.conformanceNotes {
			if len(notes) < 5 {
				notes = append(notes, n)
			}
		}
		if r.recurrent {
			recurrentNets++
		}
		pairsRun += r.pairs
	}
	rep.Extra = map[string]interface{}{"networks": len(order), "recurrent_networks": recurrentNets, "pairs": pairsRun,
		"conformance_mismatches": conf, "conformance_examples": notes}
	return rep.Write(*out)
}

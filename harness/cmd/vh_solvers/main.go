// Command vh_solvers replays the TLC-generated cases of the solver family on the real goNEAT code:
// C12 (all solvers compute the feed-forward function) and C13 (flush makes a network indistinguishable from a
// fresh one).  The specification is spec/Solvers.tla; cases come from MC_Solvers / MC_Flush.
package main

import (
	"fmt"
	"os"

	"github.com/yaricom/goNEAT/v4/neat"
)

type command func(args []string) int

var commands = map[string]command{}

func main() {
	_ = neat.InitLogger("error")
	if len(os.Args) < 2 {
		fmt.Fprintln(os.Stderr, "usage: vh_solvers <command> [flags]")
		os.Exit(2)
	}
	cmd, ok := commands[os.Args[1]]
	if !ok {
		fmt.Fprintf(os.Stderr, "vh_solvers: unknown command %q\n", os.Args[1])
		os.Exit(2)
	}
	os.Exit(cmd(os.Args[2:]))
}

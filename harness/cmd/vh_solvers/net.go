package main

import (
	"fmt"
	"math"

	"github.com/yaricom/goNEAT/v4/neat"
	"github.com/yaricom/goNEAT/v4/neat/genetics"
	neatmath "github.com/yaricom/goNEAT/v4/neat/math"
	"github.com/yaricom/goNEAT/v4/neat/network"
)

// netCase is the JSON view of a network record of Solvers.tla (NetJson).
type netCase struct {
	Nodes []struct {
		Id   int    `json:"id"`
		Kind string `json:"kind"` // I, B, H, O
		Act  string `json:"act"`
	} `json:"nodes"` // Network.allNodes order
	Inputs  []int `json:"inputs"`  // Network.inputs (sensors incl. bias)
	Outputs []int `json:"outputs"` // Network.Outputs
	Links   []struct {
		Src int  `json:"src"`
		Dst int  `json:"dst"`
		W   int  `json:"w"`
		Td  bool `json:"td"`
	} `json:"links"` // grouped by target, in the order of NNode.Incoming
	// control (MIMO) nodes of a modular network - only in the information-only cases of MC_Modular
	Ctrl []struct {
		Act  string `json:"act"` // mul, max, min
		Ins  []int  `json:"ins"`
		Outs []int  `json:"outs"`
	} `json:"ctrl"`
}

// the integer-closed activation functions of the specification
var intActs = map[string]neatmath.NodeActivationType{
	"linear": neatmath.LinearActivation,
	"abs":    neatmath.LinearAbsActivation,
	"clip":   neatmath.LinearClippedActivation,
	"null":   neatmath.NullActivation,
	"sign":   neatmath.SignActivation,
	"step":   neatmath.StepActivation,
}

// scalarActivations lists every registered single-valued activation type of the library; with continuousOnly the two
// discontinuous ones (step, sign) are left out: at an exactly cancelling sum their value legitimately depends on the
// floating-point summation order, and they are covered exactly by the integer rounds.
func scalarActivations(continuousOnly bool) []neatmath.NodeActivationType {
	var ts []neatmath.NodeActivationType
	for t := 1; t < 128; t++ {
		at := neatmath.NodeActivationType(t)
		if _, err := neatmath.NodeActivators.ActivationNameFromType(at); err != nil {
			continue
		}
		if _, err := neatmath.NodeActivators.ActivateByType(0.25, nil, at); err != nil {
			continue // a module activator
		}
		if continuousOnly && (at == neatmath.StepActivation || at == neatmath.SignActivation) {
			continue
		}
		ts = append(ts, at)
	}
	return ts
}

func neuronType(kind string) network.NodeNeuronType {
	switch kind {
	case "I":
		return network.InputNeuron
	case "B":
		return network.BiasNeuron
	case "O":
		return network.OutputNeuron
	}
	return network.HiddenNeuron
}

func (c *netCase) hasTd() bool {
	for _, l := range c.Links {
		if l.Td {
			return true
		}
	}
	return false
}

func (c *netCase) hasBias() bool {
	for _, n := range c.Nodes {
		if n.Kind == "B" {
			return true
		}
	}
	return false
}

// actOf decides the activation type of a neuron: the specification's integer-closed one, or an override.
type actOverride func(pos int, id int) (neatmath.NodeActivationType, bool)

func (c *netCase) nodeAct(pos int, over actOverride) neatmath.NodeActivationType {
	n := c.Nodes[pos]
	if n.Kind == "I" || n.Kind == "B" {
		return neatmath.NullActivation // as NewSensorNode does
	}
	if over != nil {
		if t, ok := over(pos, n.Id); ok {
			return t
		}
	}
	return intActs[n.Act]
}

// direct builds the network through the network API (nodes, ConnectFrom, NewNetwork).
func (c *netCase) direct(over actOverride, wscale float64) *network.Network {
	return c.directOrdered(over, wscale, false)
}

func (c *netCase) directOrdered(over actOverride, wscale float64, reverseNeurons bool) *network.Network {
	nodes := map[int]*network.NNode{}
	var all, ins, outs []*network.NNode
	for i, n := range c.Nodes {
		nn := network.NewNNode(n.Id, neuronType(n.Kind))
		nn.ActivationType = c.nodeAct(i, over)
		nodes[n.Id] = nn
		all = append(all, nn)
	}
	for _, id := range c.Inputs {
		ins = append(ins, nodes[id])
	}
	for _, id := range c.Outputs {
		outs = append(outs, nodes[id])
	}
	pos := map[int]int{}
	for i, n := range c.Nodes {
		pos[n.Id] = i
	}
	for _, l := range c.Links {
		lk := nodes[l.Dst].ConnectFrom(nodes[l.Src], float64(l.W)*wscale)
		lk.IsTimeDelayed = l.Td
		lk.IsRecurrent = pos[l.Src] >= pos[l.Dst]
	}
	if reverseNeurons {
		var sensors, neurons []*network.NNode
		for _, x := range all {
			if x.IsSensor() {
				sensors = append(sensors, x)
			} else {
				neurons = append([]*network.NNode{x}, neurons...)
			}
		}
		all = append(sensors, neurons...)
	}
	return network.NewNetwork(ins, outs, all, 1)
}

// directShuffled builds the same network with the NEURONS of its all-nodes list in the opposite order (sensors stay
// in front, in order: the fast solver numbers its inputs by that list): which neuron is output k is said by
// Network.Outputs, not by the position of the neuron in the all-nodes list.
func (c *netCase) directShuffled(over actOverride, wscale float64) *network.Network {
	return c.directOrdered(over, wscale, true)
}

// viaGenome expresses the same network from a genome (nodes in allNodes order, one enabled gene per link in the
// order of the incoming lists) with Genesis. Not available for time-delayed links (a genome cannot say that).
func (c *netCase) viaGenome(over actOverride, wscale float64) (*network.Network, error) {
	if c.hasTd() || len(c.Links) == 0 {
		return nil, nil
	}
	tr := neat.NewTrait()
	tr.Id = 1
	nodes := map[int]*network.NNode{}
	var all []*network.NNode
	pos := map[int]int{}
	for i, n := range c.Nodes {
		nn := network.NewNNode(n.Id, neuronType(n.Kind))
		nn.ActivationType = c.nodeAct(i, over)
		nodes[n.Id] = nn
		all = append(all, nn)
		pos[n.Id] = i
	}
	var genes []*genetics.Gene
	for i, l := range c.Links {
		genes = append(genes, genetics.NewGene(float64(l.W)*wscale, nodes[l.Src], nodes[l.Dst], pos[l.Src] >= pos[l.Dst],
			int64(i+1), 0))
	}
	g := genetics.NewGenome(1, []*neat.Trait{tr}, all, genes)
	net, err := g.Genesis(1)
	if err != nil {
		return nil, err
	}
	// the quantifier speaks of the network whose inputs / outputs are the genome's sensors / outputs in order
	if len(net.Outputs) != len(c.Outputs) {
		return nil, fmt.Errorf("Genesis produced %d outputs for %d output nodes", len(net.Outputs), len(c.Outputs))
	}
	return net, nil
}

// sensorVector is the argument of LoadSensors for the "I" inputs v; withBias also passes the bias value(s) 1.0
// explicitly (the len(sensors) == len(inputs) branch of Network.LoadSensors).
func (c *netCase) sensorVector(v []float64, withBias bool) []float64 {
	if !withBias {
		return v
	}
	kind := map[int]string{}
	for _, n := range c.Nodes {
		kind[n.Id] = n.Kind
	}
	var out []float64
	k := 0
	for _, id := range c.Inputs {
		if kind[id] == "I" {
			out = append(out, v[k])
			k++
		} else {
			out = append(out, 1.0)
		}
	}
	return out
}

func floats(v []int, scale float64) []float64 {
	out := make([]float64, len(v))
	for i, x := range v {
		out[i] = float64(x) * scale
	}
	return out
}

func sameBits(a, b []float64) bool {
	if len(a) != len(b) {
		return false
	}
	for i := range a {
		if math.Float64bits(a[i]) != math.Float64bits(b[i]) {
			return false
		}
	}
	return true
}

func equalsInts(a []float64, want []int) bool {
	if len(a) != len(want) {
		return false
	}
	for i := range a {
		if a[i] != float64(want[i]) {
			return false
		}
	}
	return true
}

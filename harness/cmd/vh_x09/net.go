package main

import (
	"errors"
	"fmt"
	"strings"

	"github.com/yaricom/goNEAT/v4/neat"
	"github.com/yaricom/goNEAT/v4/neat/genetics"
	neatmath "github.com/yaricom/goNEAT/v4/neat/math"
	"github.com/yaricom/goNEAT/v4/neat/network"
)

// netCase is the JSON view of a network record of ActProtocol.tla (NetJsonX).
type linkCase struct {
	Src int  `json:"src"`
	Dst int  `json:"dst"`
	W   int  `json:"w"`
	Td  bool `json:"td"`
	Rec bool `json:"rec"`
}
type netCase struct {
	Nodes []struct {
		Id   int    `json:"id"`
		Kind string `json:"kind"` // I, B, H, O
		Act  string `json:"act"`
	} `json:"nodes"` // Network.allNodes order
	Inputs  []int      `json:"inputs"`
	Outputs []int      `json:"outputs"`
	Links   []linkCase `json:"links"` // creation order
	Build   string     `json:"build"` // connect: NNode.ConnectFrom; halves: AddIncoming + AddOutgoing
}

var intActs = map[string]neatmath.NodeActivationType{
	"linear": neatmath.LinearActivation,
	"abs":    neatmath.LinearAbsActivation,
	"clip":   neatmath.LinearClippedActivation,
	"null":   neatmath.NullActivation,
	"sign":   neatmath.SignActivation,
	"step":   neatmath.StepActivation,
}

func neuronType(kind string) network.NodeNeuronType {
	switch kind {
	case "I":
		return network.InputNeuron
	case "B":
		return network.BiasNeuron
	case "O":
		return network.OutputNeuron
	}
	return network.HiddenNeuron
}

func (c *netCase) ni() int {
	n := 0
	for _, x := range c.Nodes {
		if x.Kind == "I" {
			n++
		}
	}
	return n
}

func (c *netCase) hasTd() bool {
	for _, l := range c.Links {
		if l.Td {
			return true
		}
	}
	return false
}

type built struct {
	net   *network.Network
	nodes []*network.NNode // in the order of c.Nodes
	byId  map[int]*network.NNode
}

// direct builds the network through the network API: NewNNode / NewSensorNode, ConnectFrom or AddIncoming + AddOutgoing,
// NewNetwork.
func (c *netCase) direct(build string) *built {
	b := &built{byId: map[int]*network.NNode{}}
	for _, n := range c.Nodes {
		var nn *network.NNode
		if n.Kind == "I" || n.Kind == "B" {
			nn = network.NewSensorNode(n.Id, n.Kind == "B")
		} else {
			nn = network.NewNNode(n.Id, neuronType(n.Kind))
			nn.ActivationType = intActs[n.Act]
		}
		b.byId[n.Id] = nn
		b.nodes = append(b.nodes, nn)
	}
	var ins, outs []*network.NNode
	for _, id := range c.Inputs {
		ins = append(ins, b.byId[id])
	}
	for _, id := range c.Outputs {
		outs = append(outs, b.byId[id])
	}
	for _, l := range c.Links {
		var lk *network.Link
		if build == "halves" {
			lk = b.byId[l.Dst].AddIncoming(b.byId[l.Src], float64(l.W))
			b.byId[l.Src].AddOutgoing(b.byId[l.Dst], float64(l.W))
		} else {
			lk = b.byId[l.Dst].ConnectFrom(b.byId[l.Src], float64(l.W))
		}
		lk.IsTimeDelayed = l.Td
		lk.IsRecurrent = l.Rec
	}
	b.net = network.NewNetwork(ins, outs, append([]*network.NNode(nil), b.nodes...), 1)
	return b
}

// viaGenome expresses the same network from a genome with Genesis (nil when the network cannot be said by a genome:
// time-delayed links, no link at all).
func (c *netCase) viaGenome() (*built, error) {
	if c.hasTd() || len(c.Links) == 0 {
		return nil, nil
	}
	tr := neat.NewTrait()
	tr.Id = 1
	gn := map[int]*network.NNode{}
	var all []*network.NNode
	for _, n := range c.Nodes {
		nn := network.NewNNode(n.Id, neuronType(n.Kind))
		if n.Kind == "I" || n.Kind == "B" {
			nn.ActivationType = neatmath.NullActivation
		} else {
			nn.ActivationType = intActs[n.Act]
		}
		gn[n.Id] = nn
		all = append(all, nn)
	}
	var genes []*genetics.Gene
	for i, l := range c.Links {
		genes = append(genes, genetics.NewGene(float64(l.W), gn[l.Src], gn[l.Dst], l.Rec, int64(i+1), 0))
	}
	g := genetics.NewGenome(1, []*neat.Trait{tr}, all, genes)
	net, err := g.Genesis(1)
	if err != nil {
		return nil, err
	}
	b := &built{net: net, byId: map[int]*network.NNode{}}
	base := net.BaseNodes()
	if len(base) != len(c.Nodes) {
		return nil, fmt.Errorf("Genesis produced %d nodes for %d genome nodes", len(base), len(c.Nodes))
	}
	for i, n := range c.Nodes {
		if base[i].Id != n.Id {
			return nil, fmt.Errorf("Genesis: node %d of the network has id %d, the genome says %d", i, base[i].Id, n.Id)
		}
		b.nodes = append(b.nodes, base[i])
		b.byId[n.Id] = base[i]
	}
	return b, nil
}

// errClass maps an error of the library to the class names of the specification.
func errClass(err error) string {
	switch {
	case err == nil:
		return "nil"
	case errors.Is(err, network.ErrZeroActivationStepsRequested):
		return "zero"
	case errors.Is(err, network.ErrNetExceededMaxActivationAttempts):
		return "exceeded"
	case errors.Is(err, network.ErrNetUnsupportedSensorsArraySize):
		return "size"
	case strings.Contains(err.Error(), "not implemented"):
		return "notimpl"
	case strings.Contains(err.Error(), "nonexistent Organism"):
		return "absent"
	case strings.Contains(err.Error(), "without GENES"):
		return "nogenes"
	}
	return "other: " + err.Error()
}

func floats(v []int) []float64 {
	out := make([]float64, len(v))
	for i, x := range v {
		out[i] = float64(x)
	}
	return out
}

func eqInts(a []float64, want []int) bool {
	if len(a) != len(want) {
		return false
	}
	for i := range a {
		if a[i] != float64(want[i]) {
			return false
		}
	}
	return true
}

package main

import (
	_ "unsafe" // go:linkname

	"github.com/yaricom/goNEAT/v4/neat/genetics"
)

// Species.removeOrganism / firstOrganism / lastImproved are unexported and have no `verif` export shim in /repo yet
// (the shim this suite would like is harness/shim_x09.go.txt).  Until it exists the real functions are bound at link
// time: no code of the library is copied or re-implemented here, the calls below execute the library's own functions.
// (stub.s in this directory only allows the body-less declarations.)

//go:linkname speciesRemoveOrganism github.com/yaricom/goNEAT/v4/neat/genetics.(*Species).removeOrganism
func speciesRemoveOrganism(s *genetics.Species, o *genetics.Organism) (bool, error)

//go:linkname speciesFirstOrganism github.com/yaricom/goNEAT/v4/neat/genetics.(*Species).firstOrganism
func speciesFirstOrganism(s *genetics.Species) *genetics.Organism

//go:linkname speciesLastImproved github.com/yaricom/goNEAT/v4/neat/genetics.(*Species).lastImproved
func speciesLastImproved(s *genetics.Species) int

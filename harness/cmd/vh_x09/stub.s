// intentionally empty: its presence lets linkname.go declare functions without bodies

package main

import (
	"encoding/json"
	"flag"
	"fmt"
	"time"

	"verifharness/vhu"
)

type opCase struct {
	Op string `json:"op"`
	K  int    `json:"k"`
	D  int    `json:"d"`
	V  []int  `json:"v"`
}

func (o opCase) String() string {
	switch o.Op {
	case "load":
		return fmt.Sprintf("LoadSensors(%v)", o.V)
	case "sload":
		return fmt.Sprintf("node[%d].SensorLoad(%v)", o.K, o.V)
	case "act":
		return "Activate()"
	case "steps":
		return fmt.Sprintf("ActivateSteps(%d)", o.K)
	case "fwd":
		return fmt.Sprintf("ForwardSteps(%d)", o.K)
	case "rec":
		return "RecursiveSteps()"
	case "relax":
		return fmt.Sprintf("Relax(%d, %v)", o.K, float64(o.D)/2)
	case "flush":
		return "Flush()"
	}
	return fmt.Sprintf("%s(%d)", o.Op, o.K)
}

func opsString(ops []opCase, upto int) string {
	s := ""
	for i := 0; i <= upto && i < len(ops); i++ {
		if i > 0 {
			s += "; "
		}
		s += ops[i].String()
	}
	return s
}

type caseHead struct {
	Kind string `json:"kind"`
}

// tally collects the observations (behaviour that is specified as coded and departs from what one would expect; never a
// violation) and the per-kind counters of the report.
type tally struct {
	kinds map[string]int
	obs   map[string]int
	first map[string]string
}

func (t *tally) observe(key, example string) {
	t.obs[key]++
	if _, ok := t.first[key]; !ok {
		t.first[key] = example
	}
}

func init() { commands["replay"] = replay }

func replay(args []string) int {
	fs := flag.NewFlagSet("replay", flag.ExitOnError)
	cases := fs.String("cases", "", "NDJSON cases printed by MC_ActProtocol")
	out := fs.String("out", "", "report file")
	_ = fs.Parse(args)
	rep := &vhu.Report{Command: "replay", Extra: map[string]interface{}{}}
	t := &tally{kinds: map[string]int{}, obs: map[string]int{}, first: map[string]string{}}
	err := vhu.ReadNDJSON(*cases, func(line []byte) error {
		var h caseHead
		if err := json.Unmarshal(line, &h); err != nil {
			return err
		}
		raw := json.RawMessage(append([]byte(nil), line...))
		rep.Cases++
		t.kinds[h.Kind]++
		var bad string
		var nontrivial bool
		done := make(chan struct{})
		go func() {
			defer close(done)
			if p := vhu.Guard(func() {
				switch h.Kind {
				case "std":
					bad, nontrivial = replayStd(raw, rep, t)
				case "fast":
					bad, nontrivial = replayFast(raw, rep, t)
				case "static":
					bad, nontrivial = replayStatic(raw, rep, t)
				case "species":
					bad, nontrivial = replaySpecies(raw, rep, t)
				case "organism":
					bad, nontrivial = replayOrganism(raw, rep, t)
				case "damaged":
					bad, nontrivial = replayDamaged(raw, rep, t)
				default:
					bad = "unknown case kind " + h.Kind
				}
			}); p != "" {
				bad += "panic outside a guarded call: " + p + "; "
			}
		}()
		select {
		case <-done:
		case <-time.After(20 * time.Second):
			bad = "the call sequence did not terminate within 20s; "
			// the goroutine is lost; report and stop here, the process exits below
			rep.Fail(map[string]interface{}{"case": raw, "what": bad, "signature": h.Kind + " " + sig(line)})
			return fmt.Errorf("stuck")
		}
		if nontrivial {
			rep.Nontrivial++
		}
		if bad != "" {
			rep.Fail(map[string]interface{}{"case": raw, "what": bad, "signature": h.Kind + " " + sig(line)})
		} else if nontrivial {
			rep.Sample(raw)
		}
		return nil
	})
	rep.Extra["kinds"] = t.kinds
	rep.Extra["observations"] = t.obs
	rep.Extra["observation_examples"] = t.first
	if err != nil && err.Error() != "stuck" {
		fmt.Println("vh_x09 replay:", err)
		return 2
	}
	return rep.Write(*out)
}

func sig(line []byte) string {
	if len(line) > 400 {
		return string(line[:400])
	}
	return string(line)
}

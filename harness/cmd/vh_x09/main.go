// Command vh_x09 replays the TLC-generated cases of spec/MC_ActProtocol.tla (growth suite X09, ActProtocol) on the real
// goNEAT code: call sequences on the standard network and on the fast solver of networks of any topology (error class,
// returned boolean, outputs and per-node run-time state after EVERY call), the static queries of a network (node / link
// counts, Incoming / Outgoing lists, Network.IsRecurrent), and the helper operations of Species and Organism.
package main

import (
	"fmt"
	"os"

	"github.com/yaricom/goNEAT/v4/neat"
)

type command func(args []string) int

var commands = map[string]command{}

func main() {
	_ = neat.InitLogger("error")
	if len(os.Args) < 2 {
		fmt.Fprintln(os.Stderr, "usage: vh_x09 <command> [flags]")
		os.Exit(2)
	}
	cmd, ok := commands[os.Args[1]]
	if !ok {
		fmt.Fprintf(os.Stderr, "vh_x09: unknown command %q\n", os.Args[1])
		os.Exit(2)
	}
	os.Exit(cmd(os.Args[2:]))
}

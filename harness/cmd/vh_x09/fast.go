package main

import (
	"encoding/json"
	"fmt"

	"verifharness/vhu"

	"github.com/yaricom/goNEAT/v4/neat/network"
)

// mode "fast": a call sequence on the fast solver built by Network.FastNetworkSolver.
type fastObs struct {
	Err   string `json:"err"`
	Res   bool   `json:"res"`
	Outs  []int  `json:"outs"`
	Sig   []int  `json:"sig"`
	Pre   []int  `json:"pre"`
	Steps int    `json:"steps"`
}
type fastCase struct {
	Net netCase   `json:"net"`
	Ops []opCase  `json:"ops"`
	Log []fastObs `json:"log"`
}

func callFast(s network.Solver, o opCase) (cls string, res bool) {
	var err error
	p := vhu.Guard(func() {
		switch o.Op {
		case "load":
			err = s.LoadSensors(floats(o.V))
			res = err == nil
		case "fwd":
			res, err = s.ForwardSteps(o.K)
		case "rec":
			res, err = s.RecursiveSteps()
		case "relax":
			res, err = s.Relax(o.K, float64(o.D)/2)
		case "flush":
			res, err = s.Flush()
		default:
			panic("vh_x09: unknown call " + o.Op)
		}
	})
	if p != "" {
		return "panic", false
	}
	return errClass(err), res
}

func replayFast(raw json.RawMessage, rep *vhu.Report, t *tally) (bad string, nontrivial bool) {
	var c fastCase
	if err := json.Unmarshal(raw, &c); err != nil {
		return "cannot decode: " + err.Error(), false
	}
	for _, e := range c.Log {
		if e.Err != "nil" || !e.Res {
			nontrivial = true
		}
	}
	variants := []struct {
		name string
		mk   func() (*built, error)
	}{
		{"ConnectFrom", func() (*built, error) { return c.Net.direct("connect"), nil }},
		{"AddIncoming+AddOutgoing", func() (*built, error) { return c.Net.direct("halves"), nil }},
		{"Genesis", c.Net.viaGenome},
	}
	for vi, v := range variants {
		b, err := v.mk()
		if err != nil {
			return bad + v.name + ": " + err.Error() + "; ", nontrivial
		}
		if b == nil {
			continue
		}
		s, err := b.net.FastNetworkSolver()
		if err != nil {
			return bad + v.name + ": FastNetworkSolver: " + err.Error() + "; ", nontrivial
		}
		fm, ok := s.(*network.FastModularNetworkSolver)
		if !ok {
			return bad + v.name + ": FastNetworkSolver did not return a *FastModularNetworkSolver; ", nontrivial
		}
		for i, o := range c.Ops {
			e := c.Log[i]
			cls, res := callFast(s, o)
			rep.Evaluations++
			where := fmt.Sprintf("fast solver (%s), after %s: ", v.name, opsString(c.Ops, i))
			if cls != e.Err {
				bad += where + fmt.Sprintf("error class %q, specification gives %q; ", cls, e.Err)
				break
			}
			if res != e.Res {
				bad += where + fmt.Sprintf("returned %v, specification gives %v; ", res, e.Res)
				break
			}
			st := fm.VerifState()
			if outs := s.ReadOutputs(); !eqInts(outs, e.Outs) {
				bad += where + fmt.Sprintf("ReadOutputs %v want %v; ", outs, e.Outs)
				break
			}
			if !eqInts(st.Signals, e.Sig) {
				bad += where + fmt.Sprintf("neuron signals %v want %v (bias | input | output | hidden); ", st.Signals, e.Sig)
				break
			}
			if !eqInts(st.BeingProcessed, e.Pre) {
				bad += where + fmt.Sprintf("signals being processed %v want %v; ", st.BeingProcessed, e.Pre)
				break
			}
			if vi == 0 {
				if o.Op == "fwd" && o.K <= 0 {
					t.observe("fast_ForwardSteps_of_zero_or_fewer_steps_returns_false_without_error_(standard_network:_zero-steps_error)", opsString(c.Ops, i))
				}
				if o.Op == "relax" && o.D <= 0 && o.K > 1 {
					t.observe("fast_Relax_without_threshold_performs_a_single_step_whatever_maxSteps", opsString(c.Ops, i))
				}
				if o.Op == "relax" && o.K <= 0 {
					t.observe("fast_Relax_of_zero_steps_returns_false_without_error", opsString(c.Ops, i))
				}
				if o.Op == "load" && cls == "size" && len(o.V) == len(c.Net.Inputs) {
					t.observe("fast_LoadSensors_rejects_the_vector_with_bias_values_which_the_standard_network_accepts", opsString(c.Ops, i))
				}
			}
		}
		if bad != "" {
			return bad, nontrivial
		}
	}
	return bad, nontrivial
}

package main

import (
	"encoding/json"
	"fmt"
	"sort"

	"verifharness/vhu"

	"github.com/yaricom/goNEAT/v4/neat"
	"github.com/yaricom/goNEAT/v4/neat/genetics"
	neatmath "github.com/yaricom/goNEAT/v4/neat/math"
	"github.com/yaricom/goNEAT/v4/neat/network"
)

// ------------------------------------------------------------------------------------------------ species
type keyCase struct {
	Fit int `json:"fit"`
	Hi  int `json:"hi"`
}
type spObs struct {
	Err      string    `json:"err"`
	Ret      int       `json:"ret"`
	RetKey   []keyCase `json:"retkey"`
	Ids      []int     `json:"ids"`
	Keys     []keyCase `json:"keys"`
	Exact    bool      `json:"exact"`
	Size     int       `json:"size"`
	First    int       `json:"first"`
	FirstKey []keyCase `json:"firstkey"`
	LastImp  int       `json:"lastimp"`
}
type spCase struct {
	Par struct {
		Key []keyCase `json:"key"`
		Age int       `json:"age"`
		Imp int       `json:"imp"`
	} `json:"par"`
	Ops []opCase `json:"ops"`
	Log []spObs  `json:"log"`
}

func replaySpecies(raw json.RawMessage, rep *vhu.Report, t *tally) (bad string, nontrivial bool) {
	var c spCase
	if err := json.Unmarshal(raw, &c); err != nil {
		return "cannot decode: " + err.Error(), false
	}
	orgs := make([]*genetics.Organism, len(c.Par.Key))
	idOf := map[*genetics.Organism]int{}
	for i, k := range c.Par.Key {
		orgs[i] = &genetics.Organism{Fitness: float64(k.Fit)}
		orgs[i].VerifSetChampFields(float64(k.Hi), false)
		idOf[orgs[i]] = i + 1
	}
	keyOf := func(o *genetics.Organism) keyCase {
		hi, _ := o.VerifChampFields()
		return keyCase{int(o.Fitness), int(hi)}
	}
	sp := genetics.NewSpecies(7)
	if sp.Size() != 0 || sp.VerifFirstOrganism() != nil || sp.Age != 1 {
		bad += "a new species is not empty with age 1; "
	}
	sp.Age, sp.AgeOfLastImprovement = c.Par.Age, c.Par.Imp
	for i, o := range c.Ops {
		e := c.Log[i]
		if e.Err != "nil" || !e.Exact {
			nontrivial = true
		}
		where := fmt.Sprintf("species, after %s: ", spOps(c.Ops, i))
		cls := "nil"
		var champ *genetics.Organism
		if p := vhu.Guard(func() {
			switch o.Op {
			case "add":
				sp.VerifAddOrganism(orgs[o.K-1])
			case "remove":
				ok, err := sp.VerifRemoveOrganism(orgs[o.K-1])
				cls = errClass(err)
				if ok != (err == nil) {
					bad += where + fmt.Sprintf("removeOrganism returned (%v, %v); ", ok, err)
				}
			case "champ":
				champ = sp.VerifFindChampion()
			}
		}); p != "" {
			cls = "panic"
		}
		rep.Evaluations++
		if o.Op == "champ" && e.Err == "panic" {
			t.observe("findChampion_on_a_species_without_organisms_panics_(firstOrganism_returns_nil)", spOps(c.Ops, i))
			if cls == "nil" && champ == nil {
				cls = "panic" // a nil answer instead of the panic is accepted as well
				t.observe("findChampion_on_an_empty_species_answered_nil", spOps(c.Ops, i))
			}
		}
		if cls != e.Err {
			bad += where + fmt.Sprintf("error class %q, specification gives %q; ", cls, e.Err)
			break
		}
		if o.Op == "champ" && e.Err == "nil" {
			if champ == nil || len(e.RetKey) != 1 || keyOf(champ) != e.RetKey[0] || (e.Exact && idOf[champ] != e.Ret) {
				bad += where + fmt.Sprintf("findChampion returned organism %d, specification gives organism %d with key %v; ", idOf[champ], e.Ret, e.RetKey)
				break
			}
		}
		// the species afterwards
		var ids []int
		var keys []keyCase
		for _, m := range sp.Organisms {
			ids = append(ids, idOf[m])
			keys = append(keys, keyOf(m))
		}
		if fmt.Sprint(keys) != fmt.Sprint(e.Keys) && !(len(keys) == 0 && len(e.Keys) == 0) {
			bad += where + fmt.Sprintf("organisms have keys %v, specification gives %v; ", keys, e.Keys)
			break
		}
		si, se := append([]int(nil), ids...), append([]int(nil), e.Ids...)
		if !e.Exact {
			sort.Ints(si)
			sort.Ints(se)
		}
		if !eqIntsI(si, se) {
			bad += where + fmt.Sprintf("organisms are %v, specification gives %v (exact order: %v); ", ids, e.Ids, e.Exact)
			break
		}
		if sp.Size() != e.Size {
			bad += where + fmt.Sprintf("Size() %d want %d; ", sp.Size(), e.Size)
			break
		}
		first := sp.VerifFirstOrganism()
		switch {
		case len(e.FirstKey) == 0 && first != nil:
			bad += where + "firstOrganism is not nil on an empty species; "
		case len(e.FirstKey) == 1 && (first == nil || keyOf(first) != e.FirstKey[0] || (e.Exact && idOf[first] != e.First)):
			bad += where + fmt.Sprintf("firstOrganism is organism %d, specification gives %d with key %v; ", idOf[first], e.First, e.FirstKey)
		}
		if li := sp.VerifLastImproved(); li != e.LastImp {
			bad += where + fmt.Sprintf("lastImproved %d want %d; ", li, e.LastImp)
		}
		if bad != "" {
			break
		}
	}
	return bad, nontrivial
}

func spOps(ops []opCase, upto int) string {
	s := ""
	for i := 0; i <= upto && i < len(ops); i++ {
		s += fmt.Sprintf("%s(%d) ", ops[i].Op, ops[i].K)
	}
	return s
}

// ------------------------------------------------------------------------------------------------ organism
type geneCase struct {
	Src int `json:"src"`
	Dst int `json:"dst"`
	W   int `json:"w"`
	G   int `json:"g"`
}
type orgObs struct {
	Err     string     `json:"err"`
	Ret     int        `json:"ret"`
	Cache   int        `json:"cache"`
	Gph     int        `json:"gph"`
	Links   []geneCase `json:"links"`
	Fresh   bool       `json:"fresh"`
	Created int        `json:"created"`
}
type orgCase struct {
	Par struct {
		Genes []geneCase `json:"genes"`
		En    []bool     `json:"en"`
		Pre   bool       `json:"pre"`
	} `json:"par"`
	Ops []opCase `json:"ops"`
	Log []orgObs `json:"log"`
}

func netLinks(n *network.Network) []geneCase {
	var out []geneCase
	for _, nd := range n.BaseNodes() {
		for _, l := range nd.Incoming {
			out = append(out, geneCase{Src: l.InNode.Id, Dst: l.OutNode.Id, W: int(l.ConnectionWeight)})
		}
	}
	return out
}

func sameGeneLinks(a, b []geneCase) bool {
	if len(a) != len(b) {
		return false
	}
	for i := range a {
		if a[i].Src != b[i].Src || a[i].Dst != b[i].Dst || a[i].W != b[i].W {
			return false
		}
	}
	return true
}

func replayOrganism(raw json.RawMessage, rep *vhu.Report, t *tally) (bad string, nontrivial bool) {
	var c orgCase
	if err := json.Unmarshal(raw, &c); err != nil {
		return "cannot decode: " + err.Error(), false
	}
	tr := neat.NewTrait()
	tr.Id = 1
	nodes := []*network.NNode{network.NewNNode(1, network.InputNeuron), network.NewNNode(2, network.BiasNeuron), network.NewNNode(3, network.OutputNeuron)}
	nodes[0].ActivationType, nodes[1].ActivationType, nodes[2].ActivationType = neatmath.NullActivation, neatmath.NullActivation, neatmath.LinearActivation
	var genes []*genetics.Gene
	for i, g := range c.Par.Genes {
		gene := genetics.NewGene(float64(g.W), nodes[g.Src-1], nodes[g.Dst-1], g.Src >= g.Dst, int64(i+1), 0)
		gene.IsEnabled = c.Par.En[i]
		genes = append(genes, gene)
	}
	g := genetics.NewGenome(4, []*neat.Trait{tr}, nodes, genes)
	ids := map[*network.Network]int{}
	var keep []*network.Network // keeps every network alive so that an address is never reused
	idOf := func(n *network.Network) int {
		if n == nil {
			return 0
		}
		if id, ok := ids[n]; ok {
			return id
		}
		ids[n] = len(ids) + 1
		keep = append(keep, n)
		return ids[n]
	}
	if c.Par.Pre {
		if _, err := g.Genesis(g.Id); err != nil {
			return "Genesis of the start genome failed: " + err.Error(), false
		}
		idOf(g.Phenotype)
	}
	org, err := genetics.NewOrganism(1.0, g, 1)
	if err != nil {
		return "NewOrganism failed: " + err.Error(), false
	}
	if org.VerifState().HasCachedPhenotype != c.Par.Pre {
		bad += fmt.Sprintf("NewOrganism: phenotype cached = %v although the genome had a phenotype = %v; ", org.VerifState().HasCachedPhenotype, c.Par.Pre)
	}
	for i, o := range c.Ops {
		e := c.Log[i]
		if e.Err != "nil" || (e.Cache != 0 && !e.Fresh) {
			nontrivial = true
		}
		where := fmt.Sprintf("organism, after %s: ", spOps(c.Ops, i))
		var ret *network.Network
		var err error
		if p := vhu.Guard(func() {
			switch o.Op {
			case "pheno":
				ret, err = org.Phenotype()
			case "update":
				err = org.UpdatePhenotype()
			case "toggle":
				genes[o.K-1].IsEnabled = !genes[o.K-1].IsEnabled
			case "drop":
				g.Genes = g.Genes[:0]
			}
		}); p != "" {
			bad += where + "panic: " + p + "; "
			break
		}
		rep.Evaluations++
		if cls := errClass(err); cls != e.Err {
			bad += where + fmt.Sprintf("error class %q, specification gives %q; ", cls, e.Err)
			break
		}
		gph := idOf(g.Phenotype) // a network created by this call shows here first
		if gph != e.Gph {
			bad += where + fmt.Sprintf("Genome.Phenotype is network #%d, specification gives #%d; ", gph, e.Gph)
			break
		}
		if o.Op == "pheno" {
			if idOf(ret) != e.Ret {
				bad += where + fmt.Sprintf("Phenotype() returned network #%d, specification gives #%d (0 = nil); ", idOf(ret), e.Ret)
				break
			}
			if ret != nil && !sameGeneLinks(netLinks(ret), e.Links) {
				bad += where + fmt.Sprintf("the returned network has links %v, specification gives %v; ", netLinks(ret), e.Links)
				break
			}
			if ret != nil && ret.LinkCount() != len(e.Links) {
				bad += where + fmt.Sprintf("LinkCount %d want %d; ", ret.LinkCount(), len(e.Links))
			}
			if e.Cache != 0 && !e.Fresh {
				t.observe("Organism.Phenotype_returns_the_cached_network_after_the_genome_changed_(until_UpdatePhenotype)", spOps(c.Ops, i))
			}
		}
		if len(ids) != e.Created {
			bad += where + fmt.Sprintf("%d networks have been created so far, specification gives %d; ", len(ids), e.Created)
			break
		}
		if has := org.VerifState().HasCachedPhenotype; has != (e.Cache != 0) {
			bad += where + fmt.Sprintf("organism holds a phenotype = %v, specification gives network #%d; ", has, e.Cache)
			break
		}
		if o.Op == "update" && e.Err == "nil" {
			// what UpdatePhenotype installed is what Phenotype() hands out next (a query without side effect here)
			n, err := org.Phenotype()
			if err != nil || idOf(n) != e.Cache || !sameGeneLinks(netLinks(n), e.Links) {
				bad += where + fmt.Sprintf("Phenotype() after UpdatePhenotype gives network #%d with links %v (%v), specification gives #%d with %v; ",
					idOf(n), netLinks(n), err, e.Cache, e.Links)
				break
			}
		}
	}
	return bad, nontrivial
}

// ------------------------------------------------------------------------------------------------ damaged
type damCase struct {
	Par struct {
		Child bool `json:"child"`
		Hi    int  `json:"hi"`
		Fit   int  `json:"fit"`
	} `json:"par"`
	Want bool `json:"want"`
}

func replayDamaged(raw json.RawMessage, rep *vhu.Report, t *tally) (bad string, nontrivial bool) {
	var c damCase
	if err := json.Unmarshal(raw, &c); err != nil {
		return "cannot decode: " + err.Error(), false
	}
	o := &genetics.Organism{Fitness: float64(c.Par.Fit)}
	o.VerifSetChampFields(float64(c.Par.Hi), c.Par.Child)
	rep.Evaluations++
	if got := o.CheckChampionChildDamaged(); got != c.Want {
		bad = fmt.Sprintf("CheckChampionChildDamaged() = %v for champion child %v, highest fitness %d, fitness %d; specification gives %v; ",
			got, c.Par.Child, c.Par.Hi, c.Par.Fit, c.Want)
	}
	return bad, c.Want
}

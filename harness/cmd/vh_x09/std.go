package main

import (
	"encoding/json"
	"fmt"

	"verifharness/vhu"

	"github.com/yaricom/goNEAT/v4/neat/network"
)

// mode "std": a call sequence on the standard network.
type stdObs struct {
	Err  string `json:"err"`
	Res  bool   `json:"res"`
	Off  bool   `json:"off"`
	Outs []int  `json:"outs"`
	C    []int  `json:"c"`
	A    []int  `json:"a"`
	Out  []int  `json:"out"`
	Td   []int  `json:"td"`
	On   []bool `json:"on"`
	L2   []int  `json:"l2"`
	Fbc  []bool `json:"fbc"`
}
type stdCase struct {
	Net netCase  `json:"net"`
	Ops []opCase `json:"ops"`
	Log []stdObs `json:"log"`
}

// realStd is what the replayer reads off the real network after a call.
type realStd struct {
	err      string
	res, off bool
	outs     []float64
	c        []int
	a, out   []float64
	td, l2   []float64
	on, fbc  []bool
}

func observeStd(b *built) realStd {
	var r realStd
	r.off = b.net.OutputIsOff()
	r.outs = b.net.ReadOutputs()
	for _, n := range b.nodes {
		vs := n.VerifState()
		r.c = append(r.c, int(n.ActivationsCount))
		r.a = append(r.a, n.Activation)
		r.out = append(r.out, n.GetActiveOut())
		r.td = append(r.td, n.GetActiveOutTd())
		r.on = append(r.on, vs.IsActive)
		r.l2 = append(r.l2, vs.LastActivation2)
		r.fbc = append(r.fbc, n.FlushbackCheck() != nil)
	}
	return r
}

func eqBools(a, b []bool) bool {
	if len(a) != len(b) {
		return false
	}
	for i := range a {
		if a[i] != b[i] {
			return false
		}
	}
	return true
}

func eqIntsI(a, b []int) bool {
	if len(a) != len(b) {
		return false
	}
	for i := range a {
		if a[i] != b[i] {
			return false
		}
	}
	return true
}

// stateDiff compares everything but error and boolean.
func (r realStd) stateDiff(e stdObs) string {
	d := ""
	if r.off != e.Off {
		d += fmt.Sprintf("OutputIsOff %v want %v, ", r.off, e.Off)
	}
	if !eqInts(r.outs, e.Outs) {
		d += fmt.Sprintf("ReadOutputs %v want %v, ", r.outs, e.Outs)
	}
	if !eqIntsI(r.c, e.C) {
		d += fmt.Sprintf("ActivationsCount %v want %v, ", r.c, e.C)
	}
	if !eqInts(r.a, e.A) {
		d += fmt.Sprintf("Activation %v want %v, ", r.a, e.A)
	}
	if !eqInts(r.out, e.Out) {
		d += fmt.Sprintf("GetActiveOut %v want %v, ", r.out, e.Out)
	}
	if !eqInts(r.td, e.Td) {
		d += fmt.Sprintf("GetActiveOutTd %v want %v, ", r.td, e.Td)
	}
	if !eqBools(r.on, e.On) {
		d += fmt.Sprintf("isActive %v want %v, ", r.on, e.On)
	}
	if !eqInts(r.l2, e.L2) {
		d += fmt.Sprintf("lastActivation2 %v want %v, ", r.l2, e.L2)
	}
	if !eqBools(r.fbc, e.Fbc) {
		d += fmt.Sprintf("FlushbackCheck()!=nil %v want %v, ", r.fbc, e.Fbc)
	}
	return d
}

func (r realStd) sameState(p realStd) bool {
	e := stdObs{Off: p.off, On: p.on, Fbc: p.fbc, C: p.c}
	if r.off != e.Off || !eqBools(r.on, e.On) || !eqBools(r.fbc, e.Fbc) || !eqIntsI(r.c, e.C) {
		return false
	}
	eq := func(a, b []float64) bool {
		if len(a) != len(b) {
			return false
		}
		for i := range a {
			if a[i] != b[i] {
				return false
			}
		}
		return true
	}
	return eq(r.outs, p.outs) && eq(r.a, p.a) && eq(r.out, p.out) && eq(r.td, p.td) && eq(r.l2, p.l2)
}

// callStd runs one call; a run-time panic is the error class "panic".
func callStd(b *built, o opCase) (cls string, res bool) {
	var err error
	p := vhu.Guard(func() {
		switch o.Op {
		case "load":
			err = b.net.LoadSensors(floats(o.V))
			res = err == nil
		case "sload":
			res = b.byId[o.K].SensorLoad(float64(o.V[0]))
		case "act":
			res, err = b.net.Activate()
		case "steps":
			res, err = b.net.ActivateSteps(o.K)
		case "fwd":
			res, err = b.net.ForwardSteps(o.K)
		case "rec":
			res, err = b.net.RecursiveSteps()
		case "relax":
			res, err = b.net.Relax(o.K, float64(o.D)/2)
		case "flush":
			res, err = b.net.Flush()
		default:
			panic("vh_x09: unknown call " + o.Op)
		}
	})
	if p != "" {
		return "panic", false
	}
	return errClass(err), res
}

func replayStd(raw json.RawMessage, rep *vhu.Report, t *tally) (bad string, nontrivial bool) {
	var c stdCase
	if err := json.Unmarshal(raw, &c); err != nil {
		return "cannot decode: " + err.Error(), false
	}
	for _, e := range c.Log {
		if e.Err != "nil" || !e.Res {
			nontrivial = true
		}
	}
	variants := []struct {
		name string
		mk   func() (*built, error)
	}{
		{"ConnectFrom", func() (*built, error) { return c.Net.direct("connect"), nil }},
		{"AddIncoming+AddOutgoing", func() (*built, error) { return c.Net.direct("halves"), nil }},
		{"Genesis", c.Net.viaGenome},
	}
	ni, nin := c.Net.ni(), len(c.Net.Inputs)
	for vi, v := range variants {
		b, err := v.mk()
		if err != nil {
			return bad + v.name + ": " + err.Error() + "; ", nontrivial
		}
		if b == nil {
			continue
		}
		prev := observeStd(b)
		loaded := false
		for i, o := range c.Ops {
			e := c.Log[i]
			cls, res := callStd(b, o)
			rep.Evaluations++
			got := observeStd(b)
			where := fmt.Sprintf("%s, after %s: ", v.name, opsString(c.Ops, i))
			// LoadSensors with a number of values that is neither "the inputs" nor "the inputs and the bias values": the
			// specification follows the code (panic after a partial load for too few values, silent acceptance of too
			// many); a library that rejects such a call with an error and loads nothing is accepted as well - the rest of
			// the sequence is then not comparable
			if o.Op == "load" && len(o.V) != ni && len(o.V) != nin {
				if cls != "nil" && cls != "panic" && got.sameState(prev) {
					t.observe("std_load_unsupported_length_rejected_gracefully", where)
					break
				}
				if vi == 0 {
					if e.Err == "panic" {
						t.observe("std_LoadSensors_too_few_values_panics_after_partial_load", opsString(c.Ops, i))
					} else {
						t.observe("std_LoadSensors_too_many_values_silently_accepted", opsString(c.Ops, i))
					}
				}
			}
			if cls != e.Err {
				bad += where + fmt.Sprintf("error class %q, specification gives %q; ", cls, e.Err)
				break
			}
			if res != e.Res {
				bad += where + fmt.Sprintf("returned %v, specification gives %v; ", res, e.Res)
				break
			}
			if d := got.stateDiff(e); d != "" {
				bad += where + d + "; "
				break
			}
			if vi == 0 {
				if o.Op == "load" && cls == "nil" {
					loaded = true
				}
				if o.Op == "flush" {
					loaded = false
				}
				if o.Op == "act" && cls == "nil" && !loaded {
					t.observe("std_Activate_succeeds_on_a_network_whose_sensors_were_never_loaded", opsString(c.Ops, i))
				}
				if o.Op == "rec" && cls == "zero" {
					t.observe("std_RecursiveSteps_fails_with_zero_steps_when_the_depth_is_0", opsString(c.Ops, i))
				}
				if o.Op == "fwd" && o.K < 0 && cls == "nil" {
					t.observe("std_ForwardSteps_negative_returns_false_without_error", opsString(c.Ops, i))
				}
				if o.Op == "load" && len(o.V) == nin && nin != ni {
					t.observe("std_LoadSensors_accepts_the_bias_value_which_the_fast_solver_rejects", opsString(c.Ops, i))
				}
			}
			prev = got
		}
		if bad != "" {
			return bad, nontrivial
		}
	}
	return bad, nontrivial
}

var _ = network.ErrNetExceededMaxActivationAttempts

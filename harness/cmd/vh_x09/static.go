package main

import (
	"encoding/json"
	"fmt"

	"verifharness/vhu"

	"github.com/yaricom/goNEAT/v4/neat/network"
)

// kind "static": the queries of a freshly built network that do not depend on a call history.
type isRecCase struct {
	In  int  `json:"in"`
	Out int  `json:"out"`
	Th  int  `json:"th"`
	R   bool `json:"r"`
	Cnt int  `json:"cnt"`
	Def bool `json:"def"`
}
type staticCase struct {
	Net        netCase      `json:"net"`
	Nodes      int          `json:"nodes"`
	Links      int          `json:"links"`
	Complexity int          `json:"complexity"`
	FNodes     int          `json:"fnodes"`
	FLinks     int          `json:"flinks"`
	Depth      int          `json:"depth"`
	Incoming   [][]linkCase `json:"incoming"`
	Outgoing   [][]linkCase `json:"outgoing"`
	Shared     bool         `json:"shared"`
	CanSucceed bool         `json:"cansucceed"`
	IsRec      []isRecCase  `json:"isrec"`
}

func linkList(ls []*network.Link) string {
	s := ""
	for _, l := range ls {
		s += fmt.Sprintf("%d->%d:%v ", l.InNode.Id, l.OutNode.Id, l.ConnectionWeight)
	}
	return s
}

func sameLinks(ls []*network.Link, want []linkCase, flags bool) bool {
	if len(ls) != len(want) {
		return false
	}
	for i, l := range ls {
		w := want[i]
		if l.InNode == nil || l.OutNode == nil || l.InNode.Id != w.Src || l.OutNode.Id != w.Dst || l.ConnectionWeight != float64(w.W) {
			return false
		}
		if flags && (l.IsTimeDelayed != w.Td || l.IsRecurrent != w.Rec) {
			return false
		}
	}
	return true
}

func replayStatic(raw json.RawMessage, rep *vhu.Report, t *tally) (bad string, nontrivial bool) {
	var c staticCase
	if err := json.Unmarshal(raw, &c); err != nil {
		return "cannot decode: " + err.Error(), false
	}
	fail := func(format string, a ...interface{}) {
		if len(bad) < 2000 {
			bad += fmt.Sprintf(format, a...) + "; "
		}
	}
	for _, q := range c.IsRec {
		if q.Cnt > q.Th {
			nontrivial = true
		}
	}
	if !c.CanSucceed {
		nontrivial = true
	}
	b := c.Net.direct(c.Net.Build)
	// a fresh node: nothing to read, FlushbackCheck passes
	for i, n := range b.nodes {
		if n.GetActiveOut() != 0 || n.GetActiveOutTd() != 0 || n.FlushbackCheck() != nil || n.ActivationsCount != 0 {
			fail("node %d is not blank after construction", c.Net.Nodes[i].Id)
		}
		kind := c.Net.Nodes[i].Kind
		if n.IsSensor() != (kind == "I" || kind == "B") || n.IsNeuron() == n.IsSensor() {
			fail("node %d (%s): IsSensor %v IsNeuron %v", n.Id, kind, n.IsSensor(), n.IsNeuron())
		}
	}
	rep.Evaluations++
	// Incoming / Outgoing as built by ConnectFrom resp. AddIncoming + AddOutgoing
	for i, n := range b.nodes {
		if !sameLinks(n.Incoming, c.Incoming[i], true) {
			fail("node %d Incoming = [%s], specification gives %v", n.Id, linkList(n.Incoming), c.Incoming[i])
		}
		if !sameLinks(n.Outgoing, c.Outgoing[i], c.Shared) {
			fail("node %d Outgoing = [%s], specification gives %v", n.Id, linkList(n.Outgoing), c.Outgoing[i])
		}
		for _, l := range n.Incoming {
			found := false
			for _, o := range l.InNode.Outgoing {
				if o == l {
					found = true
				}
			}
			if found != c.Shared {
				fail("link %d->%d: the Incoming entry is shared with the source's Outgoing list = %v, want %v (%s)",
					l.InNode.Id, l.OutNode.Id, found, c.Shared, c.Net.Build)
			}
		}
	}
	// counts
	if got := b.net.NodeCount(); got != c.Nodes {
		fail("NodeCount %d want %d", got, c.Nodes)
	}
	if got := b.net.LinkCount(); got != c.Links {
		fail("LinkCount %d want %d", got, c.Links)
	}
	if got := b.net.Complexity(); got != c.Complexity {
		fail("Complexity %d want %d", got, c.Complexity)
	}
	if got := len(b.net.BaseNodes()); got != c.Nodes {
		fail("len(BaseNodes) %d want %d", got, c.Nodes)
	}
	if got := len(b.net.AllNodes()); got != c.Nodes {
		fail("len(AllNodes) %d want %d", got, c.Nodes)
	}
	if d, err := b.net.MaxActivationDepthWithCap(0); err != nil || d != c.Depth {
		fail("MaxActivationDepthWithCap(0) = %d, %v want %d", d, err, c.Depth)
	}
	rep.Evaluations += 4
	s, err := b.net.FastNetworkSolver()
	if err != nil {
		fail("FastNetworkSolver: %v", err)
	} else {
		if got := s.NodeCount(); got != c.FNodes {
			fail("fast NodeCount %d want %d", got, c.FNodes)
		}
		if got := s.LinkCount(); got != c.FLinks {
			fail("fast LinkCount %d want %d", got, c.FLinks)
		}
		if outs := s.ReadOutputs(); len(outs) != len(c.Net.Outputs) {
			fail("fast ReadOutputs has %d entries for %d outputs", len(outs), len(c.Net.Outputs))
		}
		rep.Evaluations += 2
		if c.FLinks != c.Links {
			t.observe("fast_LinkCount_differs_from_the_network's_(bias_links_are_folded_per_neuron,_zero_sums_not_counted)",
				fmt.Sprintf("%d vs %d on %v", c.FLinks, c.Links, c.Net.Links))
		}
	}
	// Network.IsRecurrent: result and number of visits
	for _, q := range c.IsRec {
		count := 0
		var got bool
		if p := vhu.Guard(func() { got = b.net.IsRecurrent(b.byId[q.In], b.byId[q.Out], &count, q.Th) }); p != "" {
			fail("IsRecurrent(%d, %d, thresh %d) panicked: %s", q.In, q.Out, q.Th, p)
			continue
		}
		rep.Evaluations++
		if got != q.R || count != q.Cnt {
			fail("IsRecurrent(%d, %d, thresh %d) = %v after %d visits, specification gives %v after %d (would close a loop: %v)",
				q.In, q.Out, q.Th, got, count, q.R, q.Cnt, q.Def)
		}
		if !q.R && q.Def {
			t.observe("IsRecurrent_answers_false_for_a_link_that_would_close_a_loop_when_its_visit_budget_runs_out",
				fmt.Sprintf("in %d out %d thresh %d on %v", q.In, q.Out, q.Th, c.Net.Links))
		}
	}
	// the meaning of Activate on a fresh network: success iff activity can reach every output
	if p := vhu.Guard(func() {
		res, err := b.net.Activate()
		rep.Evaluations++
		if (err == nil) != c.CanSucceed || res != c.CanSucceed {
			fail("Activate() on the fresh network = (%v, %v), but every output reachable from a sensor through links that are not time-delayed = %v",
				res, err, c.CanSucceed)
		}
		if err == nil && b.net.OutputIsOff() {
			fail("Activate() succeeded and OutputIsOff() is still true")
		}
		if err != nil && !b.net.OutputIsOff() {
			fail("Activate() failed (%v) although no output is off", err)
		}
	}); p != "" {
		fail("Activate() panicked: %s", p)
	}
	return bad, nontrivial
}

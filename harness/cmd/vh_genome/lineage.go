package main

import (
	"encoding/json"
	"flag"
	"fmt"
	"math"
	"math/rand"
	"os"

	"verifharness/vhu"

	"github.com/yaricom/goNEAT/v4/neat"
	"github.com/yaricom/goNEAT/v4/neat/genetics"
	neatmath "github.com/yaricom/goNEAT/v4/neat/math"
	"github.com/yaricom/goNEAT/v4/neat/network"
)

// The lineage driver (DESIGN.md 6.1 (a)): a pool of genomes sharing one population as innovation registry; operators
// are applied the way Species.reproduce applies them (on a fresh duplicate or a crossover child) and, in addition,
// in place on pool members; the registry is cleared at generation boundaries.  Every operator application is one
// NDJSON event carrying the projected operands before and after, the registry and the counters before and after.

func init() { commands["record-lineage"] = recordLineage }

type member struct {
	gid int
	g   *genetics.Genome
}

type lineage struct {
	in    *interner
	pop   *genetics.Population
	opts  *neat.Options
	pool  []*member
	next  int
	out   *json.Encoder
	rep   *vhu.Report
	stats map[string]int
	lines int
}

func (l *lineage) emit(ev map[string]interface{}) {
	pool := [][2]int{}
	for _, m := range l.pool {
		pool = append(pool, [2]int{m.gid, l.in.digest(l.in.genome(m.g))})
	}
	ev["pool"] = pool
	if err := l.out.Encode(ev); err != nil {
		panic(err)
	}
	l.lines++
}

func (l *lineage) counters() [2]int {
	a, b := l.pop.VerifCounters()
	return [2]int{int(a), int(b)}
}

// genesisOK: can the genome be expressed?  Asked of a DUPLICATE: Genesis writes into the genome it expresses (the phenotype
// pointer and every node's analogue), and an observation must not refresh what a later operator of the history reads.
func genesisOK(g *genetics.Genome) bool {
	ok := false
	if p := vhu.Guard(func() {
		c, err := g.VerifDuplicate(g.Id)
		if err != nil || c == nil {
			// a genome that cannot be duplicated (dangling references) is judged on itself
			old := g.Phenotype
			_, err = g.Genesis(g.Id)
			g.Phenotype = old
			ok = err == nil
			return
		}
		_, err = c.Genesis(g.Id)
		ok = err == nil
	}); p != "" {
		return false
	}
	return ok
}

// richStart is a hand-built start genome with everything the quantifiers name: a bias node, an unconnected sensor, two
// connected outputs and an unconnected one, a hidden node with a nil trait, a disabled gene, a recurrent self-loop, a recurrent back link and a gene
// with a nil trait.
func richStart() *genetics.Genome {
	traits := make([]*neat.Trait, 3)
	for i := range traits {
		t := neat.NewTrait()
		t.Id = i + 1
		for k := range t.Params {
			t.Params[k] = float64(i+1) / 8.0 * float64(k%3)
		}
		traits[i] = t
	}
	mk := func(id int, t network.NodeNeuronType, tr *neat.Trait) *network.NNode {
		n := network.NewNNode(id, t)
		n.Trait = tr
		if t == network.InputNeuron || t == network.BiasNeuron {
			n.ActivationType = neatmath.NullActivation
		}
		return n
	}
	n1 := mk(1, network.InputNeuron, traits[0])
	n2 := mk(2, network.InputNeuron, traits[1])
	n3 := mk(3, network.BiasNeuron, traits[0])
	n4 := mk(4, network.OutputNeuron, traits[2])
	n5 := mk(5, network.OutputNeuron, traits[0])
	n6 := mk(7, network.HiddenNeuron, nil)
	n6.ActivationType = neatmath.TanhActivation
	n7 := mk(6, network.OutputNeuron, traits[1]) // an output no gene touches
	nodes := []*network.NNode{n1, n2, n3, n4, n5, n7, n6}
	genes := []*genetics.Gene{
		genetics.NewGeneWithTrait(traits[0], 0.5, n1, n6, false, 1, 0.5),
		genetics.NewGeneWithTrait(traits[1], -1.25, n6, n4, false, 2, -1.25),
		genetics.NewGeneWithTrait(traits[1], 0.25, n6, n4, true, 3, 0.25), // same endpoints as gene 2, other recurrence flag
		genetics.NewGeneWithTrait(traits[2], 2.0, n3, n4, false, 4, 2.0),
		genetics.NewGeneWithTrait(traits[0], 0.75, n6, n6, true, 5, 0.75),
		genetics.NewGeneWithTrait(nil, 3.5, n1, n5, false, 6, 3.5),
		genetics.NewGeneWithTrait(nil, -0.5, n4, n6, true, 7, -0.5), // trait-less AND recurrent
	}
	genes[3].IsEnabled = false
	return genetics.NewGenome(1, traits, nodes, genes)
}

// outFirstStart is a well-formed start genome whose sensors are NOT the first nodes in id order (the output has the
// smallest id): ids ascend, but code that assumes "sensors first" meets a non-sensor at position 0.
func outFirstStart() *genetics.Genome {
	tr := neat.NewTrait()
	tr.Id = 1
	tr2 := neat.NewTrait()
	tr2.Id = 2
	tr2.Params[0] = 0.25
	out := network.NewNNode(1, network.OutputNeuron)
	out.Trait = tr
	in1 := network.NewNNode(2, network.InputNeuron)
	in1.Trait = tr2
	hid := network.NewNNode(3, network.HiddenNeuron)
	hid.Trait = tr
	in2 := network.NewNNode(4, network.InputNeuron)
	in2.Trait = tr
	bias := network.NewNNode(5, network.BiasNeuron)
	bias.Trait = tr2
	for _, n := range []*network.NNode{in1, in2, bias} {
		n.ActivationType = neatmath.NullActivation
	}
	genes := []*genetics.Gene{
		genetics.NewGeneWithTrait(tr, 0.5, in1, hid, false, 1, 0.5),
		genetics.NewGeneWithTrait(tr2, -0.75, hid, out, false, 2, -0.75),
		genetics.NewGeneWithTrait(tr, 1.5, in2, out, false, 3, 1.5),
		genetics.NewGeneWithTrait(tr2, 0.125, bias, out, false, 4, 0.125),
	}
	return genetics.NewGenome(1, []*neat.Trait{tr, tr2}, []*network.NNode{out, in1, hid, in2, bias}, genes)
}

// zeroBasedStart numbers its nodes from 0 (ids are arbitrary non-negative integers: 0 is a node like any other, not "no
// node") and carries traits whose parameter vectors are NOT of the default length (Trait.Params is a slice of any length; the
// library's trait operations work on len(Params)).
func zeroBasedStart() *genetics.Genome {
	t1 := &neat.Trait{Id: 1, Params: []float64{0.5, 0.25, 0.125}}
	t2 := &neat.Trait{Id: 2, Params: []float64{1, 2, 3, 4, 5, 6, 7, 8, 9, 10}}
	bias := network.NewNNode(0, network.BiasNeuron)
	in1 := network.NewNNode(1, network.InputNeuron)
	in2 := network.NewNNode(2, network.InputNeuron)
	out := network.NewNNode(3, network.OutputNeuron)
	hid := network.NewNNode(4, network.HiddenNeuron)
	bias.Trait, in1.Trait, out.Trait, hid.Trait = t1, t2, t1, t2
	for _, n := range []*network.NNode{bias, in1, in2} {
		n.ActivationType = neatmath.NullActivation
	}
	genes := []*genetics.Gene{
		genetics.NewGeneWithTrait(t1, 0.5, bias, out, false, 1, 0.5),
		genetics.NewGeneWithTrait(t2, -1.5, in1, hid, false, 2, -1.5),
		genetics.NewGeneWithTrait(t1, 0.75, in2, out, false, 3, 0.75),
		genetics.NewGeneWithTrait(t2, 2.5, hid, out, false, 4, 2.5),
		genetics.NewGeneWithTrait(t1, -0.25, bias, hid, false, 5, -0.25),
	}
	return genetics.NewGenome(1, []*neat.Trait{t1, t2}, []*network.NNode{bias, in1, in2, out, hid}, genes)
}

// wideStart has one input, one bias and eight outputs, every output fed by both: 16 genes leaving only two source
// nodes, so the toggle mutator can disable all but two of them.
func wideStart() *genetics.Genome {
	tr := neat.NewTrait()
	tr.Id = 1
	in := network.NewNNode(1, network.InputNeuron)
	bias := network.NewNNode(2, network.BiasNeuron)
	in.Trait, bias.Trait = tr, tr
	in.ActivationType, bias.ActivationType = neatmath.NullActivation, neatmath.NullActivation
	nodes := []*network.NNode{in, bias}
	var genes []*genetics.Gene
	for k := 0; k < 8; k++ {
		out := network.NewNNode(3+k, network.OutputNeuron)
		out.Trait = tr
		nodes = append(nodes, out)
		w := 0.25 * float64(k+1)
		genes = append(genes, genetics.NewGeneWithTrait(tr, w, in, out, false, int64(2*k+1), w))
		genes = append(genes, genetics.NewGeneWithTrait(tr, -w, bias, out, false, int64(2*k+2), -w))
	}
	return genetics.NewGenome(1, []*neat.Trait{tr}, nodes, genes)
}

// noTraitStart is the XOR topology with nodes and genes that carry NO trait (nil pointers); the genome still owns one
// trait, as the mutators require.
func noTraitStart() *genetics.Genome {
	tr := neat.NewTrait()
	tr.Id = 1
	tr.Params[0] = 0.5
	mk := func(id int, t network.NodeNeuronType) *network.NNode {
		n := network.NewNNode(id, t)
		if t != network.OutputNeuron {
			n.ActivationType = neatmath.NullActivation
		}
		return n
	}
	n1, n2, n3, n4 := mk(1, network.BiasNeuron), mk(2, network.InputNeuron), mk(3, network.InputNeuron), mk(4, network.OutputNeuron)
	genes := []*genetics.Gene{
		genetics.NewGene(0.25, n1, n4, false, 1, 0.25),
		genetics.NewGene(-0.5, n2, n4, false, 2, -0.5),
		genetics.NewGene(0.75, n3, n4, false, 3, 0.75),
	}
	return genetics.NewGenome(1, []*neat.Trait{tr}, []*network.NNode{n1, n2, n3, n4}, genes)
}

func (l *lineage) startGenome(kind int) (*genetics.Genome, string) {
	if kind == -1 {
		return wideStart(), "wide"
	}
	if kind == -2 {
		return noTraitStart(), "notrait"
	}
	if kind == -4 {
		return zeroBasedStart(), "zero-based"
	}
	if kind == -3 {
		g := modularStart()
		g.ControlGenes[1].IsEnabled = false // one enabled and one disabled module
		// module links built through the API carry attributes of their own (the readers only make unit links): a copy has them
		k := 0
		for _, cg := range g.ControlGenes {
			for _, ls := range [][]*network.Link{cg.ControlNode.Incoming, cg.ControlNode.Outgoing} {
				for _, lk := range ls {
					k++
					lk.ConnectionWeight = []float64{0.5, -2, 3, 1}[k%4]
					lk.IsRecurrent = k%3 == 0
					if k%2 == 0 {
						lk.Trait = g.Traits[k%len(g.Traits)]
					}
				}
			}
		}
		return g, "modular"
	}
	if kind%4 == 3 {
		return outFirstStart(), "outfirst"
	}
	switch kind % 3 {
	case 0:
		return vhu.ReadGenomeString(vhu.XorStartGenome, 1), "xor"
	case 1:
		return richStart(), "rich"
	default:
		// every other time: the layout of newGenomeRand with hidden nodes (their ids lie BETWEEN the sensors and the outputs)
		// and an output that no gene touches - interface nodes must survive crossover whether or not a gene reaches them
		wantGap := rand.Intn(2) == 0
		for try := 0; ; try++ {
			in, out := 2+rand.Intn(2), 1+rand.Intn(2)
			hidden := rand.Intn(3)
			if wantGap && try < 400 {
				out, hidden = 2, 1+rand.Intn(2)
			}
			g, err := genetics.VerifNewGenomeRand(1, in, out, hidden, 3, rand.Intn(2) == 0, 0.5, l.opts)
			if err != nil || len(g.Genes) == 0 {
				continue
			}
			if wantGap && try < 400 {
				touched := map[int]bool{}
				for _, x := range g.Genes {
					touched[x.Link.OutNode.Id], touched[x.Link.InNode.Id] = true, true
				}
				gap := false
				for _, n := range g.Nodes {
					gap = gap || (n.NeuronType == network.OutputNeuron && !touched[n.Id])
				}
				if !gap {
					continue
				}
				return g, "random-unconnected-output"
			}
			return g, "random"
		}
	}
}

func (l *lineage) reset(kind int) {
	g, name := l.startGenome(kind)
	l.pop = genetics.VerifNewEmptyPopulation()
	lastInn := int64(0)
	for _, gn := range g.Genes {
		if gn.InnovationNum > lastInn {
			lastInn = gn.InnovationNum
		}
	}
	lastNode := 0
	for _, n := range g.Nodes {
		if n.Id > lastNode {
			lastNode = n.Id
		}
	}
	l.pop.VerifSetCounters(lastInn, int32(lastNode+1)) // as Population.spawn initialises them
	l.pool = []*member{{gid: l.next, g: g}}
	l.next++
	l.emit(map[string]interface{}{"ev": "reset", "start": name, "gid": l.pool[0].gid, "g": l.in.genome(g), "c": l.counters(),
		"gok": genesisOK(g)})
	l.stats["reset"]++
}

func (l *lineage) add(g *genetics.Genome) *member {
	m := &member{gid: l.next, g: g}
	l.next++
	if len(l.pool) >= 10 {
		k := 1 + rand.Intn(len(l.pool)-1) // never evict the start genome
		l.pool = append(l.pool[:k], l.pool[k+1:]...)
	}
	l.pool = append(l.pool, m)
	return m
}

var mutators = []string{"addnode", "addlink", "connect", "allnonstruct", "weights", "coldweights", "toggle", "reenable", "rndtrait", "linktrait", "nodetrait"}
var mutWeights = []int{25, 25, 6, 10, 6, 2, 10, 8, 3, 3, 2}

func pickMutator(big bool) string {
	for {
		tot := 0
		for _, w := range mutWeights {
			tot += w
		}
		r := rand.Intn(tot)
		for i, w := range mutWeights {
			if r < w {
				if big && (mutators[i] == "addnode" || mutators[i] == "addlink" || mutators[i] == "connect") {
					break
				}
				return mutators[i]
			}
			r -= w
		}
	}
}

// mutate applies one mutator in place and emits the event.
func (l *lineage) mutate(gid int, g *genetics.Genome, op string) {
	pre := l.in.genome(g)
	reg0, c0 := l.in.registry(l.pop), l.counters()
	var ok bool
	var err error
	times := 1 + rand.Intn(2)
	panicked := vhu.Guard(func() {
		switch op {
		case "addnode":
			ok, err = g.VerifMutateAddNode(l.pop, l.pop, l.opts)
		case "addlink":
			ok, err = g.VerifMutateAddLink(l.pop, 1, l.opts)
		case "connect":
			ok, err = g.VerifMutateConnectSensors(l.pop, l.opts)
		case "allnonstruct":
			ok, err = g.VerifMutateAllNonstructural(l.opts)
		case "weights":
			ok, err = g.VerifMutateLinkWeights(l.opts.WeightMutPower, 1.0, false)
		case "coldweights":
			ok, err = g.VerifMutateLinkWeights(l.opts.WeightMutPower, 1.0, true)
		case "toggle":
			ok, err = g.VerifMutateToggleEnable(times)
		case "toggle40":
			times = 40
			ok, err = g.VerifMutateToggleEnable(times)
		case "reenable":
			ok, err = g.VerifMutateGeneReEnable()
		case "rndtrait":
			ok, err = g.VerifMutateRandomTrait(l.opts)
		case "linktrait":
			ok, err = g.VerifMutateLinkTrait(times)
		case "nodetrait":
			ok, err = g.VerifMutateNodeTrait(times)
		}
	})
	post := l.in.genome(g)
	if op == "toggle40" {
		op = "toggle"
	}
	ev := map[string]interface{}{"ev": "mut", "op": op, "gid": gid, "pre": pre, "post": post, "ok": ok, "err": err != nil || panicked != "",
		"reg0": reg0, "reg1": l.in.registry(l.pop), "c0": c0, "c1": l.counters(), "gok": genesisOK(g), "times": times,
		"defact": int(neatmath.SigmoidSteepenedActivation)}
	if panicked != "" {
		ev["panic"] = panicked
	}
	l.emit(ev)
	l.stats["mut:"+op]++
	if ok {
		l.stats["mutok:"+op]++
	}
	if len(reg0) > 0 && (op == "addnode" || op == "addlink" || op == "connect") && ok && len(l.pop.VerifInnovationsUnsafe()) == len(reg0) {
		l.stats["reuse"]++
		l.rep.Nontrivial++
	}
}

func (l *lineage) duplicate(m *member) *member {
	pre := l.in.genome(m.g)
	var c *genetics.Genome
	var err error
	panicked := vhu.Guard(func() { c, err = m.g.VerifDuplicate(l.next + 100) })
	post := l.in.genome(m.g)
	ev := map[string]interface{}{"ev": "dup", "gid": m.gid, "pre": pre, "post": post, "err": err != nil || panicked != "" || c == nil}
	if c == nil {
		l.emit(ev)
		return nil
	}
	cm := l.add(c)
	ev["cid"], ev["child"], ev["gok"] = cm.gid, l.in.genome(c), genesisOK(c)
	l.emit(ev)
	l.stats["dup"]++
	for _, gn := range m.g.Genes {
		if !gn.IsEnabled {
			l.stats["dup-with-disabled-gene"]++
			break
		}
	}
	return cm
}

func (l *lineage) mate(m1, m2 *member, method string, f1, f2 float64) *member {
	// Genome.Id is not an identity: every species numbers its babies from 0 and interspecies mating meets the first
	// organism of another species, so two DIFFERENT parents regularly carry the same id.  Every third mating of two
	// different genomes is made under equal ids (restored afterwards).
	l.stats["mate-calls"]++
	if m1.g != m2.g && l.stats["mate-calls"]%3 == 2 && m1.g.Id != m2.g.Id {
		old := m2.g.Id
		m2.g.Id = m1.g.Id
		l.stats["mate-of-different-genomes-with-equal-ids"]++
		defer func() { m2.g.Id = old }()
	}
	p1pre, p2pre := l.in.genome(m1.g), l.in.genome(m2.g)
	var c *genetics.Genome
	var err error
	panicked := vhu.Guard(func() {
		switch method {
		case "multipoint":
			c, err = m1.g.VerifMateMultipoint(m2.g, l.next+100, f1, f2)
		case "multipointavg":
			c, err = m1.g.VerifMateMultipointAvg(m2.g, l.next+100, f1, f2)
		default:
			c, err = m1.g.VerifMateSinglePoint(m2.g, l.next+100)
		}
	})
	cmp := 0
	if f1 > f2 {
		cmp = 1
	} else if f1 < f2 {
		cmp = -1
	}
	// P2: the averages the library would compute, with the IEEE expression it uses
	avg := [][3]int{}
	i2 := map[int64]*genetics.Gene{}
	for _, g := range m2.g.Genes {
		i2[g.InnovationNum] = g
	}
	for _, g := range m1.g.Genes {
		if o, ok := i2[g.InnovationNum]; ok {
			avg = append(avg, [3]int{l.in.f(g.Link.ConnectionWeight), l.in.f(o.Link.ConnectionWeight), l.in.f((g.Link.ConnectionWeight + o.Link.ConnectionWeight) / 2.0)})
			avg = append(avg, [3]int{l.in.f(g.MutationNum), l.in.f(o.MutationNum), l.in.f((g.MutationNum + o.MutationNum) / 2.0)})
		}
	}
	if len(m1.g.Traits) == len(m2.g.Traits) {
		for i, t := range m1.g.Traits {
			o := m2.g.Traits[i]
			for k := range t.Params {
				if k < len(o.Params) {
					avg = append(avg, [3]int{l.in.f(t.Params[k]), l.in.f(o.Params[k]), l.in.f((t.Params[k] + o.Params[k]) / 2.0)})
				}
			}
		}
	}
	ev := map[string]interface{}{"ev": "mate", "op": method, "g1": m1.gid, "g2": m2.gid, "p1pre": p1pre, "p2pre": p2pre,
		"p1post": l.in.genome(m1.g), "p2post": l.in.genome(m2.g), "cmp": cmp, "avg": avg, "err": err != nil || panicked != "" || c == nil}
	if c == nil {
		l.emit(ev)
		return nil
	}
	cm := l.add(c)
	ev["cid"], ev["child"], ev["gok"] = cm.gid, l.in.genome(c), genesisOK(c)
	l.emit(ev)
	l.stats["mate:"+method]++
	// non-trivial mating: at least one disjoint/excess gene and one disabled gene among the parents
	dis, only := false, false
	for _, g := range m1.g.Genes {
		dis = dis || !g.IsEnabled
		if _, ok := i2[g.InnovationNum]; !ok {
			only = true
		}
	}
	for _, g := range m2.g.Genes {
		dis = dis || !g.IsEnabled
	}
	if dis && (only || len(m1.g.Genes) != len(m2.g.Genes)) {
		l.stats["mate-nontrivial"]++
	}
	type key struct {
		a, b int
		r    bool
	}
	keys := map[key]int64{}
	conflict := false
	for _, gs := range [][]*genetics.Gene{m1.g.Genes, m2.g.Genes} {
		for _, g := range gs {
			k := key{g.Link.InNode.Id, g.Link.OutNode.Id, g.Link.IsRecurrent}
			if n, ok := keys[k]; ok && n != g.InnovationNum {
				conflict = true
			}
			keys[k] = g.InnovationNum
		}
	}
	if conflict {
		l.stats["mate-same-link-two-numbers"]++
	}
	return cm
}

func big(g *genetics.Genome) bool { return len(g.Genes) > 16 || len(g.Nodes) > 12 }

func (l *lineage) step() {
	r := rand.Intn(100)
	pick := func() *member { return l.pool[rand.Intn(len(l.pool))] }
	switch {
	case r < 30: // mutation-only baby
		if c := l.duplicate(pick()); c != nil {
			l.mutate(c.gid, c.g, pickMutator(big(c.g)))
		}
	case r < 60: // mating baby
		m1, m2 := pick(), pick()
		method := []string{"multipoint", "multipointavg", "singlepoint"}[rand.Intn(3)]
		// well separated values, exact ties, and pairs that differ in the last bits only (0.1+0.2 vs 0.3, neighbouring
		// floats, tiny and huge magnitudes): "fitter" is the plain order of the two values, there is no tolerance
		fs := []float64{1.0, 2.0}
		switch rand.Intn(4) {
		case 0:
			fs = [][]float64{{0.1 + 0.2, 0.3}, {1.0, math.Nextafter(1.0, 2)}, {1e-12, 2e-12}, {16.0, 16.0 - 1e-10},
				{1e9, 1e9 + 1e-3}, {5e-324, 1e-323}}[rand.Intn(6)]
		}
		c := l.mate(m1, m2, method, fs[rand.Intn(2)], fs[rand.Intn(2)])
		if c != nil && rand.Intn(2) == 0 {
			l.mutate(c.gid, c.g, pickMutator(big(c.g)))
		}
	case r < 85: // in-place mutation of a pool member (histories on the copy or the original)
		m := pick()
		l.mutate(m.gid, m.g, pickMutator(big(m.g)))
	case r < 91:
		l.duplicate(pick())
	default: // generation boundary: the registry is forgotten
		l.pop.VerifClearInnovations()
		l.emit(map[string]interface{}{"ev": "gen", "reglen": len(l.pop.VerifInnovationsUnsafe())})
		l.stats["gen"]++
	}
}

// conflictScenario builds, with the ordinary operators, two descendants of the start genome that carry the SAME link
// under two DIFFERENT innovation numbers (the link arose in two generations) and mates them in every way; this is the
// situation the same-link conflict check of the crossovers exists for.
func (l *lineage) conflictScenario() {
	start := l.pool[0]
	newKey := func(m *member, before int) (int, int, bool, bool) {
		if len(m.g.Genes) != before+1 {
			return 0, 0, false, false
		}
		for _, g := range m.g.Genes {
			seen := false
			for _, o := range start.g.Genes {
				if o.InnovationNum == g.InnovationNum {
					seen = true
				}
			}
			if !seen {
				return g.Link.InNode.Id, g.Link.OutNode.Id, g.Link.IsRecurrent, true
			}
		}
		return 0, 0, false, false
	}
	b := l.duplicate(start)
	if b == nil {
		return
	}
	n0 := len(b.g.Genes)
	for try := 0; try < 10 && len(b.g.Genes) == n0; try++ {
		l.mutate(b.gid, b.g, "addlink")
	}
	u, v, r, ok := newKey(b, n0)
	if !ok {
		return
	}
	l.pop.VerifClearInnovations()
	l.emit(map[string]interface{}{"ev": "gen", "reglen": len(l.pop.VerifInnovationsUnsafe())})
	for try := 0; try < 40; try++ {
		c := l.duplicate(start)
		if c == nil {
			return
		}
		l.mutate(c.gid, c.g, "addlink")
		if cu, cv, cr, cok := newKey(c, n0); cok && cu == u && cv == v && cr == r {
			for _, method := range []string{"multipoint", "multipointavg", "singlepoint"} {
				for _, f := range [][2]float64{{2, 1}, {1, 2}, {1, 1}} {
					l.mate(b, c, method, f[0], f[1])
					l.mate(c, b, method, f[0], f[1])
				}
			}
			l.stats["conflict-scenarios"]++
			// second stage: give both a common LATER gene (the same new link in one generation re-uses the number), so
			// that the conflicting genes lie in the middle of the walk, and mate with many crossing points
			l.pop.VerifClearInnovations()
			l.emit(map[string]interface{}{"ev": "gen", "reglen": len(l.pop.VerifInnovationsUnsafe())})
			last := func(m *member) (int, int, bool, int64) {
				g := m.g.Genes[len(m.g.Genes)-1]
				return g.Link.InNode.Id, g.Link.OutNode.Id, g.Link.IsRecurrent, g.InnovationNum
			}
			var bs, cs []*member
			for try := 0; try < 12; try++ {
				for _, src := range []*member{b, c} {
					d := l.duplicate(src)
					if d == nil {
						return
					}
					n := len(d.g.Genes)
					l.mutate(d.gid, d.g, "addlink")
					if len(d.g.Genes) == n+1 {
						if src == b {
							bs = append(bs, d)
						} else {
							cs = append(cs, d)
						}
					}
				}
			}
			for _, x := range bs {
				for _, y := range cs {
					xu, xv, xr, xi := last(x)
					yu, yv, yr, yi := last(y)
					if xu == yu && xv == yv && xr == yr && xi == yi {
						for k := 0; k < 6; k++ {
							l.mate(x, y, "singlepoint", 1, 1)
							l.mate(y, x, "singlepoint", 1, 1)
						}
						l.mate(x, y, "multipoint", 1, 1)
						l.mate(y, x, "multipointavg", 2, 1)
						l.stats["conflict-scenarios-stage2"]++
						return
					}
				}
			}
			return
		}
	}
}

// twinSplitScenario splits, within one generation, two different genes that join the same nodes (they differ in the
// recurrence flag or in their number): two different innovations that must not be confused with each other.
func (l *lineage) twinSplitScenario() {
	start := l.pool[0]
	type ends struct{ a, b int }
	byEnds := map[ends][]int64{}
	for _, g := range start.g.Genes {
		if g.IsEnabled {
			e := ends{g.Link.InNode.Id, g.Link.OutNode.Id}
			byEnds[e] = append(byEnds[e], g.InnovationNum)
		}
	}
	want := map[int64]bool{}
	for _, inns := range byEnds {
		if len(inns) > 1 {
			for _, n := range inns {
				want[n] = true
			}
		}
	}
	if len(want) == 0 {
		return
	}
	got := map[int64]bool{}
	for try := 0; try < 80 && len(got) < len(want); try++ {
		x := l.duplicate(start)
		if x == nil {
			return
		}
		l.mutate(x.gid, x.g, "addnode")
		for i, g := range x.g.Genes {
			if i < len(start.g.Genes) && want[g.InnovationNum] && !g.IsEnabled && start.g.Genes[i].IsEnabled {
				got[g.InnovationNum] = true
			}
		}
	}
	if len(got) == len(want) {
		l.stats["twin-split-scenarios"]++
	}
	// second stage: genomes that already carry one of the recorded splits now split further genes IN PLACE within the
	// same generation, so that a recorded innovation (with a node id smaller than the genome's newest node) is re-used
	members := append([]*member(nil), l.pool...)
	for _, m := range members {
		if m == start || len(m.g.Nodes) <= len(start.g.Nodes) {
			continue
		}
		for try := 0; try < 6 && !big(m.g); try++ {
			l.mutate(m.gid, m.g, "addnode")
		}
	}
}

// recurTwinScenario makes the SAME node pair arise as a new link twice in one generation, once as a forward link (in a
// genome where no path leads back) and once as a recurrent link (in a genome where a path does): two different
// innovations that differ only in the recurrence flag.
func (l *lineage) recurTwinScenario(forwardFirst bool) {
	start := l.pool[0]
	saved := l.opts.RecurOnlyProb
	defer func() { l.opts.RecurOnlyProb = saved }()
	added := func(m *member, base *genetics.Genome) *genetics.Gene {
		if len(m.g.Genes) != len(base.Genes)+1 {
			return nil
		}
		have := map[int64]bool{}
		for _, g := range base.Genes {
			have[g.InnovationNum] = true
		}
		for _, g := range m.g.Genes {
			if !have[g.InnovationNum] {
				return g
			}
		}
		return nil
	}
	// 1. P = start + a forward link u->v between two neurons
	var P *member
	var u, v int
	l.opts.RecurOnlyProb = 0
	for try := 0; try < 25 && P == nil; try++ {
		c := l.duplicate(start)
		if c == nil {
			return
		}
		l.mutate(c.gid, c.g, "addlink")
		if g := added(c, start.g); g != nil && !g.Link.IsRecurrent && !g.Link.InNode.IsSensor() && g.Link.InNode.Id != g.Link.OutNode.Id {
			P, u, v = c, g.Link.InNode.Id, g.Link.OutNode.Id
		}
	}
	if P == nil {
		return
	}
	l.pop.VerifClearInnovations()
	l.emit(map[string]interface{}{"ev": "gen", "reglen": len(l.pop.VerifInnovationsUnsafe())})
	// 2. in ONE generation: v->u as a forward link in a copy of the start genome, and as a recurrent link in a copy of P
	forward := func() bool {
		l.opts.RecurOnlyProb = 0
		for try := 0; try < 70; try++ {
			c := l.duplicate(start)
			if c == nil {
				return false
			}
			l.mutate(c.gid, c.g, "addlink")
			if g := added(c, start.g); g != nil && g.Link.InNode.Id == v && g.Link.OutNode.Id == u && !g.Link.IsRecurrent {
				return true
			}
		}
		return false
	}
	recurrent := func() bool {
		l.opts.RecurOnlyProb = 1
		for try := 0; try < 70; try++ {
			c := l.duplicate(P)
			if c == nil {
				return false
			}
			l.mutate(c.gid, c.g, "addlink")
			if g := added(c, P.g); g != nil && g.Link.InNode.Id == v && g.Link.OutNode.Id == u && g.Link.IsRecurrent {
				return true
			}
		}
		return false
	}
	var a, b bool
	if forwardFirst {
		a = forward()
		b = recurrent()
	} else {
		b = recurrent()
		a = forward()
	}
	if a && b {
		l.stats["recur-twin-scenarios"]++
	}
}

// connectScenario: two descendants of a start genome with an unconnected sensor, one of them with an extra hidden node,
// connect that sensor within one generation (in both orders over the segments): the second finds a record for some of
// its targets and none for others.
func (l *lineage) connectScenario(biggerFirst bool) {
	start := l.pool[0]
	unconnected := false
	for _, n := range start.g.Nodes {
		if n.IsSensor() {
			used := false
			for _, g := range start.g.Genes {
				used = used || g.Link.InNode.Id == n.Id
			}
			unconnected = unconnected || !used
		}
	}
	if !unconnected {
		return
	}
	y := l.duplicate(start)
	if y == nil {
		return
	}
	for try := 0; try < 8 && len(y.g.Nodes) == len(start.g.Nodes); try++ {
		l.mutate(y.gid, y.g, "addnode")
	}
	x := l.duplicate(start)
	if x == nil {
		return
	}
	l.pop.VerifClearInnovations()
	l.emit(map[string]interface{}{"ev": "gen", "reglen": len(l.pop.VerifInnovationsUnsafe())})
	if biggerFirst {
		l.mutate(y.gid, y.g, "connect")
		l.mutate(x.gid, x.g, "connect")
	} else {
		l.mutate(x.gid, x.g, "connect")
		l.mutate(y.gid, y.g, "connect")
	}
	l.stats["connect-scenarios"]++
}

// crowdedScenario grows a genome to 15 or more genes, disables most of them with the toggle mutator and then asks for
// add-node several times: the uniform random gene choice of bigger genomes mostly lands on genes that must not be split.
func (l *lineage) crowdedScenario() {
	m := l.duplicate(l.pool[0])
	if m == nil {
		return
	}
	for try := 0; try < 60 && len(m.g.Genes) < 15; try++ {
		if try%3 == 2 {
			l.mutate(m.gid, m.g, "addnode")
		} else {
			l.mutate(m.gid, m.g, "addlink")
		}
	}
	if len(m.g.Genes) < 15 {
		return
	}
	for i := 0; i < 6; i++ {
		l.mutate(m.gid, m.g, "toggle40")
	}
	for i := 0; i < 12 && len(m.g.Genes) < 40; i++ {
		l.mutate(m.gid, m.g, "addnode")
	}
	l.stats["crowded-scenarios"]++
}

// oneGenomeTwinScenario: within ONE registry lifetime one lineage of copies acquires a forward link u->v, the recurrent
// link v->u, loses u->v to a toggle and then acquires v->u again as a FORWARD link: the genome holds both flags of v->u,
// which are different innovations (C01: ascending numbers, no duplicate link; C03: one meaning per number).
func (l *lineage) oneGenomeTwinScenario() {
	start := l.pool[0]
	saved := l.opts.RecurOnlyProb
	defer func() { l.opts.RecurOnlyProb = saved }()
	find := func(g *genetics.Genome, in, out int, rec bool) *genetics.Gene {
		for _, gn := range g.Genes {
			if gn.Link.InNode.Id == in && gn.Link.OutNode.Id == out && gn.Link.IsRecurrent == rec {
				return gn
			}
		}
		return nil
	}
	newGene := func(m *member, base *genetics.Genome) *genetics.Gene {
		have := map[int64]bool{}
		for _, g := range base.Genes {
			have[g.InnovationNum] = true
		}
		for _, g := range m.g.Genes {
			if !have[g.InnovationNum] && len(m.g.Genes) == len(base.Genes)+1 {
				return g
			}
		}
		return nil
	}
	// 0. two hidden neurons side by side (a start genome with one neuron has no pair of neurons to join)
	neurons := 0
	for _, n := range start.g.Nodes {
		if n.IsNeuron() {
			neurons++
		}
	}
	if neurons < 3 {
		if start = l.duplicate(start); start == nil {
			return
		}
		for k := 0; k < 6 && neurons < 3; k++ {
			n0 := len(start.g.Nodes)
			l.mutate(start.gid, start.g, "addnode")
			neurons += len(start.g.Nodes) - n0
		}
	}
	// 1. a forward link u->v between two different neurons
	var cur *member
	var u, v int
	l.opts.RecurOnlyProb = 0
	for try := 0; try < 40 && cur == nil; try++ {
		c := l.duplicate(start)
		if c == nil {
			return
		}
		l.mutate(c.gid, c.g, "addlink")
		if g := newGene(c, start.g); g != nil && !g.Link.IsRecurrent && !g.Link.InNode.IsSensor() && g.Link.InNode.Id != g.Link.OutNode.Id {
			cur, u, v = c, g.Link.InNode.Id, g.Link.OutNode.Id
		}
	}
	if cur == nil {
		return
	}
	// 2. the recurrent link v->u in a copy of it
	l.opts.RecurOnlyProb = 1
	var next *member
	for try := 0; try < 70 && next == nil; try++ {
		c := l.duplicate(cur)
		if c == nil {
			return
		}
		l.mutate(c.gid, c.g, "addlink")
		if g := newGene(c, cur.g); g != nil && g.Link.InNode.Id == v && g.Link.OutNode.Id == u && g.Link.IsRecurrent {
			next = c
		}
	}
	if next == nil {
		return
	}
	cur, next = next, nil
	// 3. u->v switched off by a toggle
	for try := 0; try < 60 && next == nil; try++ {
		c := l.duplicate(cur)
		if c == nil {
			return
		}
		l.mutate(c.gid, c.g, "toggle")
		if g := find(c.g, u, v, false); g != nil && !g.IsEnabled {
			same := true
			for i, gn := range c.g.Genes {
				if gn.InnovationNum != g.InnovationNum && gn.IsEnabled != cur.g.Genes[i].IsEnabled {
					same = false
				}
			}
			if same {
				next = c
			}
		}
	}
	if next == nil {
		return
	}
	cur = next
	// 4. v->u once more, now as a forward link (no path from u to v is left that would make it recurrent)
	l.opts.RecurOnlyProb = 0
	for try := 0; try < 70; try++ {
		c := l.duplicate(cur)
		if c == nil {
			return
		}
		l.mutate(c.gid, c.g, "addlink")
		if len(c.g.Genes) == len(cur.g.Genes)+1 && find(c.g, v, u, false) != nil && find(c.g, v, u, true) != nil {
			l.stats["one-genome-twin-scenarios"]++
			return
		}
	}
}

// resplitScenario: one genome, one registry lifetime: a gene is split, switched on again by re-enable and split a second
// time (the recorded innovation is already in the genome: the mutation must not apply it twice).
func (l *lineage) resplitScenario() {
	start := l.pool[0]
	for try := 0; try < 6; try++ {
		c := l.duplicate(start)
		if c == nil {
			return
		}
		n0 := len(c.g.Nodes)
		l.mutate(c.gid, c.g, "addnode")
		if len(c.g.Nodes) != n0+1 {
			continue
		}
		l.mutate(c.gid, c.g, "reenable")
		for k := 0; k < 12; k++ {
			l.mutate(c.gid, c.g, "addnode")
			if k%4 == 3 {
				l.mutate(c.gid, c.g, "reenable")
			}
		}
		l.stats["resplit-scenarios"]++
		return
	}
}

// bigGenerationScenario: ONE generation in which far more structural innovations are recorded than an ordinary run of a
// small population sees (three lineages of copies growing by add-node / add-link until the record holds more than `want`
// entries), followed by repetitions of the very first ones: a copy of the start genome splits its genes again and must
// be given the numbers recorded at the beginning of the generation.
func (l *lineage) bigGenerationScenario(want int) {
	start := l.pool[0]
	l.pop.VerifClearInnovations()
	l.emit(map[string]interface{}{"ev": "gen", "reglen": len(l.pop.VerifInnovationsUnsafe())})
	// the first records: every gene of the start genome that add-node accepts, split in a copy of its own
	for k := 0; k < 3*len(start.g.Genes)+3; k++ {
		if c := l.duplicate(start); c != nil {
			l.mutate(c.gid, c.g, "addnode")
		}
	}
	var chains []*member
	for k := 0; k < 3; k++ {
		if c := l.duplicate(start); c != nil {
			chains = append(chains, c)
		}
	}
	for try := 0; try < 4*want && len(chains) > 0 && len(l.pop.VerifInnovationsUnsafe()) <= want; try++ {
		c := chains[try%len(chains)]
		if try%3 == 0 {
			l.mutate(c.gid, c.g, "addnode")
		} else {
			l.mutate(c.gid, c.g, "addlink")
		}
	}
	if len(l.pop.VerifInnovationsUnsafe()) > want {
		l.stats["big-generation-scenarios"]++
	}
	for k := 0; k < 3*len(start.g.Genes)+3; k++ {
		if c := l.duplicate(start); c != nil {
			l.mutate(c.gid, c.g, "addnode")
		}
	}
	// the grown lineages leave the pool: a crossover of two genomes of a hundred genes and more is a case for the
	// specification's alignment search that costs TLC minutes, and the random steps that follow would draw them
	kept := l.pool[:1]
	for _, m := range l.pool[1:] {
		if len(m.g.Genes) <= 40 {
			kept = append(kept, m)
		}
	}
	l.pool = kept
	l.pop.VerifClearInnovations()
	l.emit(map[string]interface{}{"ev": "gen", "reglen": len(l.pop.VerifInnovationsUnsafe())})
}

func recordLineage(args []string) int {
	fs := flag.NewFlagSet("record-lineage", flag.ExitOnError)
	out := fs.String("out", "", "NDJSON trace file")
	repf := fs.String("report", "", "report file")
	steps := fs.Int("steps", 300, "driver steps per segment")
	segs := fs.Int("segments", 4, "segments (each starts from another start genome)")
	seed := fs.Int64("seed", vhu.EnvSeed(), "random seed")
	_ = fs.Parse(args)
	f, err := os.Create(*out)
	if err != nil {
		fmt.Fprintln(os.Stderr, err)
		return 2
	}
	defer f.Close()
	rand.Seed(*seed)
	opts := vhu.BaseOptions(10)
	opts.RecurOnlyProb = 0.25
	opts.NewLinkTries = 20
	opts.MutateToggleEnableProb = 0.3
	opts.MutateGeneReenableProb = 0.3
	opts.MutateRandomTraitProb, opts.MutateLinkTraitProb, opts.MutateNodeTraitProb = 0.3, 0.3, 0.3
	opts.NodeActivators = []neatmath.NodeActivationType{neatmath.SigmoidSteepenedActivation, neatmath.TanhActivation}
	opts.NodeActivatorsProb = []float64{0.5, 0.5}
	l := &lineage{in: newInterner(), opts: opts, out: json.NewEncoder(f), rep: &vhu.Report{Command: "record-lineage"}, stats: map[string]int{}}
	for s := 0; s < *segs; s++ {
		// "all option settings": every segment of every trace has its own setting of the options the mutators read
		k := int(*seed) + s
		opts.RecurOnlyProb = []float64{0.25, 0, 1, 0.5}[k%4]
		opts.NewLinkTries = []int{20, 1, 50, 5}[(k/2)%4]
		opts.WeightMutPower = []float64{2.5, 0.5, 10}[k%3]
		opts.TraitParamMutProb, opts.TraitMutationPower = []float64{0.5, 0, 1}[(k/3)%3], []float64{1, 0.125}[k%2]
		opts.MutateLinkWeightsProb = []float64{0.9, 1, 0.2}[(k/2)%3]
		opts.MutateToggleEnableProb, opts.MutateGeneReenableProb = []float64{0.3, 1, 0}[k%3], []float64{0.3, 0, 1}[(k/2)%3]
		if s == 0 && *seed%2 == 1 {
			l.reset(-4) // every other trace starts with the zero-based genome
		} else {
			l.reset(s)
		}
		l.twinSplitScenario()
		l.conflictScenario()
		l.recurTwinScenario((int(*seed)+s)%2 == 0)
		l.connectScenario((int(*seed)+s)%2 == 1)
		l.crowdedScenario()
		l.oneGenomeTwinScenario()
		l.resplitScenario()
		if s == 0 && *seed%3 == 0 { // (every third trace: the events of this scenario carry big genomes)
			l.bigGenerationScenario(70 + 30*(int(*seed/3)%3))
		}
		for i := 0; i < *steps; i++ {
			l.step()
		}
	}
	// a last short segment on the wide genome: big genome, almost everything disabled, then add-node
	l.reset(-1)
	l.crowdedScenario()
	for i := 0; i < 30; i++ {
		l.step()
	}
	// modular genomes are in scope for duplication (C06) and expression (C11) only: a short segment of copies, copies of
	// copies and in-place non-structural mutations of copies and originals
	l.reset(-3)
	for i := 0; i < 12; i++ {
		m := l.pool[rand.Intn(len(l.pool))]
		if c := l.duplicate(m); c != nil && i%2 == 0 {
			l.mutate(c.gid, c.g, []string{"weights", "toggle", "reenable", "rndtrait", "linktrait"}[rand.Intn(5)])
		}
		if i%3 == 0 {
			l.mutate(m.gid, m.g, []string{"weights", "reenable", "nodetrait"}[rand.Intn(3)])
		}
	}
	l.rep.Evaluations = l.lines
	l.rep.Cases = *segs
	l.rep.Extra = map[string]interface{}{"stats": l.stats, "events": l.lines}
	return l.rep.Write(*repf)
}

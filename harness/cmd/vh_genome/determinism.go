package main

import (
	"context"
	"crypto/sha1"
	"encoding/binary"
	"encoding/hex"
	"encoding/json"
	"flag"
	"fmt"
	"github.com/yaricom/goNEAT/v4/experiment"
	"hash"
	"math"
	"math/rand"
	"os"
	"runtime"
	"syscall"
	"time"

	"verifharness/vhu"

	"github.com/yaricom/goNEAT/v4/neat"
	"github.com/yaricom/goNEAT/v4/neat/genetics"
)

// C17: the same scenarios are run in several separate processes under perturbations that must not matter (processor
// count, GC pressure, heap layout, unrelated earlier work in the process, environment size); every construction and
// every epoch is logged as a bit-exact digest (P6) of the whole population.  spec/Determinism.tla consumes the logs of
// all processes in lock step.

func init() { commands["record-digests"] = recordDigests }

type hw struct{ h hash.Hash }

func (w hw) i(x int64)   { _ = binary.Write(w.h, binary.LittleEndian, x) }
func (w hw) f(x float64) { _ = binary.Write(w.h, binary.LittleEndian, math.Float64bits(x)) }
func (w hw) b(x bool) {
	if x {
		w.i(1)
	} else {
		w.i(0)
	}
}
func (w hw) sum() string { return hex.EncodeToString(w.h.Sum(nil))[:16] }

func genomeDigest(w hw, g *genetics.Genome) {
	w.i(int64(g.Id))
	for _, t := range g.Traits {
		w.i(int64(t.Id))
		for _, p := range t.Params {
			w.f(p)
		}
	}
	for _, n := range g.Nodes {
		w.i(int64(n.Id))
		w.i(int64(n.NeuronType))
		w.i(int64(n.ActivationType))
		w.i(int64(traitId(n.Trait)))
	}
	for _, e := range g.Genes {
		w.i(e.InnovationNum)
		w.i(int64(e.Link.InNode.Id))
		w.i(int64(e.Link.OutNode.Id))
		w.f(e.Link.ConnectionWeight)
		w.f(e.MutationNum)
		w.b(e.Link.IsRecurrent)
		w.b(e.IsEnabled)
		w.i(int64(traitId(e.Link.Trait)))
	}
	for _, cg := range g.ControlGenes { // modules in list order (C17 covers modular genomes under the sequential executor)
		w.i(cg.InnovationNum)
		w.f(cg.MutationNum)
		w.b(cg.IsEnabled)
		w.i(int64(cg.ControlNode.Id))
		w.i(int64(cg.ControlNode.ActivationType))
		for _, l := range cg.ControlNode.Incoming {
			w.i(int64(l.InNode.Id))
			w.f(l.ConnectionWeight)
		}
		for _, l := range cg.ControlNode.Outgoing {
			w.i(int64(l.OutNode.Id))
			w.f(l.ConnectionWeight)
		}
	}
}

func popDigests(pop *genetics.Population) map[string]interface{} {
	all := hw{sha1.New()}
	orgs := []string{}
	for _, o := range pop.Organisms {
		w := hw{sha1.New()}
		genomeDigest(w, o.Genotype)
		w.i(int64(o.Generation))
		if o.Species != nil {
			w.i(int64(o.Species.Id))
		}
		d := w.sum()
		orgs = append(orgs, d)
		all.h.Write([]byte(d))
	}
	sp := hw{sha1.New()}
	for _, s := range pop.Species {
		sp.i(int64(s.Id))
		sp.i(int64(s.Age))
		sp.i(int64(len(s.Organisms)))
		sp.i(int64(s.ExpectedOffspring))
		sp.f(s.MaxFitnessEver)
		sp.i(int64(s.AgeOfLastImprovement))
	}
	a, b := pop.VerifCounters()
	cn := hw{sha1.New()}
	cn.i(a)
	cn.i(int64(b))
	cn.i(int64(pop.LastSpecies))
	cn.f(pop.HighestFitness)
	cn.i(int64(pop.EpochsHighestLastChanged))
	return map[string]interface{}{"orgs": orgs, "species": sp.sum(), "counters": cn.sum(), "all": all.sum()}
}

var ballast [][]byte

// perturb does work that must not influence a seeded run.
func perturb(k int, round int) {
	switch k % 5 {
	case 1: // heap ballast of odd sizes: shifts every later allocation
		for i := 0; i < 200+round*37; i++ {
			ballast = append(ballast, make([]byte, 1000+i*13))
		}
	case 2: // an unrelated evolution, seeded from the clock, before the scenario re-seeds
		rand.Seed(time.Now().UnixNano())
		opts := preset(round, 9)
		if p, err := genetics.NewPopulation(richStart(), opts); err == nil {
			ex := &genetics.SequentialPopulationEpochExecutor{}
			for g := 1; g <= 3; g++ {
				for i, o := range p.Organisms {
					o.Fitness = float64(i%4) + rand.Float64()
				}
				if ex.NextEpoch(neat.NewContext(context.Background(), opts), g, p) != nil {
					break
				}
			}
		}
	case 3: // garbage + forced collections + many maps (iteration order seeds)
		for i := 0; i < 50; i++ {
			m := map[int]int{}
			for j := 0; j < 100; j++ {
				m[j*i] = j
			}
			for range m {
			}
		}
		runtime.GC()
	}
}

// unrelatedEvolution turns over another population built like the scenario's own (same constructor, same start genome: its
// structural mutations collide with the scenario's), seeded from the clock.  The caller re-seeds afterwards.
func unrelatedEvolution(sc scenario, epochs int) { unrelatedEvolutionWith(sc, sc.options(), epochs) }

func unrelatedEvolutionWith(sc scenario, opts *neat.Options, epochs int) {
	rand.Seed(time.Now().UnixNano())
	rec := &epochRec{in: newInterner(), stats: map[string]int{}}
	p, _, _, err := construct(sc, opts, rec)
	if err != nil || p == nil {
		return
	}
	ex := &genetics.SequentialPopulationEpochExecutor{}
	for g := 1; g <= epochs; g++ {
		for i, o := range p.Organisms {
			o.Fitness = float64(i%4) + rand.Float64()
		}
		failed := false
		_ = vhu.Guard(func() { failed = ex.NextEpoch(neat.NewContext(context.Background(), opts), g, p) != nil })
		if failed {
			break
		}
	}
}

func epochSeed(sc scenario, gen int) int64 { return sc.Seed*1000003 + int64(gen)*7919 }

// digestEvaluator drives a scenario through experiment.Execute: deterministic fitness, one digest line per generation.
type digestEvaluator struct {
	sc     scenario
	si     int
	pk     int
	frng   *rand.Rand
	emit   func(map[string]interface{})
	epochs *int
}

func (d *digestEvaluator) GenerationEvaluate(_ context.Context, pop *genetics.Population, epoch *experiment.Generation) error {
	line := map[string]interface{}{"sc": d.si, "gen": epoch.TrialId*1000 + epoch.Id, "how": "Execute", "err": false}
	for k, v := range popDigests(pop) {
		line[k] = v
	}
	d.emit(line)
	*d.epochs++
	assignFitness(pop, d.sc.Fitness, d.frng, epoch.Id+1)
	epoch.FillPopulationStatistics(pop)
	if d.pk%5 == 3 {
		runtime.GC()
	}
	return nil
}

// runDetScenario records one scenario (emit == nil: a throw-away run that leaves no lines)
func runDetScenario(si int, sc scenario, pk int, emit func(map[string]interface{}), epochs *int) {
	if emit == nil {
		emit = func(map[string]interface{}) {}
	}
	opts := sc.options()
	if pk%5 == 2 {
		// the options OBJECT had an earlier life: it was used for an unrelated evolution while its activator probabilities held
		// other values, which were then set to the scenario's values IN PLACE (a parameter sweep re-using one Options value).
		// Field by field the options are equal to a fresh set; outcomes must not depend on the identity or history of the object.
		want := append([]float64{}, opts.NodeActivatorsProb...)
		for i := range opts.NodeActivatorsProb {
			opts.NodeActivatorsProb[i] = []float64{0.95, 0.05}[i%2]
		}
		saveNode := opts.MutateAddNodeProb
		opts.MutateAddNodeProb = 0.6
		unrelatedEvolutionWith(sc, opts, 2)
		opts.MutateAddNodeProb = saveNode
		copy(opts.NodeActivatorsProb, want)
	}
	// the EXECUTOR value may have had an earlier life as well: in some perturbed processes it has already turned over another
	// population under another Options object with other values (a program that keeps one executor for several runs)
	ex := &genetics.SequentialPopulationEpochExecutor{}
	if pk%5 == 1 || pk%5 == 4 {
		other := sc.options()
		other.SurvivalThresh = 0.95 - other.SurvivalThresh/2
		other.AgeSignificance, other.DropOffAge = other.AgeSignificance+1.5, other.DropOffAge/2+1
		other.CompatThreshold *= 2.5
		if other.BabiesStolen == 0 {
			other.BabiesStolen = other.PopSize / 4
		} else {
			other.BabiesStolen = 0
		}
		other.MutateAddNodeProb, other.MutateAddLinkProb = 0.5, 0.5
		rand.Seed(time.Now().UnixNano())
		rec := &epochRec{in: newInterner(), stats: map[string]int{}}
		if p, _, _, err := construct(sc, other, rec); err == nil && p != nil {
			for g := 1; g <= 2; g++ {
				for i, o := range p.Organisms {
					o.Fitness = float64(i%5) + rand.Float64()
				}
				failed := false
				_ = vhu.Guard(func() { failed = ex.NextEpoch(neat.NewContext(context.Background(), other), g, p) != nil })
				if failed {
					break
				}
			}
		}
	}
	if sc.LogLevel != "" {
		_ = neat.InitLogger(sc.LogLevel)
		defer func() { _ = neat.InitLogger("error") }()
	}
	rand.Seed(sc.Seed)
	if sc.Via == "execute" {
		// the way every caller of the library evolves a population: seed the global source, then Experiment.Execute
		// (RandSeed left at its zero value, as in all the repository's tests and examples)
		opts.NumRuns, opts.NumGenerations = 2, sc.Epochs
		rec := &epochRec{in: newInterner(), stats: map[string]int{}}
		_, start, _, err := construct(sc, opts, rec)
		if err != nil || start == nil {
			emit(map[string]interface{}{"sc": si, "gen": 0, "how": "Execute", "err": true})
			return
		}
		rand.Seed(sc.Seed)
		exp := experiment.Experiment{Id: 1}
		ev := &digestEvaluator{sc: sc, si: si, pk: pk, frng: rand.New(rand.NewSource(sc.Seed*31 + 5)), emit: emit, epochs: epochs}
		var eerr error
		panicked := vhu.Guard(func() { eerr = exp.Execute(neat.NewContext(context.Background(), opts), start, ev, nil) })
		emit(map[string]interface{}{"sc": si, "gen": 999999, "how": "Execute returned", "err": eerr != nil || panicked != ""})
		return
	}
	ctx := neat.NewContext(context.Background(), opts)
	rec := &epochRec{in: newInterner(), stats: map[string]int{}}
	pop, _, how, err := construct(sc, opts, rec)
	line := map[string]interface{}{"sc": si, "gen": 0, "how": how, "err": err != nil}
	if err != nil || pop == nil {
		emit(line)
		return
	}
	for k, v := range popDigests(pop) {
		line[k] = v
	}
	emit(line)
	frng := rand.New(rand.NewSource(sc.Seed*31 + 5))
	for gen := 1; gen <= sc.Epochs; gen++ {
		assignFitness(pop, sc.Fitness, frng, gen)
		if sc.LogLevel != "" {
			// wall-clock time: one process lets more than a second pass before some epochs, another a few milliseconds before all
			if pk%5 == 3 && (gen == 2 || gen == 3) {
				time.Sleep(1100 * time.Millisecond)
			} else if pk%5 == 1 {
				time.Sleep(time.Duration(3+gen*7%20) * time.Millisecond)
			}
		}
		if sc.Reseed {
			// identical seed before every epoch in every process; perturbed processes evolve something else in between
			if pk%5 == 2 || pk%5 == 4 {
				unrelatedEvolution(sc, 2)
			}
			rand.Seed(epochSeed(sc, gen))
		}
		var eerr error
		panicked := vhu.Guard(func() { eerr = ex.NextEpoch(ctx, gen, pop) })
		line := map[string]interface{}{"sc": si, "gen": gen, "how": "NextEpoch", "err": eerr != nil || panicked != ""}
		for k, v := range popDigests(pop) {
			line[k] = v
		}
		emit(line)
		*epochs++
		if eerr != nil || panicked != "" {
			break
		}
		if pk%5 == 3 && gen%2 == 0 {
			runtime.GC()
		}
	}
}

func recordDigests(args []string) int {
	fs := flag.NewFlagSet("record-digests", flag.ExitOnError)
	out := fs.String("out", "", "NDJSON file")
	scen := fs.String("scenarios", "", "JSON list of scenarios")
	pk := fs.Int("perturb", 0, "perturbation kind")
	repf := fs.String("report", "", "report file")
	_ = fs.Parse(args)
	var scs []scenario
	if err := json.Unmarshal([]byte(*scen), &scs); err != nil {
		fmt.Fprintln(os.Stderr, "bad -scenarios:", err)
		return 2
	}
	f, err := os.Create(*out)
	if err != nil {
		fmt.Fprintln(os.Stderr, err)
		return 2
	}
	defer f.Close()
	enc := json.NewEncoder(f)
	epochs := 0
	for _, sc := range scs {
		if sc.LogLevel != "" {
			// the loggers write to the standard output they captured at package initialisation: point descriptor 1 at /dev/null
			if dn, err := os.OpenFile(os.DevNull, os.O_WRONLY, 0); err == nil {
				_ = syscall.Dup3(int(dn.Fd()), 1, 0)
			}
			break
		}
	}
	for si, sc := range scs {
		perturb(*pk, si)
		if *pk%5 == 4 {
			// earlier work in the process: the very same scenario was already run once (throw-away), e.g. a population
			// restored twice from the same file, or two experiments in one program
			n := 0
			short := sc
			if short.Epochs > 6 {
				short.Epochs = 6
			}
			runDetScenario(si, short, *pk, nil, &n)
		}
		runDetScenario(si, sc, *pk, func(l map[string]interface{}) { _ = enc.Encode(l) }, &epochs)
	}
	rep := &vhu.Report{Command: "record-digests", Evaluations: epochs, Cases: len(scs)}
	return rep.Write(*repf)
}

package main

import (
	"context"
	"encoding/json"
	"flag"
	"fmt"
	"math/rand"
	"os"
	"runtime"
	"sync"
	"syscall"

	"verifharness/vhu"

	"github.com/yaricom/goNEAT/v4/neat"
	"github.com/yaricom/goNEAT/v4/neat/genetics"
)

// C16 (ii) lock-set evidence on real accesses and (iii) free-running parallel epochs for the Go race detector.
//
// record-access: the registry hook sites report every access to Population.innovations; the tracer probes the
// population mutex with TryLock - if the probe succeeds nobody (in particular not the accessing goroutine) held the
// mutex, i.e. the access was unprotected.  A failed probe is counted as protected (in a parallel run another goroutine
// may have been the holder: that can hide an unprotected access but never invent one).
//
// race-epochs: parallel epochs with no tracer installed (no harness-induced synchronisation); meant to be run from a
// binary built with -race, which prints its reports to stderr.

func init() {
	commands["record-access"] = recordAccess
	commands["race-epochs"] = raceEpochs
}

func parallelScenario(seed int64, popSize, preset, fitness int) (*genetics.Population, *neat.Options, error) {
	rand.Seed(seed)
	opts := presetOpts(preset, popSize)
	opts.EpochExecutorType = neat.EpochExecutorTypeParallel
	opts.MutateAddNodeProb, opts.MutateAddLinkProb = 0.3, 0.5 // several species append to and scan the registry per epoch
	if seed%2 == 1 {
		// many species from the very first epoch on: whatever a fresh Options / Population object initialises lazily is
		// then first touched by several reproduction goroutines at once
		opts.CompatThreshold = 0.15
		opts.MutateAddNodeProb = 0.6
	}
	pop, err := genetics.NewPopulation(richStart(), opts)
	return pop, opts, err
}

func presetOpts(k, popSize int) *neat.Options { return preset(k, popSize) }

func recordAccess(args []string) int {
	fs := flag.NewFlagSet("record-access", flag.ExitOnError)
	out := fs.String("out", "", "NDJSON file")
	repf := fs.String("report", "", "report file")
	epochs := fs.Int("epochs", 6, "epochs per run")
	seed := fs.Int64("seed", vhu.EnvSeed(), "seed")
	_ = fs.Parse(args)
	f, err := os.Create(*out)
	if err != nil {
		fmt.Fprintln(os.Stderr, err)
		return 2
	}
	defer f.Close()
	enc := json.NewEncoder(f)
	rep := &vhu.Report{Command: "record-access"}
	type key struct {
		what   string
		locked bool
	}
	var mu sync.Mutex
	counts := map[key]int{}
	genetics.VerifTracer = func(ev string, a ...interface{}) {
		if len(ev) < 7 || ev[:7] != "access:" || len(a) == 0 {
			return
		}
		p, ok := a[0].(*genetics.Population)
		if !ok {
			return
		}
		locked := !p.VerifMutexFree()
		mu.Lock()
		counts[key{ev[7:], locked}]++
		mu.Unlock()
	}
	defer func() { genetics.VerifTracer = nil }()
	for _, executor := range []string{"seq", "par"} {
		for run := 0; run < 3; run++ {
			pop, opts, err := parallelScenario(*seed*100+int64(run), 24, run, 6)
			if err != nil {
				fmt.Fprintln(os.Stderr, err)
				return 2
			}
			var ex genetics.PopulationEpochExecutor = &genetics.ParallelPopulationEpochExecutor{}
			if executor == "seq" {
				ex = &genetics.SequentialPopulationEpochExecutor{}
			}
			ctx := neat.NewContext(context.Background(), opts)
			frng := rand.New(rand.NewSource(*seed))
			for gen := 1; gen <= *epochs; gen++ {
				assignFitness(pop, 6, frng, gen)
				if err := ex.NextEpoch(ctx, gen, pop); err != nil {
					break
				}
				rep.Evaluations++
			}
			mu.Lock()
			for k, n := range counts {
				_ = enc.Encode(map[string]interface{}{"executor": executor, "run": run, "what": k.what, "locked": k.locked, "n": n})
				if k.what == "read-registry" {
					rep.Nontrivial += n
				}
			}
			counts = map[key]int{}
			mu.Unlock()
		}
	}
	return rep.Write(*repf)
}

// epochFailed: a parallel NextEpoch on a population with finite non-negative fitness values (at least one positive) returned
// an error - the executor does not give what the sequential one gives (a cancelled context is not used here).
func epochFailed(rep *vhu.Report, gen, size int, err error) {
	rep.Fail(map[string]interface{}{"what": fmt.Sprintf("parallel NextEpoch of generation %d (%d organisms, GOMAXPROCS=%d) returned an error: %v",
		gen, size, runtime.GOMAXPROCS(0), err), "signature": "parallel epoch error"})
}

func raceEpochs(args []string) int {
	fs := flag.NewFlagSet("race-epochs", flag.ExitOnError)
	repf := fs.String("report", "", "report file")
	epochs := fs.Int("epochs", 5, "epochs per run")
	runs := fs.Int("runs", 3, "runs")
	seed := fs.Int64("seed", vhu.EnvSeed(), "seed")
	long := fs.Bool("long", false, "also run the long-record family: hundreds of organisms, a wide genome, most babies add a link (hundreds of innovations per generation)")
	loglevel := fs.String("loglevel", "", "run with this NEAT log level (the log level is an option setting like any other); the log itself is discarded")
	_ = fs.Parse(args)
	if *loglevel != "" {
		// the loggers write to the standard output they captured at package initialisation: point descriptor 1 at /dev/null
		if dn, err := os.OpenFile(os.DevNull, os.O_WRONLY, 0); err == nil {
			_ = syscall.Dup3(int(dn.Fd()), 1, 0)
		}
		if err := neat.InitLogger(*loglevel); err != nil {
			fmt.Fprintln(os.Stderr, err)
			return 2
		}
	}
	rep := &vhu.Report{Command: "race-epochs"}
	multi := 0
	longGrowth := []int{}
	longRecord := 0
	firstEpochSpecies := []int{}
	// (a) first-use runs: fresh Options / Population objects whose FIRST parallel epoch already has many species, each of
	// which is likely to perform a novel structural mutation (lazy initialisation touched by several goroutines at once)
	for run := 0; run < 2**runs; run++ {
		rand.Seed(*seed*7000 + int64(run))
		opts := presetOpts(run, []int{60, 90, 120}[run%3])
		opts.EpochExecutorType = neat.EpochExecutorTypeParallel
		opts.CompatThreshold = []float64{0.1, 0.2, 0.35}[run%3]
		opts.MutateAddNodeProb, opts.MutateAddLinkProb, opts.MutateOnlyProb = 0.5, 0.4, 0.6
		start := richStart()
		if run%2 == 1 {
			start = vhu.ReadGenomeString(vhu.XorStartGenome, 1)
		}
		pop, err := genetics.NewPopulation(start, opts)
		if err != nil {
			fmt.Fprintln(os.Stderr, err)
			return 2
		}
		firstEpochSpecies = append(firstEpochSpecies, len(pop.Species))
		ex := &genetics.ParallelPopulationEpochExecutor{}
		ctx := neat.NewContext(context.Background(), opts)
		frng := rand.New(rand.NewSource(*seed + int64(run)))
		for gen := 1; gen <= 2; gen++ {
			assignFitness(pop, 6, frng, gen)
			if len(pop.Species) > 1 {
				multi++
			}
			if err := ex.NextEpoch(ctx, gen, pop); err != nil {
				epochFailed(rep, gen, len(pop.Organisms), err)
				break
			}
			rep.Evaluations++
		}
	}
	// (b) longer runs
	for run := 0; run < *runs; run++ {
		sizes := []int{12, 30, 60}
		pop, opts, err := parallelScenario(*seed*1000+int64(run), sizes[run%3], run, 6)
		if err != nil {
			fmt.Fprintln(os.Stderr, err)
			return 2
		}
		ex := &genetics.ParallelPopulationEpochExecutor{}
		ctx := neat.NewContext(context.Background(), opts)
		frng := rand.New(rand.NewSource(*seed + int64(run)))
		for gen := 1; gen <= *epochs; gen++ {
			assignFitness(pop, []int{6, 7, 3}[run%3], frng, gen)
			if len(pop.Species) > 1 {
				multi++
			}
			if err := ex.NextEpoch(ctx, gen, pop); err != nil {
				epochFailed(rep, gen, len(pop.Organisms), err)
				break
			}
			rep.Evaluations++
		}
	}
	// (c) the goroutines read what other goroutines' species own: interspecies mating at a high rate (the second parent comes
	// from ANOTHER species, whose goroutine may be mating, cloning and mutating at the same moment), several parents per
	// species (so that one organism can be drawn as both parents), all trait / weight mutators at high rates
	for run := 0; run < *runs; run++ {
		rand.Seed(*seed*9000 + int64(run))
		opts := presetOpts(run, []int{40, 64, 90}[run%3])
		opts.EpochExecutorType = neat.EpochExecutorTypeParallel
		opts.CompatThreshold = []float64{0.3, 0.5, 0.2}[run%3]
		opts.InterspeciesMateRate = []float64{0.3, 0.6, 0.15}[run%3]
		opts.SurvivalThresh = []float64{0.5, 0.8, 0.3}[run%3]
		opts.MutateOnlyProb, opts.MateOnlyProb = 0.15, 0.3
		opts.MutateRandomTraitProb, opts.MutateLinkTraitProb, opts.MutateNodeTraitProb = 0.6, 0.6, 0.6
		opts.MutateLinkWeightsProb, opts.MutateToggleEnableProb, opts.MutateGeneReenableProb = 0.9, 0.2, 0.2
		opts.MutateAddNodeProb, opts.MutateAddLinkProb = 0.2, 0.3
		pop, err := genetics.NewPopulation(richStart(), opts)
		if err != nil {
			fmt.Fprintln(os.Stderr, err)
			return 2
		}
		ex := &genetics.ParallelPopulationEpochExecutor{}
		ctx := neat.NewContext(context.Background(), opts)
		frng := rand.New(rand.NewSource(*seed + 77 + int64(run)))
		for gen := 1; gen <= 2**epochs; gen++ {
			assignFitness(pop, []int{6, 3, 7}[run%3], frng, gen)
			if len(pop.Species) > 1 {
				multi++
			}
			if err := ex.NextEpoch(ctx, gen, pop); err != nil {
				epochFailed(rep, gen, len(pop.Organisms), err)
				break
			}
			rep.Evaluations++
		}
	}
	// (d) a LONG innovation record: hundreds of organisms of a wide genome (60 inputs, 16 outputs, sparsely connected), most
	// babies adding a link, many species: several hundred innovations are recorded and looked up per generation
	if *long {
		rand.Seed(*seed*11000 + 3)
		opts := presetOpts(0, 600)
		opts.EpochExecutorType = neat.EpochExecutorTypeParallel
		opts.CompatThreshold = 0.25
		opts.MutateAddLinkProb, opts.MutateAddNodeProb, opts.MutateOnlyProb = 0.9, 0.08, 0.7
		opts.NewLinkTries = 30
		var start *genetics.Genome
		for try := 0; try < 50 && start == nil; try++ {
			if g, err := genetics.VerifNewGenomeRand(1, 60, 16, 0, 0, false, 0.08, opts); err == nil && len(g.Genes) >= 16 {
				start = g
			}
		}
		if start != nil {
			// how long the record of one generation gets (measured on a twin population through the sequential phases)
			if twin, err := genetics.NewPopulation(start, opts); err == nil {
				frng := rand.New(rand.NewSource(*seed + 991))
				assignFitness(twin, 6, frng, 1)
				seq := &genetics.SequentialPopulationEpochExecutor{}
				tctx := neat.NewContext(context.Background(), opts)
				if seq.VerifPrepare(tctx, 1, twin) == nil && seq.VerifReproduce(tctx, 1, twin) == nil {
					longRecord = len(twin.VerifInnovationsUnsafe())
				}
			}
			if pop, err := genetics.NewPopulation(start, opts); err == nil {
				ex := &genetics.ParallelPopulationEpochExecutor{}
				ctx := neat.NewContext(context.Background(), opts)
				frng := rand.New(rand.NewSource(*seed + 991))
				for gen := 1; gen <= 2; gen++ {
					assignFitness(pop, 6, frng, gen)
					if len(pop.Species) > 1 {
						multi++
					}
					before := 0
					for _, o := range pop.Organisms {
						before += len(o.Genotype.Genes)
					}
					if err := ex.NextEpoch(ctx, gen, pop); err != nil {
						epochFailed(rep, gen, len(pop.Organisms), err)
						break
					}
					rep.Evaluations++
					after := 0
					for _, o := range pop.Organisms {
						after += len(o.Genotype.Genes)
					}
					longGrowth = append(longGrowth, after-before)
				}
			}
		}
	}
	if rep.Extra == nil {
		rep.Extra = map[string]interface{}{}
	}
	rep.Extra["long_record_gene_growth_per_epoch"] = longGrowth
	rep.Extra["long_record_innovations_in_one_generation"] = longRecord
	rep.Extra["species_in_first_epoch"] = firstEpochSpecies
	rep.Nontrivial = multi
	rep.Cases = *runs
	return rep.Write(*repf)
}

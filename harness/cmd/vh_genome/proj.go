package main

import (
	"crypto/sha1"
	"encoding/json"
	"math"
	"unsafe"

	"github.com/yaricom/goNEAT/v4/neat"
	"github.com/yaricom/goNEAT/v4/neat/genetics"
	"github.com/yaricom/goNEAT/v4/neat/network"
)

// Projection of Go state onto the abstract records of spec/Genome.tla (DESIGN.md section 4).  Floats are interned
// (P1: equal bit patterns <=> equal symbols), object identities ("cells") are interned pointers.

type interner struct {
	floats map[uint64]int
	ptrs   map[interface{}]int
	digs   map[[20]byte]int
}

func newInterner() *interner {
	in := &interner{floats: map[uint64]int{}, ptrs: map[interface{}]int{}, digs: map[[20]byte]int{}}
	in.f(0.0) // symbol 0 is 0.0
	in.f(1.0) // symbol 1 is 1.0
	return in
}

func (in *interner) f(x float64) int {
	b := math.Float64bits(x)
	if v, ok := in.floats[b]; ok {
		return v
	}
	v := len(in.floats)
	in.floats[b] = v
	return v
}

// p interns a (typed) pointer; nil pointers are 0.
func (in *interner) p(x interface{}, isNil bool) int {
	if isNil {
		return 0
	}
	if v, ok := in.ptrs[x]; ok {
		return v
	}
	v := len(in.ptrs) + 1
	in.ptrs[x] = v
	return v
}

type pTrait struct {
	Id int   `json:"id"`
	P  []int `json:"p"`
	C  int   `json:"c"`
	Pc int   `json:"pc"`
}
type pNode struct {
	Id   int    `json:"id"`
	Role string `json:"role"`
	Act  int    `json:"act"`
	Tr   int    `json:"tr"`
	C    int    `json:"c"`
	Tc   int    `json:"tc"`
	Lk   int    `json:"lk"`
}
type pGene struct {
	Inn int  `json:"inn"`
	Src int  `json:"src"`
	Dst int  `json:"dst"`
	Rec bool `json:"rec"`
	En  bool `json:"en"`
	W   int  `json:"w"`
	Mut int  `json:"mut"`
	Tr  int  `json:"tr"`
	C   int  `json:"c"`
	Lc  int  `json:"lc"`
	Sc  int  `json:"sc"`
	Dc  int  `json:"dc"`
	Tc  int  `json:"tc"`
	Lpc int  `json:"lpc"` // identity of the backing array of Link.Params (0: none) - mutable state like everything else
}
type pEnd struct {
	N int  `json:"n"`
	W int  `json:"w"`
	R bool `json:"r"`
	T int  `json:"t"`
	// identities: the link object, the node object at its far end (the source of an input link, the target of an output link)
	// and its trait object
	C  int `json:"c"`
	Ec int `json:"ec"`
	Tc int `json:"tc"`
}
type pMod struct {
	Inn  int    `json:"inn"`
	Mut  int    `json:"mut"`
	En   bool   `json:"en"`
	Nid  int    `json:"nid"`
	Act  int    `json:"act"`
	Tr   int    `json:"tr"`
	Ins  []pEnd `json:"ins"`
	Outs []pEnd `json:"outs"`
	C    int    `json:"c"`
	Nc   int    `json:"nc"`
	Ntc  int    `json:"ntc"` // the control node's trait object
}
type pGenome struct {
	Id              int      `json:"id"`
	Traits          []pTrait `json:"traits"`
	Nodes           []pNode  `json:"nodes"`
	Genes           []pGene  `json:"genes"`
	Mods            []pMod   `json:"mods"`
	AbsentLookupNil bool     `json:"absentLookupNil"`
}

func role(t network.NodeNeuronType) string {
	switch t {
	case network.InputNeuron:
		return "I"
	case network.BiasNeuron:
		return "B"
	case network.OutputNeuron:
		return "O"
	default:
		return "H"
	}
}

func traitId(t *neat.Trait) int {
	if t == nil {
		return 0
	}
	return t.Id
}

func (in *interner) genome(g *genetics.Genome) pGenome {
	r := pGenome{Id: g.Id, Traits: []pTrait{}, Nodes: []pNode{}, Genes: []pGene{}, Mods: []pMod{}}
	for _, t := range g.Traits {
		pt := pTrait{Id: t.Id, P: []int{}, C: in.p(t, t == nil)}
		for _, x := range t.Params {
			pt.P = append(pt.P, in.f(x))
		}
		if len(t.Params) > 0 {
			pt.Pc = in.p(unsafe.Pointer(&t.Params[0]), false)
		}
		r.Traits = append(r.Traits, pt)
	}
	maxId := 0
	for _, n := range g.Nodes {
		pn := pNode{Id: n.Id, Role: role(n.NeuronType), Act: int(n.ActivationType), Tr: traitId(n.Trait),
			C: in.p(n, false), Tc: in.p(n.Trait, n.Trait == nil)}
		lk := g.NodeWithId(n.Id)
		pn.Lk = in.p(lk, lk == nil)
		r.Nodes = append(r.Nodes, pn)
		if n.Id > maxId {
			maxId = n.Id
		}
	}
	r.AbsentLookupNil = g.NodeWithId(maxId+1) == nil && g.NodeWithId(-1) == nil && g.VerifNodeMapLen() == len(g.Nodes)
	for _, gn := range g.Genes {
		l := gn.Link
		pg := pGene{Inn: int(gn.InnovationNum), Src: l.InNode.Id, Dst: l.OutNode.Id, Rec: l.IsRecurrent, En: gn.IsEnabled,
			W: in.f(l.ConnectionWeight), Mut: in.f(gn.MutationNum), Tr: traitId(l.Trait),
			C: in.p(gn, false), Lc: in.p(l, false), Sc: in.p(l.InNode, false), Dc: in.p(l.OutNode, false), Tc: in.p(l.Trait, l.Trait == nil)}
		if len(l.Params) > 0 {
			pg.Lpc = in.p(unsafe.Pointer(&l.Params[0]), false)
		}
		r.Genes = append(r.Genes, pg)
	}
	for _, cg := range g.ControlGenes {
		cn := cg.ControlNode
		pm := pMod{Inn: int(cg.InnovationNum), Mut: in.f(cg.MutationNum), En: cg.IsEnabled, Nid: cn.Id, Act: int(cn.ActivationType),
			Tr: traitId(cn.Trait), Ins: []pEnd{}, Outs: []pEnd{}, C: in.p(cg, false), Nc: in.p(cn, false), Ntc: in.p(cn.Trait, cn.Trait == nil)}
		for _, l := range cn.Incoming {
			pm.Ins = append(pm.Ins, pEnd{N: l.InNode.Id, W: in.f(l.ConnectionWeight), R: l.IsRecurrent, T: traitId(l.Trait),
				C: in.p(l, false), Ec: in.p(l.InNode, false), Tc: in.p(l.Trait, l.Trait == nil)})
		}
		for _, l := range cn.Outgoing {
			pm.Outs = append(pm.Outs, pEnd{N: l.OutNode.Id, W: in.f(l.ConnectionWeight), R: l.IsRecurrent, T: traitId(l.Trait),
				C: in.p(l, false), Ec: in.p(l.OutNode, false), Tc: in.p(l.Trait, l.Trait == nil)})
		}
		r.Mods = append(r.Mods, pm)
	}
	return r
}

// digest interns the genetic content (everything but identities and the genome id) of a projected genome.
func (in *interner) digest(g pGenome) int {
	type gg struct {
		T []struct {
			Id int
			P  []int
		}
		N [][4]interface{}
		G [][8]interface{}
		M []pMod
	}
	var x gg
	for _, t := range g.Traits {
		x.T = append(x.T, struct {
			Id int
			P  []int
		}{t.Id, t.P})
	}
	for _, n := range g.Nodes {
		x.N = append(x.N, [4]interface{}{n.Id, n.Role, n.Act, n.Tr})
	}
	for _, e := range g.Genes {
		x.G = append(x.G, [8]interface{}{e.Inn, e.Src, e.Dst, e.Rec, e.En, e.W, e.Mut, e.Tr})
	}
	for _, m := range g.Mods {
		m.C, m.Nc = 0, 0
		x.M = append(x.M, m)
	}
	b, _ := json.Marshal(x)
	h := sha1.Sum(b)
	if v, ok := in.digs[h]; ok {
		return v
	}
	v := len(in.digs) + 1
	in.digs[h] = v
	return v
}

type pInnov struct {
	K    string `json:"k"`
	Src  int    `json:"src"`
	Dst  int    `json:"dst"`
	Rec  bool   `json:"rec"`
	Inn  int    `json:"inn"`
	Inn2 int    `json:"inn2"`
	Node int    `json:"node"`
	Old  int    `json:"old"`
	W    int    `json:"w"`
	Tr   int    `json:"tr"`
}

func (in *interner) registry(p *genetics.Population) []pInnov {
	out := []pInnov{}
	for _, i := range p.VerifInnovationsUnsafe() {
		if genetics.VerifInnovationKind(i) == 1 { // new node
			out = append(out, pInnov{K: "N", Src: i.InNodeId, Dst: i.OutNodeId, Inn: int(i.InnovationNum), Inn2: int(i.InnovationNum2),
				Node: i.NewNodeId, Old: int(i.OldInnovNum)})
		} else {
			out = append(out, pInnov{K: "L", Src: i.InNodeId, Dst: i.OutNodeId, Rec: i.IsRecurrent, Inn: int(i.InnovationNum),
				W: in.f(i.NewWeight), Tr: i.NewTraitNum})
		}
	}
	return out
}

// Command vh_genome records traces of the genetic operators and of whole epochs of goNEAT for validation against
// spec/Trace_GenomeOps.tla and spec/Trace_Epoch.tla (binding B1 of DESIGN.md).
package main

import (
	"fmt"
	"os"

	"github.com/yaricom/goNEAT/v4/neat"
)

type command func(args []string) int

var commands = map[string]command{}

func main() {
	_ = neat.InitLogger("error")
	if len(os.Args) < 2 {
		fmt.Fprintln(os.Stderr, "usage: vh_genome <command> [flags]")
		os.Exit(2)
	}
	cmd, ok := commands[os.Args[1]]
	if !ok {
		fmt.Fprintf(os.Stderr, "vh_genome: unknown command %q\n", os.Args[1])
		os.Exit(2)
	}
	os.Exit(cmd(os.Args[2:]))
}

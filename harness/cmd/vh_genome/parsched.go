package main

import (
	"encoding/json"
	"flag"
	"fmt"
	"os"
	"sync"
	"time"

	"verifharness/vhu"

	"github.com/yaricom/goNEAT/v4/neat"
	"github.com/yaricom/goNEAT/v4/neat/genetics"
	"github.com/yaricom/goNEAT/v4/neat/network"
)

// B3 (DESIGN.md 6.3): every schedule of spec/InnovPar.tla is forced on real goroutines.  Each thread calls the REAL
// mutateAddNode / mutateAddLink on private genomes built so that the mutator's random choice is forced, with the
// shared REAL Population behind a gate: the gate parks the goroutine before each primitive (Innovations,
// NextNodeId, NextInnovationNumber, StoreInnovation) until the schedule names it.  The observed outcome (numbers,
// node ids, registry) is written out for validation by spec/Trace_InnovPar.tla.

func init() {
	commands["replay-schedules"] = replaySchedules
	commands["explore-schedules"] = exploreSchedules
}

type schedCase struct {
	Scenario string          `json:"scenario"`
	Threads  int             `json:"threads"`
	NInn0    int64           `json:"ninn0"`
	NNode0   int32           `json:"nnode0"`
	Sched    [][]interface{} `json:"sched"`
	Out      [][]schedOut    `json:"out"`
	RegLen   int             `json:"reglen"`
	NInn     int64           `json:"ninn"`
	NNode    int32           `json:"nnode"`
}
type schedMut struct {
	Kind string `json:"kind"`
	Src  int    `json:"src"`
	Dst  int    `json:"dst"`
	Rec  bool   `json:"rec"`
	Old  int64  `json:"old"`
}
type schedOut struct {
	M      schedMut `json:"m"`
	Node   int      `json:"node"`
	Inn    int64    `json:"inn"`
	Inn2   int64    `json:"inn2"`
	Reused bool     `json:"reused"`
}

type arrival struct {
	t     int
	point string
}

type scheduler struct {
	arrive  chan arrival
	release []chan struct{}
	done    chan int
	free    bool // free-running: gates do not park
	mu      sync.Mutex
}

type gated struct {
	pop *genetics.Population
	t   int
	s   *scheduler
}

func (g *gated) gate(point string) {
	g.s.mu.Lock()
	free := g.s.free
	g.s.mu.Unlock()
	if free {
		return
	}
	g.s.arrive <- arrival{g.t, point}
	<-g.s.release[g.t]
}
func (g *gated) after() {
	g.s.mu.Lock()
	free := g.s.free
	g.s.mu.Unlock()
	if !free {
		g.s.done <- g.t
	}
}
func (g *gated) StoreInnovation(i genetics.Innovation) {
	g.gate("store")
	g.pop.StoreInnovation(i)
	g.after()
}
func (g *gated) Innovations() []genetics.Innovation {
	g.gate("lookup")
	r := g.pop.Innovations()
	g.after()
	return r
}
func (g *gated) NextInnovationNumber() int64 {
	g.gate("nextinn")
	r := g.pop.NextInnovationNumber()
	g.after()
	return r
}
func (g *gated) NextNodeId() int {
	g.gate("nextnode")
	r := g.pop.NextNodeId()
	g.after()
	return r
}

func oneTrait() []*neat.Trait {
	t := neat.NewTrait()
	t.Id = 1
	return []*neat.Trait{t}
}

// genomeFor builds a genome on which the given mutation is the only one the mutator can choose.
func genomeFor(m schedMut) *genetics.Genome {
	tr := oneTrait()
	if m.Kind == "node" { // nodes src(I) dst(O), the single gene `old` src->dst
		a := network.NewNNode(m.Src, network.InputNeuron)
		b := network.NewNNode(m.Dst, network.OutputNeuron)
		return genetics.NewGenome(1, tr, []*network.NNode{a, b}, []*genetics.Gene{genetics.NewGeneWithTrait(tr[0], 0.5, a, b, false, m.Old, 0.5)})
	}
	// link src->dst: nodes src(I) 2(B) dst(O) with the single gene 2->dst, so that src->dst is the only open pair
	a := network.NewNNode(m.Src, network.InputNeuron)
	bias := network.NewNNode(2, network.BiasNeuron)
	b := network.NewNNode(m.Dst, network.OutputNeuron)
	return genetics.NewGenome(1, tr, []*network.NNode{a, bias, b}, []*genetics.Gene{genetics.NewGeneWithTrait(tr[0], 0.5, bias, b, false, 1, 0.5)})
}

type realOut struct {
	M     schedMut `json:"m"`
	Genes [][4]int `json:"genes"` // inn, src, dst, rec(0/1) of the genes the mutation added
	Nodes []int    `json:"nodes"` // node ids it added
	Ok    bool     `json:"ok"`
	Err   bool     `json:"err"`
}

func b2i(b bool) int {
	if b {
		return 1
	}
	return 0
}

func runSchedule(c *schedCase, opts *neat.Options) (map[string]interface{}, string) {
	pop := genetics.VerifNewEmptyPopulation()
	pop.VerifSetCounters(c.NInn0, c.NNode0)
	n := c.Threads
	s := &scheduler{arrive: make(chan arrival, n), release: make([]chan struct{}, n+1), done: make(chan int, n)}
	for t := 1; t <= n; t++ {
		s.release[t] = make(chan struct{}, 1)
	}
	results := make([][]realOut, n+1)
	finished := make(chan int, n)
	// the threads' programs are the `m` fields of the specification's outputs, in order
	for t := 1; t <= n; t++ {
		prog := c.Out[t-1]
		go func(t int, prog []schedOut) {
			g := &gated{pop: pop, t: t, s: s}
			for _, o := range prog {
				gn := genomeFor(o.M)
				before := map[int64]bool{}
				for _, x := range gn.Genes {
					before[x.InnovationNum] = true
				}
				nodesBefore := map[int]bool{}
				for _, x := range gn.Nodes {
					nodesBefore[x.Id] = true
				}
				ro := realOut{M: o.M, Genes: [][4]int{}, Nodes: []int{}}
				for try := 0; try < 200 && !ro.Ok && !ro.Err; try++ {
					var ok bool
					var err error
					if p := vhu.Guard(func() {
						if o.M.Kind == "node" {
							ok, err = gn.VerifMutateAddNode(g, g, opts)
						} else {
							ok, err = gn.VerifMutateAddLink(g, 1, opts)
						}
					}); p != "" {
						ro.Err = true
					}
					ro.Ok, ro.Err = ok, ro.Err || err != nil
					if len(gn.Genes) != len(before) {
						break // something was added even if the mutator reported failure
					}
				}
				for _, x := range gn.Genes {
					if !before[x.InnovationNum] {
						ro.Genes = append(ro.Genes, [4]int{int(x.InnovationNum), x.Link.InNode.Id, x.Link.OutNode.Id, b2i(x.Link.IsRecurrent)})
					}
				}
				for _, x := range gn.Nodes {
					if !nodesBefore[x.Id] {
						ro.Nodes = append(ro.Nodes, x.Id)
					}
				}
				results[t] = append(results[t], ro)
			}
			finished <- t
		}(t, prog)
	}
	waiting := map[int]string{}
	live := n
	observed := [][]interface{}{}
	note := ""
	timeout := time.After(10 * time.Second)
	// pump arrivals until thread t is parked at a gate (or finished)
	waitFor := func(t int) (string, bool) {
		for {
			if p, ok := waiting[t]; ok {
				return p, true
			}
			select {
			case a := <-s.arrive:
				waiting[a.t] = a.point
			case f := <-finished:
				live--
				if f == t {
					return "", false
				}
			case <-timeout:
				return "timeout", false
			}
		}
	}
	step := func(t int) bool {
		delete(waiting, t)
		s.release[t] <- struct{}{}
		select {
		case <-s.done:
			return true
		case <-timeout:
			return false
		}
	}
	followed := true
	for _, st := range c.Sched {
		t := int(st[0].(float64))
		want := st[1].(string)
		p, parked := waitFor(t)
		if p == "timeout" {
			return nil, "deadlock: no progress within 10 s while following the schedule"
		}
		if !parked {
			// the thread has finished although the schedule still names it: keep going with the other threads
			if followed {
				followed = false
				note = fmt.Sprintf("thread %d has finished where the schedule says %q", t, want)
			}
			continue
		}
		if p != want && followed {
			// the code is at another primitive than the model (e.g. it looks the registry up twice): the schedule is
			// still used as an ORDER OF THREADS, so that the interleaving it describes is forced as far as possible
			followed = false
			note = fmt.Sprintf("thread %d is at %q where the schedule says %q", t, p, want)
		}
		if !step(t) {
			return nil, "deadlock: a primitive did not return within 10 s"
		}
		observed = append(observed, []interface{}{t, p})
	}
	// whatever is left runs freely (a schedule the code does not follow is recorded, not judged here)
	s.mu.Lock()
	s.free = true
	s.mu.Unlock()
	for t := range waiting {
		s.release[t] <- struct{}{}
		delete(waiting, t)
	}
	for live > 0 {
		select {
		case a := <-s.arrive:
			if followed {
				followed = false
				note = fmt.Sprintf("thread %d arrived at %q after the schedule had ended", a.t, a.point)
			}
			s.release[a.t] <- struct{}{}
		case <-s.done:
		case <-finished:
			live--
		case <-timeout:
			return nil, "deadlock: threads did not finish within 10 s"
		}
	}
	reg := [][]interface{}{}
	for _, i := range pop.VerifInnovationsUnsafe() {
		k := "link"
		if genetics.VerifInnovationKind(i) == 1 {
			k = "node"
		}
		reg = append(reg, []interface{}{k, i.InNodeId, i.OutNodeId, i.IsRecurrent, int(i.OldInnovNum), i.NewNodeId, int(i.InnovationNum), int(i.InnovationNum2)})
	}
	ni, nn := pop.VerifCounters()
	outs := [][]realOut{}
	for t := 1; t <= n; t++ {
		outs = append(outs, results[t])
	}
	return map[string]interface{}{"scenario": c.Scenario, "ninn0": c.NInn0, "nnode0": c.NNode0, "sched": c.Sched, "followed": followed, "note": note,
		"expect": c.Out, "real": outs, "reg": reg, "ninn": int(ni), "nnode": int(nn), "xninn": c.NInn, "xnnode": c.NNode, "xreglen": c.RegLen}, ""
}

// ---------------------------------------------------------------------------------------------------------------
// explore-schedules: systematic exploration of ALL interleavings of the primitives the real code itself performs (a
// stateless search over which parked thread to release next), independent of how many primitive calls a mutation makes.
// The registry can be pre-filled by mutations executed before the threads start.  Outcomes go to Trace_InnovPar.

type exploreScenario struct {
	Name    string
	Prefill []schedMut
	Progs   [][]schedMut
}

func exploreScenarios() []exploreScenario {
	link := schedMut{Kind: "link", Src: 1, Dst: 3}
	node := schedMut{Kind: "node", Src: 1, Dst: 3, Old: 1}
	other := schedMut{Kind: "node", Src: 7, Dst: 9, Old: 1} // an unrelated split recorded before the threads start
	return []exploreScenario{
		{"x-link-link", nil, [][]schedMut{{link}, {link}}},
		{"x-prefilled-link-link", []schedMut{other}, [][]schedMut{{link}, {link}}},
		{"x-prefilled-split-split", []schedMut{other}, [][]schedMut{{node}, {node}}},
		{"x-prefilled-split-link", []schedMut{other}, [][]schedMut{{node}, {link}}},
		{"x-link-link-link", []schedMut{other}, [][]schedMut{{link}, {link}, {link}}},
	}
}

// runOrder executes the scenario releasing, at every step, the parked thread chosen by `choose` (given the sorted list of
// parked threads).  It returns the outcome, the choices made and the alternatives that existed at each step.
func runOrder(sc exploreScenario, opts *neat.Options, prefix []int) (map[string]interface{}, []int, [][]int, string) {
	pop := genetics.VerifNewEmptyPopulation()
	pop.VerifSetCounters(1, 10)
	// prefill sequentially, ungated
	for _, m := range sc.Prefill {
		g := genomeFor(m)
		for try := 0; try < 200; try++ {
			if ok, _ := g.VerifMutateAddNode(pop, pop, opts); ok {
				break
			}
		}
	}
	ninn0, nnode0 := pop.VerifCounters()
	n := len(sc.Progs)
	s := &scheduler{arrive: make(chan arrival, n), release: make([]chan struct{}, n+1), done: make(chan int, n)}
	for t := 1; t <= n; t++ {
		s.release[t] = make(chan struct{}, 1)
	}
	results := make([][]realOut, n+1)
	finished := make(chan int, n)
	for t := 1; t <= n; t++ {
		go func(t int, prog []schedMut) {
			g := &gated{pop: pop, t: t, s: s}
			for _, m := range prog {
				gn := genomeFor(m)
				before, nodesBefore := map[int64]bool{}, map[int]bool{}
				for _, x := range gn.Genes {
					before[x.InnovationNum] = true
				}
				for _, x := range gn.Nodes {
					nodesBefore[x.Id] = true
				}
				ro := realOut{M: m, Genes: [][4]int{}, Nodes: []int{}}
				for try := 0; try < 200 && !ro.Ok && !ro.Err; try++ {
					var ok bool
					var err error
					if p := vhu.Guard(func() {
						if m.Kind == "node" {
							ok, err = gn.VerifMutateAddNode(g, g, opts)
						} else {
							ok, err = gn.VerifMutateAddLink(g, 1, opts)
						}
					}); p != "" {
						ro.Err = true
					}
					ro.Ok, ro.Err = ok, ro.Err || err != nil
					if len(gn.Genes) != len(before) {
						break
					}
				}
				for _, x := range gn.Genes {
					if !before[x.InnovationNum] {
						ro.Genes = append(ro.Genes, [4]int{int(x.InnovationNum), x.Link.InNode.Id, x.Link.OutNode.Id, b2i(x.Link.IsRecurrent)})
					}
				}
				for _, x := range gn.Nodes {
					if !nodesBefore[x.Id] {
						ro.Nodes = append(ro.Nodes, x.Id)
					}
				}
				results[t] = append(results[t], ro)
			}
			finished <- t
		}(t, sc.Progs[t-1])
	}
	parked := map[int]string{}
	running := map[int]bool{}
	for t := 1; t <= n; t++ {
		running[t] = true
	}
	live := n
	var choices []int
	var alts [][]int
	observed := [][]interface{}{}
	timeout := time.After(10 * time.Second)
	for live > 0 {
		// wait until every live thread is parked or finished
		for len(running) > 0 {
			select {
			case a := <-s.arrive:
				parked[a.t] = a.point
				delete(running, a.t)
			case f := <-finished:
				live--
				delete(running, f)
			case <-timeout:
				return nil, nil, nil, "deadlock: threads neither parked nor finished within 10 s"
			}
		}
		if live == 0 {
			break
		}
		var cand []int
		for t := 1; t <= n; t++ {
			if _, ok := parked[t]; ok {
				cand = append(cand, t)
			}
		}
		if len(cand) == 0 {
			return nil, nil, nil, "deadlock: live threads but nobody parked"
		}
		pick := cand[0]
		if len(choices) < len(prefix) {
			pick = prefix[len(choices)]
			ok := false
			for _, c := range cand {
				ok = ok || c == pick
			}
			if !ok {
				pick = cand[0]
			}
		}
		choices = append(choices, pick)
		alts = append(alts, cand)
		observed = append(observed, []interface{}{pick, parked[pick]})
		delete(parked, pick)
		running[pick] = true
		s.release[pick] <- struct{}{}
		select {
		case <-s.done:
		case <-timeout:
			return nil, nil, nil, "deadlock: a primitive did not return within 10 s"
		}
	}
	reg := [][]interface{}{}
	for _, i := range pop.VerifInnovationsUnsafe() {
		k := "link"
		if genetics.VerifInnovationKind(i) == 1 {
			k = "node"
		}
		reg = append(reg, []interface{}{k, i.InNodeId, i.OutNodeId, i.IsRecurrent, int(i.OldInnovNum), i.NewNodeId, int(i.InnovationNum), int(i.InnovationNum2)})
	}
	ni, nn := pop.VerifCounters()
	outs := [][]realOut{}
	for t := 1; t <= n; t++ {
		outs = append(outs, results[t])
	}
	return map[string]interface{}{"scenario": sc.Name, "explored": true, "ninn0": int(ninn0), "nnode0": int(nnode0), "sched": observed,
		"followed": true, "note": "", "expect": [][]schedOut{}, "real": outs, "reg": reg, "ninn": int(ni), "nnode": int(nn),
		"xninn": 0, "xnnode": 0, "xreglen": 0}, choices, alts, ""
}

func exploreSchedules(args []string) int {
	fs := flag.NewFlagSet("explore-schedules", flag.ExitOnError)
	out := fs.String("out", "", "NDJSON outcomes for Trace_InnovPar")
	repf := fs.String("report", "", "report file")
	maxPer := fs.Int("max", 400, "maximal number of schedules per scenario")
	_ = fs.Parse(args)
	f, err := os.Create(*out)
	if err != nil {
		fmt.Fprintln(os.Stderr, err)
		return 2
	}
	defer f.Close()
	enc := json.NewEncoder(f)
	opts := vhu.BaseOptions(10)
	opts.RecurOnlyProb = 0
	opts.NewLinkTries = 50
	rep := &vhu.Report{Command: "explore-schedules", Extra: map[string]interface{}{}}
	perScenario := map[string]int{}
	for _, sc := range exploreScenarios() {
		stack := [][]int{{}}
		seen := map[string]bool{}
		count := 0
		for len(stack) > 0 && count < *maxPer {
			prefix := stack[len(stack)-1]
			stack = stack[:len(stack)-1]
			res, choices, alts, dead := runOrder(sc, opts, prefix)
			if dead != "" {
				rep.Fail(map[string]interface{}{"case": map[string]interface{}{"scenario": sc.Name, "prefix": prefix}, "what": dead, "signature": "C16 schedule deadlock"})
				continue
			}
			key := fmt.Sprint(choices)
			if seen[key] {
				continue
			}
			seen[key] = true
			count++
			rep.Cases++
			rep.Evaluations += len(choices)
			res["prefix"] = choices
			if err := enc.Encode(res); err != nil {
				fmt.Fprintln(os.Stderr, err)
				return 2
			}
			// branch on every alternative beyond the given prefix
			for i := len(choices) - 1; i >= len(prefix); i-- {
				for _, a := range alts[i] {
					if a != choices[i] {
						np := append(append([]int{}, choices[:i]...), a)
						stack = append(stack, np)
					}
				}
			}
		}
		perScenario[sc.Name] = count
	}
	rep.Extra["schedules_per_scenario"] = perScenario
	return rep.Write(*repf)
}

func replaySchedules(args []string) int {
	fs := flag.NewFlagSet("replay-schedules", flag.ExitOnError)
	cases := fs.String("cases", "", "NDJSON schedules printed by MC_InnovPar")
	out := fs.String("out", "", "NDJSON outcomes for Trace_InnovPar")
	repf := fs.String("report", "", "report file")
	_ = fs.Parse(args)
	f, err := os.Create(*out)
	if err != nil {
		fmt.Fprintln(os.Stderr, err)
		return 2
	}
	defer f.Close()
	enc := json.NewEncoder(f)
	opts := vhu.BaseOptions(10)
	opts.RecurOnlyProb = 0
	opts.NewLinkTries = 50
	rep := &vhu.Report{Command: "replay-schedules"}
	err = vhu.ReadNDJSON(*cases, func(line []byte) error {
		var c schedCase
		if err := json.Unmarshal(line, &c); err != nil {
			return err
		}
		rep.Cases++
		res, dead := runSchedule(&c, opts)
		if dead != "" {
			rep.Fail(map[string]interface{}{"case": json.RawMessage(append([]byte(nil), line...)), "what": dead, "signature": "C16 schedule deadlock"})
			return nil
		}
		rep.Evaluations += len(c.Sched)
		if err := enc.Encode(res); err != nil {
			return err
		}
		return nil
	})
	if err != nil {
		fmt.Fprintln(os.Stderr, "replay-schedules:", err)
		return 2
	}
	return rep.Write(*repf)
}

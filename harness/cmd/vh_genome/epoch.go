package main

import (
	"bytes"
	"context"
	"encoding/json"
	"flag"
	"fmt"
	"io"
	"math"
	"math/rand"
	"os"
	"sort"

	"verifharness/vhu"

	"github.com/yaricom/goNEAT/v4/neat"
	"github.com/yaricom/goNEAT/v4/neat/genetics"
	neatmath "github.com/yaricom/goNEAT/v4/neat/math"
	"github.com/yaricom/goNEAT/v4/neat/network"
)

// The epoch driver (DESIGN.md 6.1 (b)): a population is constructed (NewPopulation / NewPopulationRandom /
// ReadPopulation) and turned over by the real executors through their public entry point NextEpoch; before every
// epoch the driver assigns fitness from a deterministic family.  One NDJSON event per construction and per epoch
// carries the complete projected population (organisms with genomes, species with members, ages and quotas).

func init() { commands["record-epochs"] = recordEpochs }

type scenario struct {
	Seed     int64  `json:"seed"`
	PopSize  int    `json:"popsize"`
	Executor string `json:"executor"` // seq | par
	Start    string `json:"start"`    // xor | rich | random | read
	Fitness  int    `json:"fitness"`  // family
	Epochs   int    `json:"epochs"`
	Preset   int    `json:"preset"`
	// optional overrides of single options of the preset (exploration / replay): CompatThreshold, BabiesStolen, ...
	Override map[string]float64 `json:"override,omitempty"`
	// C17 only: re-seed the global source before every epoch (so that perturbed processes may do unrelated evolution
	// BETWEEN the epochs as well); run the scenario through experiment.Execute instead of calling NextEpoch directly
	Reseed bool   `json:"reseed,omitempty"`
	Via    string `json:"via,omitempty"`
	// C17 only: the NEAT log level while the scenario runs (the same in every process; the log itself is discarded).  Scenarios
	// with a log level are the ones whose epochs perturbed processes space out in wall-clock time.
	LogLevel string `json:"loglevel,omitempty"`
}

func (sc scenario) options() *neat.Options {
	o := preset(sc.Preset, sc.PopSize)
	for k, v := range sc.Override {
		switch k {
		case "thr":
			o.CompatThreshold = v
		case "stolen":
			o.BabiesStolen = int(v)
		case "addnode":
			o.MutateAddNodeProb = v
		case "addlink":
			o.MutateAddLinkProb = v
		case "wpower":
			o.WeightMutPower = v
		case "mutdiff":
			o.MutdiffCoeff = v
		case "dropoff":
			o.DropOffAge = int(v)
		case "survival":
			o.SurvivalThresh = v
		}
	}
	return o
}

var fitnessNames = []string{"zero", "constant", "linear", "heavy-tailed", "dominant", "stagnating", "distinct-random", "structure", "tiny"}

func preset(k, popSize int) *neat.Options {
	o := vhu.BaseOptions(popSize)
	o.NodeActivators = []neatmath.NodeActivationType{neatmath.SigmoidSteepenedActivation, neatmath.TanhActivation}
	o.NodeActivatorsProb = []float64{0.5, 0.5}
	o.MutateAddNodeProb, o.MutateAddLinkProb = 0.15, 0.3
	o.MutateToggleEnableProb, o.MutateGeneReenableProb = 0.1, 0.05
	o.RecurOnlyProb = 0.2
	o.NewLinkTries = 20
	o.InterspeciesMateRate = 0.05
	switch k % 7 {
	case 0: // many species, no stealing
		o.CompatThreshold, o.SurvivalThresh, o.DropOffAge, o.BabiesStolen = 0.6, 0.2, 15, 0
	case 1: // stolen babies
		o.CompatThreshold, o.SurvivalThresh, o.DropOffAge, o.BabiesStolen = 1.0, 0.5, 15, popSize/4
	case 2: // quick stagnation -> penalties and delta coding
		o.CompatThreshold, o.SurvivalThresh, o.DropOffAge, o.BabiesStolen = 1.5, 0.3, 1, 0
	case 3: // one big species, everybody survives
		o.CompatThreshold, o.SurvivalThresh, o.DropOffAge, o.BabiesStolen = 30.0, 1.0, 5, 0
	case 4: // stolen babies + stagnation, linear compatibility
		o.CompatThreshold, o.SurvivalThresh, o.DropOffAge, o.BabiesStolen = 0.8, 0.1, 2, popSize/2
		o.GenCompatMethod = neat.GenomeCompatibilityMethodLinear
	case 6: // several mid-sized species that live long enough to be robbed by more than one thief's worth of babies
		o.CompatThreshold, o.SurvivalThresh, o.DropOffAge, o.BabiesStolen = 3.0, 0.3, 20, popSize/6
		o.MutateAddNodeProb, o.MutateAddLinkProb = 0.03, 0.05
	case 5: // mating heavy
		o.CompatThreshold, o.SurvivalThresh, o.DropOffAge, o.BabiesStolen = 2.0, 0.4, 4, 1
		o.MutateOnlyProb, o.MateOnlyProb, o.InterspeciesMateRate = 0.05, 0.5, 0.3
	}
	if o.BabiesStolen > popSize/2 {
		o.BabiesStolen = popSize / 2
	}
	return o
}

type pOrg struct {
	Oid  int     `json:"oid"`
	Gid  int     `json:"gid"`
	Fit  int     `json:"fit"`
	Rank int     `json:"rank"`
	Gen  int     `json:"gen"`
	Sp   int     `json:"sp"`  // id of the species the organism points to (0 = nil)
	Spc  int     `json:"spc"` // identity of that species object
	G    pGenome `json:"g"`
	Gok  bool    `json:"gok"`
	Dig  int     `json:"dig"`
}
type pSpecies struct {
	Id      int   `json:"id"`
	C       int   `json:"c"`
	Age     int   `json:"age"`
	Novel   bool  `json:"novel"`
	Quota   int   `json:"quota"`
	Members []int `json:"members"`
}

type epochRec struct {
	in      *interner
	out     *json.Encoder
	lines   int
	stats   map[string]int
	samples []interface{}
}

func (r *epochRec) orgs(pop *genetics.Population) []pOrg {
	fits := make([]float64, len(pop.Organisms))
	for i, o := range pop.Organisms {
		fits[i] = o.Fitness
	}
	sorted := append([]float64(nil), fits...)
	sort.Float64s(sorted)
	out := []pOrg{}
	for _, o := range pop.Organisms {
		g := r.in.genome(o.Genotype)
		po := pOrg{Oid: r.in.p(o, false), Gid: o.Genotype.Id, Fit: r.in.f(o.Fitness), Gen: o.Generation, G: g, Gok: genesisOK(o.Genotype),
			Dig: r.in.digest(g), Rank: sort.SearchFloat64s(sorted, o.Fitness)}
		if o.Species != nil {
			po.Sp, po.Spc = o.Species.Id, r.in.p(o.Species, false)
		}
		out = append(out, po)
	}
	return out
}

func (r *epochRec) species(list []*genetics.Species) []pSpecies {
	out := []pSpecies{}
	for _, s := range list {
		ps := pSpecies{Id: s.Id, C: r.in.p(s, false), Age: s.Age, Novel: s.IsNovel, Quota: s.ExpectedOffspring, Members: []int{}}
		for _, o := range s.Organisms {
			ps.Members = append(ps.Members, r.in.p(o, false))
		}
		out = append(out, ps)
	}
	return out
}

func (r *epochRec) emit(ev map[string]interface{}) {
	if err := r.out.Encode(ev); err != nil {
		panic(err)
	}
	r.lines++
}

func assignFitness(pop *genetics.Population, family int, frng *rand.Rand, gen int) {
	n := len(pop.Organisms)
	dom := frng.Intn(n)
	for i, o := range pop.Organisms {
		switch family {
		case 0:
			o.Fitness = 0
		case 1:
			o.Fitness = 1.5
		case 2:
			o.Fitness = float64(i + 1)
		case 3:
			o.Fitness = math.Exp(frng.NormFloat64() * 3)
		case 4:
			o.Fitness = 0.001 * float64(i+1)
			if i == dom {
				o.Fitness = 1000
			}
		case 5:
			o.Fitness = 1.0 + 0.001*float64(i)
		case 6:
			o.Fitness = 0.1 + 10*frng.Float64()
		case 9: // finite values at the top of the float64 range ("perfect score" sentinels): sums over several species overflow
			o.Fitness = 1e308 * (1 - 1e-3*float64((i+gen)%7))
			if (i+gen)%5 == 0 {
				o.Fitness = math.MaxFloat64
			}
		case 8: // distinct positive but tiny values (far below any fixed floor)
			o.Fitness = 1e-7 * (1 + frng.Float64()) * float64(1+(i*7)%n)
		default:
			en := 0
			for _, g := range o.Genotype.Genes {
				if g.IsEnabled {
					en++
				}
			}
			o.Fitness = float64(en) + 0.1*float64(len(o.Genotype.Nodes)) + 0.001*float64(i+1) + 0.0001*float64(gen)
		}
	}
	evaluatorLeftovers(pop, gen)
}

// evaluatorLeftovers: what an evaluator leaves in the organisms besides the fitness - winner flags (on organisms that need
// not be the fittest), error values, a built phenotype, a data object.  A turnover is governed by the fitness values.
func evaluatorLeftovers(pop *genetics.Population, gen int) {
	for i, o := range pop.Organisms {
		o.IsWinner = (i*7+gen*3)%5 == 0
		o.Error = float64((i*13+gen)%7) / 7
		if (i+gen)%3 == 0 {
			_, _ = o.Phenotype()
		}
		if (i+gen)%4 == 1 {
			o.Data = &genetics.OrganismData{Value: i}
		}
	}
}

func distinctPositive(pop *genetics.Population) bool {
	seen := map[float64]bool{}
	for _, o := range pop.Organisms {
		if !(o.Fitness > 0) || seen[o.Fitness] {
			return false
		}
		seen[o.Fitness] = true
	}
	return true
}

func construct(sc scenario, opts *neat.Options, rec *epochRec) (*genetics.Population, *genetics.Genome, string, error) {
	switch sc.Start {
	case "xor":
		g := vhu.ReadGenomeString(vhu.XorStartGenome, 1)
		p, err := genetics.NewPopulation(g, opts)
		return p, g, "NewPopulation", err
	case "rich":
		g := richStart()
		p, err := genetics.NewPopulation(g, opts)
		return p, g, "NewPopulation", err
	case "pool-notrait", "pool-rich":
		// a population ASSEMBLED from the genomes of a short operator lineage (originals, not copies): organisms whose
		// genomes carry the traces of many operator applications (disabled, recurrent, re-used, trait-less genes) from the
		// first epoch on
		l := &lineage{in: newInterner(), opts: opts, out: json.NewEncoder(io.Discard), rep: &vhu.Report{}, stats: map[string]int{}}
		kind := 1 // rich
		if sc.Start == "pool-notrait" {
			kind = -2
		}
		l.reset(kind)
		for i := 0; i < 120; i++ {
			l.step()
		}
		p := genetics.VerifNewEmptyPopulation()
		a, b := l.pop.VerifCounters()
		p.VerifSetCounters(a, b)
		var orgs []*genetics.Organism
		for _, m := range l.pool {
			o, _ := genetics.NewOrganism(0, m.g, 1)
			orgs = append(orgs, o)
		}
		for i := 0; len(orgs) < opts.PopSize; i++ {
			d, err := l.pool[i%len(l.pool)].g.VerifDuplicate(1000 + i)
			if err != nil {
				return nil, nil, "", err
			}
			o, _ := genetics.NewOrganism(0, d, 1)
			orgs = append(orgs, o)
		}
		orgs = orgs[:opts.PopSize]
		p.Organisms = orgs
		err := p.VerifSpeciate(opts.NeatContext(), orgs)
		return p, nil, "assembled", err
	case "notrait":
		g := noTraitStart()
		p, err := genetics.NewPopulation(g, opts)
		return p, g, "NewPopulation", err
	case "outfirst":
		g := outFirstStart()
		p, err := genetics.NewPopulation(g, opts)
		return p, g, "NewPopulation", err
	case "modular":
		g := modularStart()
		p, err := genetics.NewPopulation(g, opts)
		return p, g, "NewPopulation", err
	case "read":
		// a population evolved for a few epochs, written and read back
		g := richStart()
		p, err := genetics.NewPopulation(g, opts)
		if err != nil {
			return nil, nil, "", err
		}
		ex := &genetics.SequentialPopulationEpochExecutor{}
		frng := rand.New(rand.NewSource(sc.Seed + 7))
		for gen := 1; gen <= 3; gen++ {
			assignFitness(p, 6, frng, gen)
			if err = ex.NextEpoch(opts.NeatContext(), gen, p); err != nil {
				return nil, nil, "", err
			}
		}
		var buf bytes.Buffer
		if err = p.Write(&buf); err != nil {
			return nil, nil, "", err
		}
		q, err := genetics.ReadPopulation(&buf, opts)
		return q, nil, "ReadPopulation", err
	default:
		// genomes without a single connection gene are outside the quantifiers (C01): redraw until every genome has one
		for try := 0; ; try++ {
			p, err := genetics.NewPopulationRandom(3, 2, 3, sc.Seed%2 == 0, 0.6, opts)
			ok := err == nil
			if ok {
				for _, o := range p.Organisms {
					ok = ok && len(o.Genotype.Genes) > 0
				}
			}
			if ok || err != nil || try > 50 {
				return p, nil, "NewPopulationRandom", err
			}
		}
	}
}

func runScenario(sc scenario, rec *epochRec) {
	rand.Seed(sc.Seed)
	opts := sc.options()
	if sc.Executor == "par" {
		opts.EpochExecutorType = neat.EpochExecutorTypeParallel
	}
	ctx := neat.NewContext(context.Background(), opts)
	var pop *genetics.Population
	var start *genetics.Genome
	var how string
	var err error
	panicked := vhu.Guard(func() { pop, start, how, err = construct(sc, opts, rec) })
	ev := map[string]interface{}{"ev": "init", "scenario": sc, "how": how, "popsize": opts.PopSize, "seqexec": sc.Executor != "par",
		"err": err != nil || panicked != "" || pop == nil}
	if pop == nil {
		ev["orgs"], ev["species"], ev["lastSpecies"], ev["reglen"], ev["hasStart"] = []pOrg{}, []pSpecies{}, 0, 0, false
		rec.emit(ev)
		return
	}
	ev["orgs"], ev["species"], ev["lastSpecies"] = rec.orgs(pop), rec.species(pop.Species), pop.LastSpecies
	ev["reglen"] = len(pop.VerifInnovationsUnsafe())
	ev["hasStart"] = start != nil
	if start != nil {
		ev["start"] = rec.in.genome(start)
	}
	rec.emit(ev)
	rec.stats["init:"+how]++
	var exec genetics.PopulationEpochExecutor = &genetics.SequentialPopulationEpochExecutor{}
	if sc.Executor == "par" {
		exec = &genetics.ParallelPopulationEpochExecutor{}
	}
	frng := rand.New(rand.NewSource(sc.Seed*31 + 5))
	for gen := 1; gen <= sc.Epochs; gen++ {
		assignFitness(pop, sc.Fitness, frng, gen)
		// P3: order ranks of the fitness values (number of organisms with a strictly smaller fitness)
		preOrgs := rec.orgs(pop)
		prerank := [][2]int{}
		for _, o := range preOrgs {
			prerank = append(prerank, [2]int{o.Oid, o.Rank})
		}
		oldSpecies := append([]*genetics.Species(nil), pop.Species...)
		distinct := distinctPositive(pop)
		var eerr error
		panicked := vhu.Guard(func() { eerr = exec.NextEpoch(ctx, gen, pop) })
		quotas := [][2]int{}
		for _, s := range oldSpecies {
			quotas = append(quotas, [2]int{s.Id, s.ExpectedOffspring})
			if s.ExpectedOffspring > 5 {
				rec.stats["species-quota>5"]++
			}
		}
		ev := map[string]interface{}{"ev": "epoch", "gen": gen, "popsize": opts.PopSize, "seqexec": sc.Executor != "par",
			"prerank": prerank, "quotas": quotas, "distinct": distinct, "err": eerr != nil || panicked != "",
			"orgs": rec.orgs(pop), "species": rec.species(pop.Species), "lastSpecies": pop.LastSpecies,
			"reglen": len(pop.VerifInnovationsUnsafe())}
		if eerr != nil {
			ev["errtext"] = eerr.Error()
		}
		if panicked != "" {
			ev["errtext"] = "panic: " + panicked
		}
		rec.emit(ev)
		rec.stats["epochs"]++
		rec.stats["epochs:"+sc.Executor]++
		if len(pop.Species) > 1 {
			rec.stats["epochs-multi-species"]++
		}
		if eerr != nil || panicked != "" {
			return
		}
	}
}

func recordEpochs(args []string) int {
	fs := flag.NewFlagSet("record-epochs", flag.ExitOnError)
	out := fs.String("out", "", "NDJSON trace file")
	repf := fs.String("report", "", "report file")
	scen := fs.String("scenarios", "", "JSON list of scenarios")
	_ = fs.Parse(args)
	var scs []scenario
	if err := json.Unmarshal([]byte(*scen), &scs); err != nil {
		fmt.Fprintln(os.Stderr, "bad -scenarios:", err)
		return 2
	}
	f, err := os.Create(*out)
	if err != nil {
		fmt.Fprintln(os.Stderr, err)
		return 2
	}
	defer f.Close()
	rec := &epochRec{in: newInterner(), out: json.NewEncoder(f), stats: map[string]int{}}
	for _, sc := range scs {
		runScenario(sc, rec)
	}
	rep := &vhu.Report{Command: "record-epochs", Evaluations: rec.stats["epochs"], Cases: len(scs),
		Extra: map[string]interface{}{"stats": rec.stats, "events": rec.lines}}
	return rep.Write(*repf)
}

// modularStart is richStart plus two modules (MIMO control genes) chained through hidden IO nodes; used by the
// determinism scenarios (the parallel executor's wire format has no syntax for modules).
func modularStart() *genetics.Genome {
	g := richStart()
	tr := g.Traits
	var io []*network.NNode
	for id := 8; id <= 11; id++ {
		n := network.NewNNode(id, network.HiddenNeuron)
		n.ActivationType = neatmath.LinearActivation
		n.Trait = tr[0]
		io = append(io, n)
	}
	nodes := append(append([]*network.NNode{}, g.Nodes...), io...)
	byId := map[int]*network.NNode{}
	for _, n := range nodes {
		byId[n.Id] = n
	}
	genes := append([]*genetics.Gene{}, g.Genes...)
	genes = append(genes,
		genetics.NewGeneWithTrait(tr[0], 1.5, byId[1], byId[8], false, 8, 1.5),
		genetics.NewGeneWithTrait(tr[1], 2.5, byId[2], byId[9], false, 9, 2.5),
		genetics.NewGeneWithTrait(tr[2], 0.5, byId[10], byId[4], false, 10, 0.5),
		genetics.NewGeneWithTrait(tr[0], -1.5, byId[11], byId[5], false, 11, -1.5))
	mk := func(id int, act neatmath.NodeActivationType, ins, outs []int) *network.NNode {
		c := network.NewNNode(id, network.HiddenNeuron)
		c.ActivationType = act
		for _, i := range ins {
			c.Incoming = append(c.Incoming, network.NewLink(1.0, byId[i], c, false))
		}
		for _, o := range outs {
			c.Outgoing = append(c.Outgoing, network.NewLink(1.0, c, byId[o], false))
		}
		return c
	}
	mods := []*genetics.MIMOControlGene{
		genetics.NewMIMOGene(mk(12, neatmath.MultiplyModuleActivation, []int{8, 9}, []int{10}), 12, 5.5, true),
		genetics.NewMIMOGene(mk(13, neatmath.MaxModuleActivation, []int{10}, []int{11}), 13, 6.5, true),
	}
	return genetics.NewModularGenome(1, tr, nodes, genes, mods)
}

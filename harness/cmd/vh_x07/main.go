// Command vh_x07 is the Go side of growth suite X07 (activation of MODULAR networks - networks with control / MIMO
// nodes - on the standard solver and on the fast solver made from it).  The specification is spec/ModularAct.tla; the
// cases come from spec/MC_ModularAct.tla and are replayed here on real networks (binding B2 of DESIGN.md).
package main

import (
	"fmt"
	"os"

	"github.com/yaricom/goNEAT/v4/neat"
)

type command func(args []string) int

var commands = map[string]command{}

func main() {
	_ = neat.InitLogger("error")
	if len(os.Args) < 2 {
		fmt.Fprintln(os.Stderr, "usage: vh_x07 <command> [flags]")
		os.Exit(2)
	}
	cmd, ok := commands[os.Args[1]]
	if !ok {
		fmt.Fprintf(os.Stderr, "vh_x07: unknown command %q\n", os.Args[1])
		os.Exit(2)
	}
	os.Exit(cmd(os.Args[2:]))
}

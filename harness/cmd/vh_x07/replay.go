package main

import (
	"bufio"
	"encoding/json"
	"flag"
	"fmt"
	"hash/fnv"
	"io"
	"os"
	"runtime"
	"sort"
	"sync"

	"github.com/yaricom/goNEAT/v4/neat/network"

	"verifharness/vhu"
)

// X07 replay.  MC_ModularAct prints per network: one "net" line (static facts: classes, Need, NodeCount / LinkCount of
// both solvers, MaxActivationDepth, the topological value for every input vector), the HISTORIES (API calls before
// the flush with the complete predicted state of both solvers after EVERY call, and the predicted state right after
// Flush) and the SUFFIXES (calls after the flush with the predicted state of the flushed instance after every call).
// Every network is built for real (through the network API with NewModularNetwork, through a modular genome with
// Genesis, and with the bias passed explicitly), its fast solver made with FastNetworkSolver, and
//   - every history is run, and after every call the outputs, returned flag, error class of both solvers and per
//     node Activation / ActivationsCount / GetActiveOut / GetActiveOutTd are compared with the prediction (API
//     level: a mismatch is a violation), and lastActivation, lastActivation2, isActive of every node and control
//     node and the fast solver's two signal arrays (internal level: a mismatch is information);
//   - wherever the specification says the settle law applies (sset / fset) the real outputs must equal the
//     topological definition, whatever the prediction was;
//   - the instance is flushed, compared with the predicted flushed state, and then lives through the suffixes of the
//     same network side by side with a freshly built twin: after every suffix call everything at API level must
//     coincide between the two, and with the prediction;
//   - NodeCount / LinkCount / Complexity of both solvers, MaxActivationDepth, the refusals (MaxActivationDepthWithCap,
//     Network.Relax) and the control-node accessors are compared with the "net" line, and ForwardSteps(Need) on a
//     fresh instance must give the topological value for every input vector of the scope.
// Library behaviour that is surprising but not against anything it documents is counted under `observations`.

type obs struct {
	So   []int   `json:"so"`
	Sok  bool    `json:"sok"`
	Se   string  `json:"se"`
	Sst  [][]int `json:"sst"`  // per node in allNodes order: a, c, l1, l2, on
	Scon []int   `json:"scon"` // isActive of the control nodes
	Fo   []int   `json:"fo"`
	Fok  bool    `json:"fok"`
	Fe   string  `json:"fe"`
	Fsig []int   `json:"fsig"`
	Fpre []int   `json:"fpre"`
	Sn   int     `json:"sn"`
	Fn   int     `json:"fn"`
	Want []int   `json:"want"`
	Sset bool    `json:"sset"`
	Fset bool    `json:"fset"`
}

type seqCase struct {
	Ops     []apiOp `json:"ops"`
	Log     []obs   `json:"log"`
	Flushed *obs    `json:"flushed"` // hist only
	Con0    []int   `json:"con0"`    // suffix only
	raw     json.RawMessage
}

type wantCase struct {
	V    []int `json:"v"`
	Want []int `json:"want"`
}

type caseLine struct {
	Kind  string          `json:"kind"` // net, hist, suffix, pair
	Net   json.RawMessage `json:"net"`
	Meta  *netMeta        `json:"meta"`
	Wants []wantCase      `json:"wants"`
	seqCase
	Hist   *seqCase `json:"hist"`   // pair (replay of a recorded failure)
	Suffix *seqCase `json:"suffix"` // pair
}

type group struct {
	raw   json.RawMessage
	net   modNet
	meta  *netMeta
	wants []wantCase
	hists []seqCase
	sufs  []seqCase
	pairs [][2]seqCase
}

func init() { commands["replay-modular"] = replayModular }

type observation struct {
	count   int
	example string
	size    int
}

type replayer struct {
	rep      *vhu.Report
	internal map[string]int // internal-level differences by field
	intEx    []string
	obsv     map[string]*observation
	seen     map[uint64]bool
	stats    map[string]int
	classes  map[string]int
}

func (r *replayer) observe(key string, size int, format string, a ...interface{}) {
	o := r.obsv[key]
	if o == nil {
		o = &observation{size: 1 << 30}
		r.obsv[key] = o
	}
	o.count++
	if size < o.size {
		o.size = size
		o.example = fmt.Sprintf(format, a...)
	}
}

func (r *replayer) fail(sig, what string, c interface{}) {
	r.rep.Fail(map[string]interface{}{"what": what, "signature": "x07 " + sig, "case": c})
}

func (r *replayer) internalDiff(field, format string, a ...interface{}) {
	r.internal[field]++
	if len(r.intEx) < 6 {
		r.intEx = append(r.intEx, field+": "+fmt.Sprintf(format, a...))
	}
}

// api compares everything observable through the API after a call; "" when it agrees with the prediction
func (x *instance) api(r callResult, e *obs) string {
	bad := ""
	so := x.std.ReadOutputs()
	fo := x.fast.ReadOutputs()
	if !equalsInts(so, e.So) {
		bad += fmt.Sprintf("Network.ReadOutputs %s, specification %v; ", fstrs(so), e.So)
	}
	if r.sok != e.Sok || r.se != e.Se {
		bad += fmt.Sprintf("Network call returned (%v, %q), specification (%v, %q); ", r.sok, r.se, e.Sok, e.Se)
	}
	if !equalsInts(fo, e.Fo) {
		bad += fmt.Sprintf("fast ReadOutputs %s, specification %v; ", fstrs(fo), e.Fo)
	}
	if r.fe != e.Fe || (r.fe != "panic" && r.fok != e.Fok) {
		bad += fmt.Sprintf("fast call returned (%v, %q), specification (%v, %q); ", r.fok, r.fe, e.Fok, e.Fe)
	}
	for i, n := range x.std.BaseNodes() {
		if i >= len(e.Sst) {
			break
		}
		w := e.Sst[i]
		gao, gaotd := 0, 0
		if w[1] > 0 {
			gao = w[0]
		}
		if w[1] > 1 {
			gaotd = w[2]
		}
		if n.Activation != float64(w[0]) || int(n.ActivationsCount) != w[1] || n.GetActiveOut() != float64(gao) ||
			n.GetActiveOutTd() != float64(gaotd) {
			bad += fmt.Sprintf("node %d: Activation %s count %d GetActiveOut %s GetActiveOutTd %s, specification %d %d %d %d; ",
				n.Id, vhu.Fstr(n.Activation), n.ActivationsCount, vhu.Fstr(n.GetActiveOut()), vhu.Fstr(n.GetActiveOutTd()),
				w[0], w[1], gao, gaotd)
		}
	}
	return bad
}

// internals compares the state the API does not show
func (x *instance) internals(rp *replayer, e *obs, where string) {
	for i, n := range x.std.BaseNodes() {
		if i >= len(e.Sst) {
			break
		}
		w := e.Sst[i]
		vs := n.VerifState()
		if vs.LastActivation != float64(w[2]) {
			rp.internalDiff("lastActivation", "%s node %d: %s, specification %d", where, n.Id, vhu.Fstr(vs.LastActivation), w[2])
		}
		if vs.LastActivation2 != float64(w[3]) {
			rp.internalDiff("lastActivation2", "%s node %d: %s, specification %d", where, n.Id, vhu.Fstr(vs.LastActivation2), w[3])
		}
		if vs.IsActive != (w[4] == 1) {
			rp.internalDiff("isActive", "%s node %d: %v, specification %d", where, n.Id, vs.IsActive, w[4])
		}
	}
	for i, cn := range x.std.ControlNodes() {
		if i < len(e.Scon) && cn.VerifState().IsActive != (e.Scon[i] == 1) {
			rp.internalDiff("control isActive", "%s control node %d: %v, specification %d", where, cn.Id, cn.VerifState().IsActive, e.Scon[i])
		}
	}
	if fs, ok := x.fast.(*network.FastModularNetworkSolver); ok {
		st := fs.VerifState()
		if !equalsInts(st.Signals, e.Fsig) {
			rp.internalDiff("neuronSignals", "%s: %s, specification %v", where, fstrs(st.Signals), e.Fsig)
		}
		if !equalsInts(st.BeingProcessed, e.Fpre) {
			rp.internalDiff("neuronSignalsBeingProcessed", "%s: %s, specification %v", where, fstrs(st.BeingProcessed), e.Fpre)
		}
	}
}

// laws checks the settle law on the real outputs wherever the specification says it applies
func (x *instance) laws(o apiOp, r callResult, e *obs) string {
	bad := ""
	if o.Op == "rec" || ((o.Op == "fwd" || o.Op == "act") && o.K == 0) { // refused by design (compared as such); the settled outputs must stay
		r.se, r.fe = "", ""
	}
	if e.Sset {
		if so := x.std.ReadOutputs(); !equalsInts(so, e.Want) || r.se != "" {
			bad += fmt.Sprintf("after %d sweeps since LoadSensors Network outputs are %s (error %q), the topological value is %v; ", e.Sn, fstrs(so), r.se, e.Want)
		}
	}
	if e.Fset {
		if fo := x.fast.ReadOutputs(); !equalsInts(fo, e.Want) || r.fe != "" {
			bad += fmt.Sprintf("after %d steps since LoadSensors the fast solver's outputs are %s (error %q), the topological value is %v; ", e.Fn, fstrs(fo), r.fe, e.Want)
		}
	}
	return bad
}

// runSeq runs a call sequence on an instance, comparing after every call.  Returns the first API-level problem.
// twinOnly: the run decides property C13 (a flushed network / solver behaves like a freshly built one) on modular
// networks: histories are only executed, flushed instances are compared with fresh twins, nothing is compared with the
// values ModularAct.tla predicts (how a modular network activates is not C13's business).
var twinOnly bool

func (rp *replayer) runSeq(x *instance, s *seqCase, where string, g *group) string {
	for k, o := range s.Ops {
		r := x.apply(o)
		rp.rep.Evaluations += 2
		if twinOnly {
			continue
		}
		if k >= len(s.Log) {
			break
		}
		e := &s.Log[k]
		if bad := x.laws(o, r, e); bad != "" {
			return fmt.Sprintf("%s [%s] call %d: %s", where, opsString(s.Ops[:k+1]), k+1, bad)
		}
		if bad := x.api(r, e); bad != "" {
			return fmt.Sprintf("%s [%s] call %d: %s", where, opsString(s.Ops[:k+1]), k+1, bad)
		}
		x.internals(rp, e, where)
		rp.observeEntry(x, g, s, k, r)
	}
	return ""
}

// observations about the library on entries outside the classes of the laws
func (rp *replayer) observeEntry(x *instance, g *group, s *seqCase, k int, r callResult) {
	m := g.meta
	if m == nil {
		return
	}
	e := &s.Log[k]
	if r.fe == "panic" && e.Fe == "panic" && r.se == "arity" {
		rp.observe("a control node with two outgoing links: the standard solver returns an error (the module functions return one "+
			"value), the fast solver panics with index out of range in forwardStep (outputs[i] over OutputIndexes) after "+
			"writing the first output", g.net.size(), "net=%s after [%s]", g.raw, opsString(s.Ops[:k+1]))
	}
	if len(e.Want) == 0 {
		return
	}
	so, fo := x.std.ReadOutputs(), x.fast.ReadOutputs()
	settledS := e.Sn >= m.Need && r.se == ""
	settledF := e.Fn >= m.Need && r.fe == ""
	if m.Std && !m.Fast && m.SensorFed && m.WellOrdered && settledS && settledF && equalsInts(so, e.Want) && !equalsInts(fo, e.Want) {
		rp.observe("fast solver: a control node fed directly by a sensor reads 0 instead of the sensor value "+
			"(forwardStep reads neuronSignalsBeingProcessed of the module inputs, LoadSensors writes neuronSignals); "+
			"the standard solver gives the topological value", g.net.size(),
			"net=%s after [%s]: Network %s = definition %v, fast solver %s", g.raw, opsString(s.Ops[:k+1]), fstrs(so), e.Want, fstrs(fo))
	}
	if m.Defined && !m.WellOrdered && m.NoTd && m.Arity1 && m.AllReach && !m.SensorFed && settledS && settledF &&
		e.Sn >= m.Need+2 && e.Fn >= m.Need+2 && sameFloats(so, fo) && !equalsInts(so, e.Want) {
		rp.observe("both solvers: a control node that reads the output node of a control node LATER in the list never sees "+
			"that module's value (the output node is re-activated from its own links before the modules run), so the "+
			"network never reaches the topological value; the two solvers agree with each other", g.net.size(),
			"net=%s after [%s]: Network %s, fast solver %s, definition %v", g.raw, opsString(s.Ops[:k+1]), fstrs(so), fstrs(fo), e.Want)
	}
}

func (rp *replayer) runHist(g *group, h *seqCase, sufs []seqCase, maxPairs int, salt int) {
	for _, v := range g.net.variants() {
		x, err := newInstance(&g.net, v)
		if err != nil {
			rp.fail("build", fmt.Sprintf("cannot build (%s): %v net=%s", v.name, err, g.raw), h.raw)
			return
		}
		if x == nil {
			continue
		}
		if bad := rp.runSeq(x, h, v.name+" history", g); bad != "" {
			rp.fail("history", bad+" net="+string(g.raw), pairCase(g, h, nil))
			return
		}
		if h.Flushed == nil {
			continue
		}
		ok, err := x.std.Flush()
		fok, ferr := x.fast.Flush()
		rp.rep.Evaluations += 2
		if twinOnly {
			ok, err, fok, ferr = true, nil, true, nil
		}
		if !ok || err != nil || !fok || ferr != nil {
			rp.fail("flush", fmt.Sprintf("%s [%s]; Flush returned (%v, %v) / fast (%v, %v) net=%s", v.name, opsString(h.Ops), ok, err, fok, ferr, g.raw), pairCase(g, h, nil))
			return
		}
		fl := *h.Flushed
		fl.Sok, fl.Fok = true, true
		if bad := x.api(callResult{sok: true, fok: true}, &fl); bad != "" && !twinOnly {
			rp.fail("flush", fmt.Sprintf("%s [%s]; Flush: %s net=%s", v.name, opsString(h.Ops), bad, g.raw), pairCase(g, h, nil))
			return
		}
		if !twinOnly {
			x.internals(rp, &fl, v.name+" after Flush")
		}
		for i, c := range fl.Scon {
			if c == 1 && i < len(x.std.ControlNodes()) && x.std.ControlNodes()[i].VerifState().IsActive {
				rp.observe("Network.Flush does not visit the control nodes: their isActive flag stays raised (read by nothing "+
					"but String(); no API call can tell the difference)", g.net.size(), "net=%s after [%s]; Flush", g.raw, opsString(h.Ops))
				break
			}
		}
		// suffixes on the flushed instance, side by side with a fresh twin; the first pair continues on x itself
		n := 0
		for j := range sufs {
			s := &sufs[(j+salt)%len(sufs)]
			if !sameInts(s.Con0, fl.Scon) {
				continue
			}
			if n >= maxPairs {
				break
			}
			a := x
			if n > 0 {
				a, _ = newInstance(&g.net, v)
				for _, o := range h.Ops {
					a.apply(o)
				}
				_, _ = a.std.Flush()
				_, _ = a.fast.Flush()
			}
			n++
			t, _ := newInstance(&g.net, v)
			rp.stats["pairs"]++
			if bad := rp.runPair(a, t, s, v.name, g); bad != "" {
				rp.fail("suffix", fmt.Sprintf("%s [%s]; Flush; %s net=%s", v.name, opsString(h.Ops), bad, g.raw), pairCase(g, h, s))
				return
			}
		}
	}
}

// runPair: flushed instance a and fresh twin t through the suffix
func (rp *replayer) runPair(a, t *instance, s *seqCase, vname string, g *group) string {
	for k, o := range s.Ops {
		ra := a.apply(o)
		rt := t.apply(o)
		rp.rep.Evaluations += 4
		// flushed instance against fresh twin: everything the API shows
		if ra != rt || !sameFloats(a.std.ReadOutputs(), t.std.ReadOutputs()) || !sameFloats(a.fast.ReadOutputs(), t.fast.ReadOutputs()) {
			return fmt.Sprintf("[%s] call %d: flushed instance Network %s %v fast %s, fresh twin Network %s %v fast %s",
				opsString(s.Ops[:k+1]), k+1, fstrs(a.std.ReadOutputs()), ra, fstrs(a.fast.ReadOutputs()),
				fstrs(t.std.ReadOutputs()), rt, fstrs(t.fast.ReadOutputs()))
		}
		an, tn := a.std.BaseNodes(), t.std.BaseNodes()
		for i := range an {
			if an[i].Activation != tn[i].Activation || an[i].ActivationsCount != tn[i].ActivationsCount ||
				an[i].GetActiveOutTd() != tn[i].GetActiveOutTd() {
				return fmt.Sprintf("[%s] call %d: node %d of the flushed instance has Activation %s count %d GetActiveOutTd %s, of the fresh twin %s %d %s",
					opsString(s.Ops[:k+1]), k+1, an[i].Id, vhu.Fstr(an[i].Activation), an[i].ActivationsCount, vhu.Fstr(an[i].GetActiveOutTd()),
					vhu.Fstr(tn[i].Activation), tn[i].ActivationsCount, vhu.Fstr(tn[i].GetActiveOutTd()))
			}
		}
		if k >= len(s.Log) || twinOnly {
			continue
		}
		e := &s.Log[k]
		if bad := a.laws(o, ra, e); bad != "" {
			return fmt.Sprintf("[%s] call %d: %s", opsString(s.Ops[:k+1]), k+1, bad)
		}
		if bad := a.api(ra, e); bad != "" {
			return fmt.Sprintf("[%s] call %d: %s", opsString(s.Ops[:k+1]), k+1, bad)
		}
		a.internals(rp, e, vname+" suffix")
	}
	return ""
}

func sameInts(a, b []int) bool {
	if len(a) != len(b) {
		return false
	}
	for i := range a {
		if a[i] != b[i] {
			return false
		}
	}
	return true
}

func pairCase(g *group, h, s *seqCase) interface{} {
	c := map[string]interface{}{"kind": "pair", "net": g.raw, "hist": h}
	if s != nil {
		c["suffix"] = s
	}
	if g.meta != nil {
		c["meta"] = g.meta
		c["wants"] = g.wants
	}
	return c
}

// runNet checks the static facts of the "net" line
func (rp *replayer) runNet(g *group) {
	m := g.meta
	for _, v := range g.net.variants() {
		if v.withBias {
			continue
		}
		x, err := newInstance(&g.net, v)
		if err != nil {
			rp.fail("build", fmt.Sprintf("cannot build (%s): %v net=%s", v.name, err, g.raw), g.metaCase())
			return
		}
		if x == nil {
			continue
		}
		bad := ""
		rp.rep.Evaluations += 8
		if got := x.std.NodeCount(); got != m.Ncs {
			bad += fmt.Sprintf("Network.NodeCount %d, specification %d; ", got, m.Ncs)
		}
		if got := x.fast.NodeCount(); got != m.Ncf {
			bad += fmt.Sprintf("fast NodeCount %d, specification %d; ", got, m.Ncf)
		}
		if got := x.std.LinkCount(); got != m.Lcs {
			bad += fmt.Sprintf("Network.LinkCount %d, specification %d; ", got, m.Lcs)
		}
		if got := x.fast.LinkCount(); got != m.Lcf {
			bad += fmt.Sprintf("fast LinkCount %d, specification %d; ", got, m.Lcf)
		}
		if got := x.std.Complexity(); got != m.Ncs+m.Lcs {
			bad += fmt.Sprintf("Network.Complexity %d, specification %d; ", got, m.Ncs+m.Lcs)
		}
		if !m.PlainBias && m.Lcs != m.Lcf {
			rp.observe("LinkCount of the fast solver counts one link per neuron with a non-zero folded bias, so it differs "+
				"from Network.LinkCount when a neuron has several bias links or they cancel", g.net.size(),
				"net=%s Network.LinkCount %d fast %d", g.raw, m.Lcs, m.Lcf)
		}
		if len(x.std.ControlNodes()) != len(g.net.Ctrl) || len(x.std.AllNodes()) != len(g.net.Nodes)+len(g.net.Ctrl) ||
			len(x.std.BaseNodes()) != len(g.net.Nodes) {
			bad += fmt.Sprintf("ControlNodes / AllNodes / BaseNodes have %d / %d / %d entries for %d control and %d ordinary nodes; ",
				len(x.std.ControlNodes()), len(x.std.AllNodes()), len(x.std.BaseNodes()), len(g.net.Ctrl), len(g.net.Nodes))
		}
		for i := range g.net.Ctrl {
			if !x.std.IsControlNode(ctrlId(i)) {
				bad += fmt.Sprintf("IsControlNode(%d) is false; ", ctrlId(i))
			}
		}
		for _, n := range g.net.Nodes {
			if x.std.IsControlNode(n.Id) {
				bad += fmt.Sprintf("IsControlNode(%d) is true for an ordinary node; ", n.Id)
			}
		}
		if _, err := x.std.MaxActivationDepthWithCap(0); err == nil {
			bad += "MaxActivationDepthWithCap(0) succeeded on a modular network (documented: unsupported for modular networks); "
		}
		if ok, err := x.std.Relax(1, intDelta); ok || stdErrClass(err) != m.RelaxErr {
			bad += fmt.Sprintf("Network.Relax returned (%v, %v), specification (false, %q); ", ok, err, m.RelaxErr)
		}
		depth := -1
		if m.Acyclic {
			var derr error
			if p := vhu.Guard(func() { depth, derr = x.std.MaxActivationDepth() }); p != "" || derr != nil {
				bad += fmt.Sprintf("MaxActivationDepth failed: %v %s; ", derr, p)
			} else if depth != m.Depth {
				bad += fmt.Sprintf("MaxActivationDepth %d, specification (largest edge count among the minimum-weight input-output paths) %d; ", depth, m.Depth)
			}
			// the depth query must leave the activation state alone
			rp.stats["depth_queries"]++
		}
		if bad != "" {
			rp.fail("net", fmt.Sprintf("%s: %s net=%s", v.name, bad, g.raw), g.metaCase())
			return
		}
		// ForwardSteps(Need) reaches the definition on a fresh instance; what ForwardSteps(MaxActivationDepth()) gives
		short := false
		for _, w := range g.wants {
			if len(w.Want) == 0 {
				continue
			}
			for _, steps := range []int{m.Need, depth} {
				if steps < 0 || (steps == depth && depth >= m.Need) {
					continue
				}
				y, _ := newInstance(&g.net, v)
				r := y.apply(apiOp{Op: "load", V: w.V})
				if steps > 0 {
					r = y.apply(apiOp{Op: "fwd", K: steps})
				}
				rp.rep.Evaluations += 4
				so, fo := y.std.ReadOutputs(), y.fast.ReadOutputs()
				if steps == m.Need {
					if m.Std && (!equalsInts(so, w.Want) || r.se != "") {
						rp.fail("need", fmt.Sprintf("%s: load%v; Network.ForwardSteps(%d) gives %s (error %q), the topological value is %v net=%s",
							v.name, w.V, steps, fstrs(so), r.se, w.Want, g.raw), g.metaCase())
						return
					}
					if m.Fast && (!equalsInts(fo, w.Want) || r.fe != "") {
						rp.fail("need", fmt.Sprintf("%s: load%v; fast ForwardSteps(%d) gives %s (error %q), the topological value is %v net=%s",
							v.name, w.V, steps, fstrs(fo), r.fe, w.Want, g.raw), g.metaCase())
						return
					}
				} else if m.Std && m.Fast && (!equalsInts(so, w.Want) || !equalsInts(fo, w.Want)) && !short {
					short = true
					rp.observe("MaxActivationDepth() of a modular network is the edge count of a MINIMUM-WEIGHT input-output path "+
						"(JohnsonAllPaths / AllBetween with the link weights as costs), not of the longest one: "+
						"ForwardSteps(MaxActivationDepth()) can stop before the outputs have the feed-forward value", g.net.size(),
						"net=%s MaxActivationDepth()=%d, longest path %d edges, settles after %d steps; load%v; ForwardSteps(%d): Network %s (error %q) fast %s, definition %v",
						g.raw, depth, m.Longest, m.Need, w.V, steps, fstrs(so), r.se, fstrs(fo), w.Want)
				}
			}
		}
	}
}

func (g *group) metaCase() interface{} {
	return map[string]interface{}{"kind": "net", "net": g.raw, "meta": g.meta, "wants": g.wants}
}

type lineRef struct {
	off int64
	n   int
}

// indexLines calls fn for every non-empty line with its position in the file
func indexLines(path string, fn func(line []byte, ref lineRef) error) error {
	f, err := os.Open(path)
	if err != nil {
		return err
	}
	defer f.Close()
	rd := bufio.NewReaderSize(f, 1<<20)
	var off int64
	for {
		line, err := rd.ReadBytes('\n')
		if len(line) > 1 {
			if e := fn(line, lineRef{off, len(line)}); e != nil {
				return e
			}
		}
		off += int64(len(line))
		if err == io.EOF {
			return nil
		}
		if err != nil {
			return err
		}
	}
}

// loadGroup parses the lines of one network
func loadGroup(f *os.File, key string, refs []lineRef) (*group, error) {
	g := &group{raw: json.RawMessage(key)}
	if err := json.Unmarshal(g.raw, &g.net); err != nil {
		return nil, err
	}
	for _, r := range refs {
		line := make([]byte, r.n)
		if _, err := f.ReadAt(line, r.off); err != nil {
			return nil, err
		}
		var l caseLine
		if err := json.Unmarshal(line, &l); err != nil {
			return nil, err
		}
		if l.Meta != nil && g.meta == nil {
			g.meta = l.Meta
			g.wants = l.Wants
		}
		switch l.Kind {
		case "hist":
			l.seqCase.raw = line
			g.hists = append(g.hists, l.seqCase)
		case "suffix":
			l.seqCase.raw = line
			g.sufs = append(g.sufs, l.seqCase)
		case "pair":
			p := [2]seqCase{}
			if l.Hist != nil {
				p[0] = *l.Hist
			}
			if l.Suffix != nil {
				p[1] = *l.Suffix
			}
			g.pairs = append(g.pairs, p)
		}
	}
	return g, nil
}

func replayModular(args []string) int {
	fs := flag.NewFlagSet("replay-modular", flag.ExitOnError)
	cases := fs.String("cases", "", "NDJSON net / hist / suffix lines printed by MC_ModularAct")
	out := fs.String("out", "", "report file")
	maxPairs := fs.Int("maxpairs", 6, "suffixes run after each history (rotating through the network's suffixes)")
	fs.BoolVar(&twinOnly, "twin-only", false, "C13 on modular networks: only compare flushed instances with fresh twins (no conformance with ModularAct.tla)")
	_ = fs.Parse(args)
	rp := &replayer{rep: &vhu.Report{Command: "replay-modular"}, internal: map[string]int{}, obsv: map[string]*observation{},
		seen: map[uint64]bool{}, stats: map[string]int{}, classes: map[string]int{}}
	// pass 1: index the lines by network (the case files of the thorough tier are too large to keep parsed in memory)
	refs := map[string][]lineRef{}
	var order []string
	err := indexLines(*cases, func(line []byte, ref lineRef) error {
		var l struct {
			Net json.RawMessage `json:"net"`
		}
		if err := json.Unmarshal(line, &l); err != nil {
			return err
		}
		key := string(l.Net)
		if _, ok := refs[key]; !ok {
			order = append(order, key)
		}
		refs[key] = append(refs[key], ref)
		return nil
	})
	if err != nil {
		fmt.Println("vh_x07 replay-modular:", err)
		return 2
	}
	sort.Strings(order)
	// the networks are independent: shard them over a few workers, each with its own report, and merge
	nw := runtime.NumCPU()
	if nw > 8 {
		nw = 8
	}
	if nw < 1 {
		nw = 1
	}
	parts := make([]*replayer, nw)
	var wg sync.WaitGroup
	for w := 0; w < nw; w++ {
		parts[w] = &replayer{rep: &vhu.Report{Command: "replay-modular"}, internal: map[string]int{}, obsv: map[string]*observation{},
			seen: map[uint64]bool{}, stats: map[string]int{}, classes: map[string]int{}}
		wg.Add(1)
		go func(w int) {
			defer wg.Done()
			f, err := os.Open(*cases)
			if err != nil {
				parts[w].fail("io", err.Error(), nil)
				return
			}
			defer f.Close()
			for gi := w; gi < len(order); gi += nw {
				g, err := loadGroup(f, order[gi], refs[order[gi]])
				if err != nil {
					parts[w].fail("io", err.Error(), nil)
					return
				}
				parts[w].runGroup(g, gi, *maxPairs)
			}
		}(w)
	}
	wg.Wait()
	classes := rp.classes
	for _, p := range parts {
		rp.rep.Cases += p.rep.Cases
		rp.rep.Evaluations += p.rep.Evaluations
		rp.rep.Nontrivial += p.rep.Nontrivial
		for _, f := range p.rep.Failures {
			rp.rep.Fail(f)
		}
		if n, ok := p.rep.Extra["failures_dropped"].(int); ok {
			rp.stats["failures_dropped"] += n
		}
		for _, x := range p.rep.Samples {
			rp.rep.Sample(x)
		}
		for k, v := range p.internal {
			rp.internal[k] += v
		}
		for _, e := range p.intEx {
			if len(rp.intEx) < 6 {
				rp.intEx = append(rp.intEx, e)
			}
		}
		for k, v := range p.stats {
			rp.stats[k] += v
		}
		for k, v := range p.classes {
			classes[k] += v
		}
		for k, o := range p.obsv {
			t := rp.obsv[k]
			if t == nil {
				t = &observation{size: 1 << 30}
				rp.obsv[k] = t
			}
			t.count += o.count
			if o.size < t.size {
				t.size, t.example = o.size, o.example
			}
		}
	}
	var obsList []map[string]interface{}
	var keys []string
	for k := range rp.obsv {
		keys = append(keys, k)
	}
	sort.Strings(keys)
	for _, k := range keys {
		obsList = append(obsList, map[string]interface{}{"observation": k, "occurrences": rp.obsv[k].count, "smallest_example": rp.obsv[k].example})
	}
	rp.rep.Extra = map[string]interface{}{"networks": len(order), "classes": classes, "history_suffix_pairs": rp.stats["pairs"],
		"depth_queries": rp.stats["depth_queries"], "internal_state_differences": rp.internal, "internal_examples": rp.intEx,
		"observations": obsList}
	code := rp.rep.Write(*out)
	return code
}

// runGroup replays everything recorded for one network
func (rp *replayer) runGroup(g *group, gi int, maxPairs int) {
	rp.rep.Cases += 1 + len(g.hists) + len(g.sufs) + len(g.pairs)
	if p := vhu.Guard(func() {
		if g.meta != nil {
			switch {
			case g.meta.Std && g.meta.Fast:
				rp.classes["law speaks about both solvers"]++
			case g.meta.Std:
				rp.classes["law speaks about the standard solver only"]++
			case g.meta.Fast:
				rp.classes["law speaks about the fast solver only"]++
			default:
				rp.classes["outside the classes of the settle law (conformance and flush only)"]++
			}
			if !twinOnly {
				rp.runNet(g)
			}
		}
		for i := range g.hists {
			h := &g.hists[i]
			rp.runHist(g, h, g.sufs, maxPairs, gi+i)
			rp.countNontrivial(g, h)
			if len(h.Log) > 0 && i%97 == 0 {
				rp.rep.Sample(map[string]interface{}{"net": g.raw, "ops": opsString(h.Ops), "last": h.Log[len(h.Log)-1]})
			}
		}
		// every suffix is also a history of a fresh instance
		for i := range g.sufs {
			s := g.sufs[i]
			s.Flushed = nil
			// the recorded internal state is that of the flushed instance: only compare when the control flags were down
			fresh := true
			for _, c := range s.Con0 {
				fresh = fresh && c == 0
			}
			if fresh {
				rp.runHist(g, &s, nil, 0, 0)
			}
			rp.countNontrivial(g, &s)
		}
		for _, p := range g.pairs {
			h, s := p[0], p[1]
			if len(s.Ops) > 0 {
				rp.runHist(g, &h, []seqCase{s}, 1, 0)
			} else {
				rp.runHist(g, &h, nil, 0, 0)
			}
		}
	}); p != "" {
		rp.fail("panic", fmt.Sprintf("panic: %s net=%s", p, g.raw), g.metaCase())
	}
}

// non-trivial: a distinct call sequence on which the settle law actually bites for a network whose modules add to
// the depth (Need >= 2): some call is the first after which the law applies
func (rp *replayer) countNontrivial(g *group, s *seqCase) {
	if g.meta == nil || g.meta.Need < 2 {
		return
	}
	hit := false
	for _, e := range s.Log {
		if e.Sset || e.Fset {
			hit = true
		}
	}
	if !hit {
		return
	}
	h := fnv.New64a()
	_, _ = h.Write(s.raw)
	if k := h.Sum64(); !rp.seen[k] {
		rp.seen[k] = true
		rp.rep.Nontrivial++
	}
}

package main

import (
	"errors"
	"fmt"
	"strings"

	"github.com/yaricom/goNEAT/v4/neat"
	"github.com/yaricom/goNEAT/v4/neat/genetics"
	neatmath "github.com/yaricom/goNEAT/v4/neat/math"
	"github.com/yaricom/goNEAT/v4/neat/network"

	"verifharness/vhu"
)

// modNet is the JSON view of a network record of ModularAct.tla (MNetJson).
type modNet struct {
	Nodes []struct {
		Id   int    `json:"id"`
		Kind string `json:"kind"` // I, B, H, O
		Act  string `json:"act"`
	} `json:"nodes"` // Network.allNodes order (control nodes are not part of it)
	Inputs  []int `json:"inputs"`  // Network.inputs (sensors incl. bias)
	Outputs []int `json:"outputs"` // Network.Outputs
	Links   []struct {
		Src int  `json:"src"`
		Dst int  `json:"dst"`
		W   int  `json:"w"`
		Td  bool `json:"td"`
	} `json:"links"` // grouped by target, in the order of NNode.Incoming
	Ctrl []struct {
		Act  string `json:"act"` // mul, max, min
		Ins  []int  `json:"ins"`
		Outs []int  `json:"outs"`
	} `json:"ctrl"` // Network.controlNodes in order; control node i (1-based) has id 100+i and links of weight 1
}

// netMeta are the static facts ModularAct.tla derives for a network (MC_ModularAct!MetaOf).
type netMeta struct {
	Std         bool   `json:"std"`  // in StdClass: the settle law speaks about the standard solver
	Fast        bool   `json:"fast"` // in FastClass
	Defined     bool   `json:"defined"`
	WellOrdered bool   `json:"wellordered"`
	SensorFed   bool   `json:"sensorfed"`
	NoTd        bool   `json:"notd"`
	Arity1      bool   `json:"arity1"`
	AllReach    bool   `json:"allreach"`
	Need        int    `json:"need"`
	Acyclic     bool   `json:"acyclic"`
	Depth       int    `json:"depth"` // Network.MaxActivationDepth() as transcribed (-1: cyclic graph, not specified)
	DepthDef    int    `json:"depthdef"`
	Longest     int    `json:"longest"`
	Ncs         int    `json:"ncs"`
	Ncf         int    `json:"ncf"`
	Lcs         int    `json:"lcs"`
	Lcf         int    `json:"lcf"`
	PlainBias   bool   `json:"plainbias"`
	RelaxErr    string `json:"relaxerr"`
}

var intActs = map[string]neatmath.NodeActivationType{
	"linear": neatmath.LinearActivation,
	"abs":    neatmath.LinearAbsActivation,
	"clip":   neatmath.LinearClippedActivation,
	"null":   neatmath.NullActivation,
	"sign":   neatmath.SignActivation,
	"step":   neatmath.StepActivation,
}

var moduleActs = map[string]neatmath.NodeActivationType{
	"mul": neatmath.MultiplyModuleActivation,
	"max": neatmath.MaxModuleActivation,
	"min": neatmath.MinModuleActivation,
}

func neuronType(kind string) network.NodeNeuronType {
	switch kind {
	case "I":
		return network.InputNeuron
	case "B":
		return network.BiasNeuron
	case "O":
		return network.OutputNeuron
	}
	return network.HiddenNeuron
}

func ctrlId(i int) int { return 101 + i } // CtrlId of the specification (1-based there)

func (c *modNet) hasTd() bool {
	for _, l := range c.Links {
		if l.Td {
			return true
		}
	}
	return false
}

func (c *modNet) hasBias() bool {
	for _, n := range c.Nodes {
		if n.Kind == "B" {
			return true
		}
	}
	return false
}

func (c *modNet) size() int {
	n := len(c.Nodes) + len(c.Links)
	for _, m := range c.Ctrl {
		n += 1 + len(m.Ins) + len(m.Outs)
	}
	return n
}

func (c *modNet) newNodes() (map[int]*network.NNode, []*network.NNode, map[int]int) {
	nodes := map[int]*network.NNode{}
	pos := map[int]int{}
	var all []*network.NNode
	for i, n := range c.Nodes {
		nn := network.NewNNode(n.Id, neuronType(n.Kind))
		if n.Kind == "I" || n.Kind == "B" {
			nn.ActivationType = neatmath.NullActivation // as NewSensorNode does
		} else {
			nn.ActivationType = intActs[n.Act]
		}
		nodes[n.Id] = nn
		pos[n.Id] = i
		all = append(all, nn)
	}
	return nodes, all, pos
}

func (c *modNet) controlNodes(nodes map[int]*network.NNode) []*network.NNode {
	var ctrls []*network.NNode
	for i, m := range c.Ctrl {
		cn := network.NewNNode(ctrlId(i), network.HiddenNeuron)
		cn.ActivationType = moduleActs[m.Act]
		for _, id := range m.Ins {
			cn.AddIncoming(nodes[id], 1.0)
		}
		for _, id := range m.Outs {
			cn.AddOutgoing(nodes[id], 1.0)
		}
		ctrls = append(ctrls, cn)
	}
	return ctrls
}

// direct builds the network through the network API: NewNNode, ConnectFrom, AddIncoming / AddOutgoing on the control
// nodes, NewModularNetwork.
func (c *modNet) direct() (*network.Network, error) {
	nodes, all, pos := c.newNodes()
	var ins, outs []*network.NNode
	for _, id := range c.Inputs {
		ins = append(ins, nodes[id])
	}
	for _, id := range c.Outputs {
		outs = append(outs, nodes[id])
	}
	for _, l := range c.Links {
		lk := nodes[l.Dst].ConnectFrom(nodes[l.Src], float64(l.W))
		lk.IsTimeDelayed = l.Td
		lk.IsRecurrent = pos[l.Src] >= pos[l.Dst]
	}
	return network.NewModularNetwork(ins, outs, all, c.controlNodes(nodes), 1), nil
}

// viaGenome expresses the same network from a modular genome (nodes in allNodes order, one enabled gene per link, one
// enabled MIMO control gene per control node) with Genesis.  A genome cannot say "time delayed" and Genesis refuses a
// genome without genes: (nil, nil) then.
func (c *modNet) viaGenome() (*network.Network, error) {
	if c.hasTd() || len(c.Links) == 0 {
		return nil, nil
	}
	tr := neat.NewTrait()
	tr.Id = 1
	nodes, all, pos := c.newNodes()
	var genes []*genetics.Gene
	for i, l := range c.Links {
		genes = append(genes, genetics.NewGene(float64(l.W), nodes[l.Src], nodes[l.Dst], pos[l.Src] >= pos[l.Dst], int64(i+1), 0))
	}
	var mimo []*genetics.MIMOControlGene
	for i, cn := range c.controlNodes(nodes) {
		mimo = append(mimo, genetics.NewMIMOGene(cn, int64(len(c.Links)+i+1), 0, true))
	}
	g := genetics.NewModularGenome(1, []*neat.Trait{tr}, all, genes, mimo)
	net, err := g.Genesis(1)
	if err != nil {
		return nil, err
	}
	if len(net.Outputs) != len(c.Outputs) || len(net.ControlNodes()) != len(c.Ctrl) {
		return nil, fmt.Errorf("Genesis produced %d outputs / %d control nodes for %d / %d", len(net.Outputs),
			len(net.ControlNodes()), len(c.Outputs), len(c.Ctrl))
	}
	return net, nil
}

// sensorVector is the argument of Network.LoadSensors for the "I" inputs v; withBias also passes the bias value(s) 1.0
// explicitly (the len(sensors) == len(inputs) branch).
func (c *modNet) sensorVector(v []float64, withBias bool) []float64 {
	if !withBias {
		return v
	}
	kind := map[int]string{}
	for _, n := range c.Nodes {
		kind[n.Id] = n.Kind
	}
	var out []float64
	k := 0
	for _, id := range c.Inputs {
		if kind[id] == "I" {
			out = append(out, v[k])
			k++
		} else {
			out = append(out, 1.0)
		}
	}
	return out
}

type variant struct {
	name     string
	build    func() (*network.Network, error)
	withBias bool
}

func (c *modNet) variants() []variant {
	vs := []variant{{"direct", c.direct, false}, {"genome", c.viaGenome, false}}
	if c.hasBias() {
		vs = append(vs, variant{"direct+bias-passed", c.direct, true})
	}
	return vs
}

// instance: a standard network and the fast solver made from an identically built network.
type instance struct {
	c        *modNet
	std      *network.Network
	fast     network.Solver
	withBias bool
}

func newInstance(c *modNet, v variant) (*instance, error) {
	a, err := v.build()
	if err != nil || a == nil {
		return nil, err
	}
	b, err := v.build()
	if err != nil {
		return nil, err
	}
	fs, err := b.FastNetworkSolver()
	if err != nil {
		return nil, fmt.Errorf("FastNetworkSolver: %v", err)
	}
	return &instance{c: c, std: a, fast: fs, withBias: v.withBias}, nil
}

type apiOp struct {
	Op string `json:"op"` // load, fwd, act, act0, rec
	K  int    `json:"k"`
	V  []int  `json:"v"`
}

func (o apiOp) String() string {
	if o.Op == "load" {
		return fmt.Sprintf("load%v", o.V)
	}
	if o.Op == "rec" {
		return "rec"
	}
	return fmt.Sprintf("%s(%d)", o.Op, o.K)
}

func opsString(ops []apiOp) string {
	var s []string
	for _, o := range ops {
		s = append(s, o.String())
	}
	return strings.Join(s, "; ")
}

// relaxation threshold: every change in the integer rounds is at least one
const intDelta = 0.5

// result of one API call on an instance
type callResult struct {
	sok bool
	se  string
	fok bool
	fe  string
}

func stdErrClass(err error) string {
	switch {
	case err == nil:
		return ""
	case errors.Is(err, network.ErrZeroActivationStepsRequested):
		return "zero"
	case errors.Is(err, network.ErrNetExceededMaxActivationAttempts):
		return "exceeded"
	case strings.Contains(err.Error(), "number of output parameters"):
		return "arity"
	case strings.Contains(err.Error(), "unsupported for modular"):
		return "modular"
	case strings.Contains(err.Error(), "not implemented"):
		return "notimpl"
	}
	return "other: " + err.Error()
}

func fastErrClass(err error) string {
	switch {
	case err == nil:
		return ""
	case strings.Contains(err.Error(), "recursive activation can not be used"):
		return "modular"
	}
	return "other: " + err.Error()
}

func floats(v []int) []float64 {
	out := make([]float64, len(v))
	for i, x := range v {
		out[i] = float64(x)
	}
	return out
}

func (x *instance) apply(o apiOp) callResult {
	var r callResult
	var serr, ferr error
	switch o.Op {
	case "load":
		v := floats(o.V)
		serr = x.std.LoadSensors(x.c.sensorVector(v, x.withBias))
		r.sok = serr == nil
		ferr = x.fast.LoadSensors(v)
		r.fok = ferr == nil
	default:
		switch o.Op {
		case "fwd":
			r.sok, serr = x.std.ForwardSteps(o.K)
		case "act":
			r.sok, serr = x.std.ActivateSteps(o.K)
		case "act0":
			r.sok, serr = x.std.Activate()
		case "rec":
			r.sok, serr = x.std.RecursiveSteps()
		}
		if p := vhu.Guard(func() {
			switch o.Op {
			case "fwd":
				r.fok, ferr = x.fast.ForwardSteps(o.K)
			case "act":
				r.fok, ferr = x.fast.Relax(o.K, intDelta)
			case "act0":
				r.fok, ferr = x.fast.Relax(o.K, 0)
			case "rec":
				r.fok, ferr = x.fast.RecursiveSteps()
			}
		}); p != "" {
			r.fok = false
			r.fe = "panic"
		}
	}
	r.se = stdErrClass(serr)
	if r.fe == "" {
		r.fe = fastErrClass(ferr)
	}
	return r
}

func equalsInts(a []float64, want []int) bool {
	if len(a) != len(want) {
		return false
	}
	for i := range a {
		if a[i] != float64(want[i]) {
			return false
		}
	}
	return true
}

func sameFloats(a, b []float64) bool {
	if len(a) != len(b) {
		return false
	}
	for i := range a {
		if a[i] != b[i] {
			return false
		}
	}
	return true
}

func fstrs(a []float64) string {
	s := "["
	for i, x := range a {
		if i > 0 {
			s += " "
		}
		s += vhu.Fstr(x)
	}
	return s + "]"
}

package main

import (
	"bytes"
	"context"
	"crypto/sha1"
	"encoding/json"
	"flag"
	"fmt"
	"math"
	"math/rand"
	"os"
	"sort"

	"verifharness/vhu"

	"github.com/yaricom/goNEAT/v4/neat"
	"github.com/yaricom/goNEAT/v4/neat/genetics"
	neatmath "github.com/yaricom/goNEAT/v4/neat/math"
)

// The recorder of growth suite X10.  A population is constructed and turned over by the real sequential executor
// through its public entry point NextEpoch; the `x10.*` hook sites inside Species.reproduce (and inside
// Genome.mutateAllNonstructural) call the installed genetics.VerifTracer, which writes one NDJSON event per hook event
// with the projected abstract state.  The recorder never calls anything that draws from the random stream or that
// changes library state; everything it reads is read at the moment of the hook.
//
//   init     scenario, probability classes of the options (0 = never, 1 = always, 2 = sometimes)
//   epoch    (at the first hook event of an epoch) the prepared species table: ids, quotas, pools (member oids in order),
//            super-champion counters, the sorted species list, every organism of the old generation with species id,
//            elimination mark, order ranks of adjusted and original fitness and its projected genome
//   enter    Species.reproduce entered (species id, quota)
//   branch   the branch taken for offspring `idx`: kind, parents, how the dad was found, crossover method, the genome
//            as built by duplicate / crossover BEFORE any mutation
//   postmut  the post-mating mutation block was entered
//   mut      one mutator returned: operator, result, the genome after it
//   baby     the completed baby organism and the counters after it
//   exit     Species.reproduce returns n babies
//   after    NextEpoch returned: the organisms of the new generation

func init() { commands["record"] = record }

type scenario struct {
	Seed     int64              `json:"seed"`
	PopSize  int                `json:"popsize"`
	Start    string             `json:"start"`   // xor | rich | notrait | outfirst | random | read
	Fitness  int                `json:"fitness"` // family
	Epochs   int                `json:"epochs"`
	Preset   int                `json:"preset"`
	Aged     bool               `json:"aged,omitempty"` // species of the constructed population start at age 7 (old enough to be robbed)
	Override map[string]float64 `json:"override,omitempty"`
}

// NPresets is the number of option presets (kept in step with bin/pipe_grow_x10.py).
const NPresets = 10

func preset(k, popSize int) *neat.Options {
	o := vhu.BaseOptions(popSize)
	o.NodeActivators = []neatmath.NodeActivationType{neatmath.SigmoidSteepenedActivation, neatmath.TanhActivation}
	o.NodeActivatorsProb = []float64{0.5, 0.5}
	o.MutateAddNodeProb, o.MutateAddLinkProb = 0.15, 0.3
	o.MutateToggleEnableProb, o.MutateGeneReenableProb = 0.1, 0.05
	o.RecurOnlyProb = 0.2
	o.NewLinkTries = 20
	o.InterspeciesMateRate = 0.05
	o.CompatThreshold, o.SurvivalThresh, o.DropOffAge, o.BabiesStolen = 1.0, 0.4, 15, 0
	switch k % NPresets {
	case 0: // many species, everything "sometimes"
		o.CompatThreshold = 0.6
		o.InterspeciesMateRate = 0.2
	case 1: // stolen babies: super champions
		o.CompatThreshold, o.SurvivalThresh, o.BabiesStolen = 1.0, 0.5, popSize/3
		o.InterspeciesMateRate = 0.15
	case 2: // pure mating: never mutate-only, never mutate after mating unless the parents are the same / compatible at 0
		o.MutateOnlyProb, o.MateOnlyProb, o.InterspeciesMateRate = 0.0, 1.0, 0.3
		o.CompatThreshold, o.SurvivalThresh = 1.5, 0.6
	case 3: // mutation only
		o.MutateOnlyProb = 1.0
		o.MutateAddNodeProb, o.MutateAddLinkProb, o.MutateConnectSensors = 0.1, 0.2, 0.6
	case 4: // always mate, always across species, always mutate the child
		o.MutateOnlyProb, o.MateOnlyProb, o.InterspeciesMateRate = 0.0, 0.0, 1.0
		o.CompatThreshold, o.SurvivalThresh = 0.8, 0.5
	case 5: // quick stagnation: delta coding (the whole population becomes super-champion offspring), link adding disabled
		o.CompatThreshold, o.SurvivalThresh, o.DropOffAge = 1.5, 0.3, 1
		o.MutateAddLinkProb, o.InterspeciesMateRate = 0.0, 0.0
	case 6: // one big species, everybody survives: champion clone, matings of an organism with itself
		o.CompatThreshold, o.SurvivalThresh, o.DropOffAge = 30.0, 1.0, 5
		o.MutateOnlyProb, o.MateOnlyProb = 0.1, 0.7
		o.MateMultipointProb, o.MateMultipointAvgProb, o.MateSinglepointProb = 0.0, 0.5, 0.5
	case 7: // heavy stealing, structural mutation certain, only multipoint crossover
		o.CompatThreshold, o.SurvivalThresh, o.DropOffAge, o.BabiesStolen = 0.8, 0.3, 4, popSize/2
		o.MutateAddNodeProb = 1.0
		o.MateMultipointProb = 1.0
		o.InterspeciesMateRate = 0.3
	case 8: // no structural mutation at all, every parametric mutator certain, only single point crossover
		o.MutateAddNodeProb, o.MutateAddLinkProb, o.MutateConnectSensors = 0.0, 0.0, 0.0
		o.MutateRandomTraitProb, o.MutateLinkTraitProb, o.MutateNodeTraitProb = 1.0, 1.0, 1.0
		o.MutateLinkWeightsProb, o.MutateToggleEnableProb, o.MutateGeneReenableProb = 1.0, 1.0, 1.0
		o.MateMultipointProb, o.MateMultipointAvgProb, o.MateSinglepointProb = 0.0, 0.0, 1.0
		o.MutateOnlyProb, o.MateOnlyProb = 0.4, 0.5
		o.CompatThreshold = 2.0
	case 9: // stealing in a mating-heavy population, add-link certain after add-node fails the coin, connect-sensors certain
		o.CompatThreshold, o.SurvivalThresh, o.DropOffAge, o.BabiesStolen = 1.2, 0.5, 10, 5
		o.MutateOnlyProb, o.MateOnlyProb, o.InterspeciesMateRate = 0.05, 0.5, 0.4
		o.MutateAddNodeProb, o.MutateAddLinkProb, o.MutateConnectSensors = 0.0, 0.5, 1.0
		o.MateMultipointProb, o.MateMultipointAvgProb, o.MateSinglepointProb = 0.0, 1.0, 0.0
	}
	if o.BabiesStolen > popSize/2 {
		o.BabiesStolen = popSize / 2
	}
	return o
}

func (sc scenario) options() *neat.Options {
	o := preset(sc.Preset, sc.PopSize)
	for k, v := range sc.Override {
		switch k {
		case "thr":
			o.CompatThreshold = v
		case "stolen":
			o.BabiesStolen = int(v)
		case "addnode":
			o.MutateAddNodeProb = v
		case "addlink":
			o.MutateAddLinkProb = v
		case "mutateonly":
			o.MutateOnlyProb = v
		case "mateonly":
			o.MateOnlyProb = v
		case "inter":
			o.InterspeciesMateRate = v
		case "dropoff":
			o.DropOffAge = int(v)
		case "survival":
			o.SurvivalThresh = v
		}
	}
	return o
}

// cls is the probability class the specification reasons with: 0 = the coin `rand.Float64() < p` never comes up,
// 1 = always, 2 = sometimes.
func cls(p float64) int {
	switch {
	case math.IsNaN(p) || p <= 0:
		return 0
	case p >= 1:
		return 1
	}
	return 2
}

func optClasses(o *neat.Options) map[string]interface{} {
	return map[string]interface{}{
		"mutateOnly": cls(o.MutateOnlyProb), "mateOnly": cls(o.MateOnlyProb), "inter": cls(o.InterspeciesMateRate),
		"addNode": cls(o.MutateAddNodeProb), "addLink": cls(o.MutateAddLinkProb), "connect": cls(o.MutateConnectSensors),
		"rndTrait": cls(o.MutateRandomTraitProb), "linkTrait": cls(o.MutateLinkTraitProb), "nodeTrait": cls(o.MutateNodeTraitProb),
		"linkWeights": cls(o.MutateLinkWeightsProb), "toggle": cls(o.MutateToggleEnableProb), "reenable": cls(o.MutateGeneReenableProb),
		"multipoint": cls(o.MateMultipointProb), "avgShare": cls(o.MateMultipointAvgProb / (o.MateMultipointAvgProb + o.MateSinglepointProb)),
		"coeffPositive": o.DisjointCoeff > 0 && o.ExcessCoeff > 0 && o.MutdiffCoeff > 0,
		"popsize":       o.PopSize, "stolen": o.BabiesStolen,
	}
}

func assignFitness(pop *genetics.Population, family int, frng *rand.Rand, gen int) {
	n := len(pop.Organisms)
	dom := frng.Intn(n)
	for i, o := range pop.Organisms {
		switch family {
		case 0:
			o.Fitness = 0
		case 1:
			o.Fitness = 1.5
		case 2:
			o.Fitness = float64(i + 1)
		case 3:
			o.Fitness = math.Exp(frng.NormFloat64() * 3)
		case 4:
			o.Fitness = 0.001 * float64(i+1)
			if i == dom {
				o.Fitness = 1000
			}
		case 5: // stagnating: the record never improves after the first epoch
			o.Fitness = 1.0 + 0.001*float64(i)
		case 6:
			o.Fitness = 0.1 + 10*frng.Float64()
		default:
			en := 0
			for _, g := range o.Genotype.Genes {
				if g.IsEnabled {
					en++
				}
			}
			o.Fitness = float64(en) + 0.1*float64(len(o.Genotype.Nodes)) + 0.001*float64(i+1) + 0.0001*float64(gen)
		}
	}
}

func construct(sc scenario, opts *neat.Options) (*genetics.Population, string, error) {
	switch sc.Start {
	case "xor":
		p, err := genetics.NewPopulation(vhu.ReadGenomeString(vhu.XorStartGenome, 1), opts)
		return p, "NewPopulation", err
	case "rich":
		p, err := genetics.NewPopulation(richStart(), opts)
		return p, "NewPopulation", err
	case "notrait":
		p, err := genetics.NewPopulation(noTraitStart(), opts)
		return p, "NewPopulation", err
	case "outfirst":
		p, err := genetics.NewPopulation(outFirstStart(), opts)
		return p, "NewPopulation", err
	case "read":
		// a population evolved for a few epochs (hooks not yet installed), written and read back
		p, err := genetics.NewPopulation(richStart(), opts)
		if err != nil {
			return nil, "", err
		}
		ex := &genetics.SequentialPopulationEpochExecutor{}
		frng := rand.New(rand.NewSource(sc.Seed + 7))
		for gen := 1; gen <= 3; gen++ {
			assignFitness(p, 6, frng, gen)
			if err = ex.NextEpoch(opts.NeatContext(), gen, p); err != nil {
				return nil, "", err
			}
		}
		var buf bytes.Buffer
		if err = p.Write(&buf); err != nil {
			return nil, "", err
		}
		q, err := genetics.ReadPopulation(&buf, opts)
		return q, "ReadPopulation", err
	default:
		for try := 0; ; try++ {
			p, err := genetics.NewPopulationRandom(3, 2, 3, sc.Seed%2 == 0, 0.6, opts)
			ok := err == nil
			if ok {
				for _, o := range p.Organisms {
					ok = ok && len(o.Genotype.Genes) > 0
				}
			}
			if ok || err != nil || try > 50 {
				return p, "NewPopulationRandom", err
			}
		}
	}
}

/* ------------------------------------------------------------------------------------------------ the tracer */

type recorder struct {
	in    *interner
	out   *json.Encoder
	lines int
	hooks int
	stats map[string]int
	opts  *neat.Options

	// per epoch
	gen         int
	epochLogged bool
	prev        []*genetics.Organism       // the generation before NextEpoch, in population order
	prevSp      map[*genetics.Organism]int // and the species each organism belonged to
	// per offspring
	cross  string
	dadHow map[string]interface{}
	// the genome under construction as last seen (statistics only)
	lastDig, lastNodes, lastGenes int
	momDig, mutating              int
}

func (r *recorder) emit(ev map[string]interface{}) {
	if err := r.out.Encode(ev); err != nil {
		panic(err)
	}
	r.lines++
}

func rankOf(sorted []float64, x float64) int { return sort.SearchFloat64s(sorted, x) }

func (r *recorder) oid(o *genetics.Organism) int { return r.in.p(o, o == nil) }

// epochEvent writes the prepared species table.  It is called from inside the first hook event of an epoch, i.e. after
// prepareForReproduction (fitness adjustment, quotas, stolen babies / delta coding, purge of the marked organisms).
func (r *recorder) epochEvent(pop *genetics.Population, sorted []*genetics.Species) {
	r.epochLogged = true
	adj, orig := []float64{}, []float64{}
	for _, o := range r.prev {
		adj = append(adj, o.Fitness)
		orig = append(orig, o.VerifState().OriginalFitness)
	}
	sort.Float64s(adj)
	sort.Float64s(orig)
	orgs := []map[string]interface{}{}
	for _, o := range r.prev {
		st := o.VerifState()
		g := r.in.genome(o.Genotype)
		orgs = append(orgs, map[string]interface{}{"oid": r.oid(o), "gid": o.Genotype.Id, "sp": r.prevSp[o], "elim": st.ToEliminate,
			"frank": rankOf(adj, o.Fitness), "orank": rankOf(orig, st.OriginalFitness), "popchamp": st.IsPopChampion,
			"g": g, "dig": r.in.digest(g)})
	}
	species := []map[string]interface{}{}
	for _, s := range pop.Species {
		pool := []int{}
		for _, o := range s.Organisms {
			pool = append(pool, r.oid(o))
		}
		counter := 0
		if len(s.Organisms) > 0 {
			counter = s.Organisms[0].VerifState().SuperChampOffspring
		}
		species = append(species, map[string]interface{}{"id": s.Id, "quota": s.ExpectedOffspring, "pool": pool, "counter": counter})
		if counter > 0 {
			r.stats["species-with-super-champion"]++
		}
		if s.ExpectedOffspring > 5 {
			r.stats["species-quota>5"]++
		}
	}
	ids := []int{}
	for _, s := range sorted {
		ids = append(ids, s.Id)
	}
	r.emit(map[string]interface{}{"ev": "epoch", "gen": r.gen, "species": species, "sorted": ids, "orgs": orgs})
}

func (r *recorder) avgTable(m, d *genetics.Genome) [][3]int {
	avg := [][3]int{}
	i2 := map[int64]*genetics.Gene{}
	for _, g := range d.Genes {
		i2[g.InnovationNum] = g
	}
	for _, g := range m.Genes {
		if o, ok := i2[g.InnovationNum]; ok {
			avg = append(avg, [3]int{r.in.f(g.Link.ConnectionWeight), r.in.f(o.Link.ConnectionWeight), r.in.f((g.Link.ConnectionWeight + o.Link.ConnectionWeight) / 2.0)})
			avg = append(avg, [3]int{r.in.f(g.MutationNum), r.in.f(o.MutationNum), r.in.f((g.MutationNum + o.MutationNum) / 2.0)})
		}
	}
	if len(m.Traits) == len(d.Traits) {
		for i, t := range m.Traits {
			o := d.Traits[i]
			for k := range t.Params {
				if k < len(o.Params) {
					avg = append(avg, [3]int{r.in.f(t.Params[k]), r.in.f(o.Params[k]), r.in.f((t.Params[k] + o.Params[k]) / 2.0)})
				}
			}
		}
	}
	return avg
}

func (r *recorder) ensureEpoch(pop *genetics.Population, sorted []*genetics.Species) {
	if !r.epochLogged && pop != nil {
		r.epochEvent(pop, sorted)
	}
}

// hook is the genetics.VerifTracer.  Events of other suites (access:*, ...) are ignored.
func (r *recorder) hook(ev string, args ...interface{}) {
	if len(ev) < 4 || ev[:4] != "x10." {
		return
	}
	r.hooks++
	switch ev {
	case "x10.enter":
		s, pop, sorted := args[0].(*genetics.Species), args[2].(*genetics.Population), args[3].([]*genetics.Species)
		r.ensureEpoch(pop, sorted)
		r.emit(map[string]interface{}{"ev": "enter", "sp": s.Id, "quota": s.ExpectedOffspring, "gen": args[1].(int)})
	case "x10.cross":
		r.cross = args[0].(string)
	case "x10.dad":
		s, picked, dad := args[1].(*genetics.Species), args[2].(*genetics.Species), args[4].(*genetics.Organism)
		r.dadHow = map[string]interface{}{"how": args[0].(string), "sp": s.Id, "pick": picked.Id, "giveup": args[3].(int), "dad": r.oid(dad)}
	case "x10.branch":
		kind, s, idx, g := args[0].(string), args[1].(*genetics.Species), args[2].(int), args[3].(*genetics.Genome)
		mom := args[4].(*genetics.Organism)
		e := map[string]interface{}{"ev": "branch", "kind": kind, "sp": s.Id, "idx": idx, "quota": s.ExpectedOffspring,
			"counter": args[6].(int), "mom": r.oid(mom), "dad": 0, "gc": r.in.p(g, false), "g": r.in.genome(g),
			"method": "", "how": "", "pick": 0, "giveup": 0, "avg": [][3]int{}, "compat0": false}
		if kind == "mate" {
			dad, _ := args[5].(*genetics.Organism)
			e["dad"] = r.oid(dad)
			e["method"] = r.cross
			e["how"] = "missing"
			if r.dadHow != nil {
				e["how"], e["pick"], e["giveup"] = r.dadHow["how"], r.dadHow["pick"], r.dadHow["giveup"]
				if r.dadHow["dad"] != e["dad"] || r.dadHow["sp"] != s.Id {
					e["how"] = "inconsistent"
				}
			}
			if dad != nil {
				e["avg"] = r.avgTable(mom.Genotype, dad.Genotype)
				e["compat0"] = dad.Genotype.VerifCompatibility(mom.Genotype, r.opts) == 0.0
			}
			r.stats["branch:mate:"+fmt.Sprint(e["how"])]++
			r.stats["cross:"+r.cross]++
		} else if kind == "super-champion" {
			if args[6].(int) > 1 {
				r.stats["branch:super-champion-mutated"]++
			} else {
				r.stats["branch:super-champion-exact"]++
			}
		} else {
			r.stats["branch:"+kind]++
		}
		r.cross, r.dadHow = "", nil
		pg := e["g"].(pGenome)
		r.lastDig, r.lastNodes, r.lastGenes = r.in.digest(pg), len(pg.Nodes), len(pg.Genes)
		r.momDig, r.mutating = r.in.digest(r.in.genome(mom.Genotype)), 0
		if kind == "mutate-only" || (kind == "super-champion" && args[6].(int) > 1) {
			r.mutating = 1
		}
		r.emit(e)
	case "x10.postmut":
		r.stats["mate-then-mutate"]++
		r.emit(map[string]interface{}{"ev": "postmut", "mom": r.oid(args[0].(*genetics.Organism)), "dad": r.oid(args[1].(*genetics.Organism))})
	case "x10.mut":
		op, g := args[0].(string), args[1].(*genetics.Genome)
		res := 2
		if len(args) > 2 {
			res = 0
			if args[2].(bool) {
				res = 1
			}
		}
		r.stats["mut:"+op]++
		pg := r.in.genome(g)
		dig := r.in.digest(pg)
		switch {
		case op == "add-node" && len(pg.Nodes) == r.lastNodes && dig != r.lastDig:
			r.stats["mut:add-node:no node added but a gene switched off"]++
		case op == "add-node" && len(pg.Nodes) == r.lastNodes:
			r.stats["mut:add-node:unsuccessful"]++
		case op == "add-link" && len(pg.Genes) == r.lastGenes:
			r.stats["mut:add-link:unsuccessful"]++
		}
		r.lastDig, r.lastNodes, r.lastGenes = dig, len(pg.Nodes), len(pg.Genes)
		r.emit(map[string]interface{}{"ev": "mut", "op": op, "gc": r.in.p(g, false), "g": pg, "res": res})
	case "x10.baby":
		s, idx, b := args[0].(*genetics.Species), args[1].(int), args[2].(*genetics.Organism)
		st := b.VerifState()
		bsp := 0
		if b.Species != nil {
			bsp = b.Species.Id
		}
		digs := [][2]int{}
		for _, o := range r.prev {
			digs = append(digs, [2]int{r.oid(o), r.in.digest(r.in.genome(o.Genotype))})
		}
		r.stats["babies"]++
		if !st.MateBaby && s != nil && r.lastDig == r.momDig {
			r.stats["babies genetically identical to their mom although the branch mutates"] += r.mutating
		}
		r.emit(map[string]interface{}{"ev": "baby", "sp": s.Id, "idx": idx, "oid": r.oid(b), "gc": r.in.p(b.Genotype, false),
			"g": r.in.genome(b.Genotype), "gen": b.Generation, "bsp": bsp, "fit0": b.Fitness == 0, "mate": st.MateBaby,
			"struct": st.MutStructBaby, "popchild": st.IsPopChampionChild, "counter": args[3].(int), "cloneDone": args[4].(bool),
			"olddigs": digs})
	case "x10.exit":
		r.emit(map[string]interface{}{"ev": "exit", "sp": args[0].(*genetics.Species).Id, "n": args[1].(int)})
	default:
		r.stats["unknown-hook:"+ev]++
	}
}

func (r *recorder) run(sc scenario) {
	rand.Seed(sc.Seed)
	opts := sc.options()
	opts.EpochExecutorType = neat.EpochExecutorTypeSequential
	r.opts = opts
	ctx := neat.NewContext(context.Background(), opts)
	var pop *genetics.Population
	var how string
	var err error
	genetics.VerifTracer = nil
	panicked := vhu.Guard(func() { pop, how, err = construct(sc, opts) })
	r.emit(map[string]interface{}{"ev": "init", "scenario": sc, "how": how, "opts": optClasses(opts),
		"err": err != nil || panicked != "" || pop == nil})
	if pop == nil || err != nil {
		return
	}
	if sc.Aged {
		for _, s := range pop.Species {
			s.Age, s.AgeOfLastImprovement = 7, 7
		}
	}
	genetics.VerifTracer = r.hook
	defer func() { genetics.VerifTracer = nil }()
	exec := &genetics.SequentialPopulationEpochExecutor{}
	frng := rand.New(rand.NewSource(sc.Seed*31 + 5))
	for gen := 1; gen <= sc.Epochs; gen++ {
		assignFitness(pop, sc.Fitness, frng, gen)
		r.gen, r.epochLogged = gen, false
		r.prev = append([]*genetics.Organism(nil), pop.Organisms...)
		r.prevSp = map[*genetics.Organism]int{}
		for _, o := range pop.Organisms {
			if o.Species != nil {
				r.prevSp[o] = o.Species.Id
			}
		}
		var eerr error
		panicked := vhu.Guard(func() { eerr = exec.NextEpoch(ctx, gen, pop) })
		oids := []int{}
		for _, o := range pop.Organisms {
			oids = append(oids, r.oid(o))
		}
		ev := map[string]interface{}{"ev": "after", "gen": gen, "err": eerr != nil || panicked != "", "oids": oids, "errtext": "",
			"hooked": r.epochLogged, "pophash": popHash(pop)}
		if eerr != nil {
			ev["errtext"] = eerr.Error()
		}
		if panicked != "" {
			ev["errtext"] = "panic: " + panicked
		}
		r.emit(ev)
		r.stats["epochs"]++
		if eerr != nil || panicked != "" {
			return
		}
	}
}

// popHash renders the genetic content of the whole population (weights bit for bit); it is not read by the trace
// specification: equal hashes from a build with and a build without the hook sites show that the hooks and the recorder
// leave the evolution (and so the random stream) untouched.
func popHash(pop *genetics.Population) string {
	h := sha1.New()
	for _, o := range pop.Organisms {
		fmt.Fprintf(h, "o %d %d;", o.Genotype.Id, o.Generation)
		for _, t := range o.Genotype.Traits {
			fmt.Fprintf(h, "t %d", t.Id)
			for _, x := range t.Params {
				fmt.Fprintf(h, " %x", math.Float64bits(x))
			}
		}
		for _, n := range o.Genotype.Nodes {
			fmt.Fprintf(h, "n %d %d %d %d;", n.Id, n.NeuronType, n.ActivationType, traitId(n.Trait))
		}
		for _, g := range o.Genotype.Genes {
			fmt.Fprintf(h, "g %d %d %d %t %t %x %x %d;", g.InnovationNum, g.Link.InNode.Id, g.Link.OutNode.Id, g.Link.IsRecurrent,
				g.IsEnabled, math.Float64bits(g.Link.ConnectionWeight), math.Float64bits(g.MutationNum), traitId(g.Link.Trait))
		}
	}
	return fmt.Sprintf("%x", h.Sum(nil))
}

func record(args []string) int {
	fs := flag.NewFlagSet("record", flag.ExitOnError)
	out := fs.String("out", "", "NDJSON trace file")
	repf := fs.String("report", "", "report file")
	scen := fs.String("scenarios", "", "JSON list of scenarios")
	_ = fs.Parse(args)
	var scs []scenario
	if err := json.Unmarshal([]byte(*scen), &scs); err != nil {
		fmt.Fprintln(os.Stderr, "bad -scenarios:", err)
		return 2
	}
	f, err := os.Create(*out)
	if err != nil {
		fmt.Fprintln(os.Stderr, err)
		return 2
	}
	defer f.Close()
	rec := &recorder{in: newInterner(), out: json.NewEncoder(f), stats: map[string]int{}}
	for _, sc := range scs {
		rec.run(sc)
	}
	rep := &vhu.Report{Command: "record", Evaluations: rec.stats["babies"], Cases: len(scs),
		Extra: map[string]interface{}{"stats": rec.stats, "events": rec.lines, "hook_events": rec.hooks}}
	return rep.Write(*repf)
}

package main

import (
	"github.com/yaricom/goNEAT/v4/neat"
	"github.com/yaricom/goNEAT/v4/neat/genetics"
	neatmath "github.com/yaricom/goNEAT/v4/neat/math"
	"github.com/yaricom/goNEAT/v4/neat/network"
)

// Start genomes, copied from harness/cmd/vh_genome/lineage.go (that package is not modified).

// richStart is a hand-built start genome with everything the quantifiers name: a bias node, an unconnected sensor, two
// connected outputs and an unconnected one, a hidden node with a nil trait, a disabled gene, a recurrent self-loop, a recurrent back link and a gene
// with a nil trait.
func richStart() *genetics.Genome {
	traits := make([]*neat.Trait, 3)
	for i := range traits {
		t := neat.NewTrait()
		t.Id = i + 1
		for k := range t.Params {
			t.Params[k] = float64(i+1) / 8.0 * float64(k%3)
		}
		traits[i] = t
	}
	mk := func(id int, t network.NodeNeuronType, tr *neat.Trait) *network.NNode {
		n := network.NewNNode(id, t)
		n.Trait = tr
		if t == network.InputNeuron || t == network.BiasNeuron {
			n.ActivationType = neatmath.NullActivation
		}
		return n
	}
	n1 := mk(1, network.InputNeuron, traits[0])
	n2 := mk(2, network.InputNeuron, traits[1])
	n3 := mk(3, network.BiasNeuron, traits[0])
	n4 := mk(4, network.OutputNeuron, traits[2])
	n5 := mk(5, network.OutputNeuron, traits[0])
	n6 := mk(7, network.HiddenNeuron, nil)
	n6.ActivationType = neatmath.TanhActivation
	n7 := mk(6, network.OutputNeuron, traits[1]) // an output no gene touches
	nodes := []*network.NNode{n1, n2, n3, n4, n5, n7, n6}
	genes := []*genetics.Gene{
		genetics.NewGeneWithTrait(traits[0], 0.5, n1, n6, false, 1, 0.5),
		genetics.NewGeneWithTrait(traits[1], -1.25, n6, n4, false, 2, -1.25),
		genetics.NewGeneWithTrait(traits[1], 0.25, n6, n4, true, 3, 0.25), // same endpoints as gene 2, other recurrence flag
		genetics.NewGeneWithTrait(traits[2], 2.0, n3, n4, false, 4, 2.0),
		genetics.NewGeneWithTrait(traits[0], 0.75, n6, n6, true, 5, 0.75),
		genetics.NewGeneWithTrait(nil, 3.5, n1, n5, false, 6, 3.5),
		genetics.NewGeneWithTrait(nil, -0.5, n4, n6, true, 7, -0.5), // trait-less AND recurrent
	}
	genes[3].IsEnabled = false
	return genetics.NewGenome(1, traits, nodes, genes)
}

// outFirstStart is a well-formed start genome whose sensors are NOT the first nodes in id order (the output has the
// smallest id): ids ascend, but code that assumes "sensors first" meets a non-sensor at position 0.
func outFirstStart() *genetics.Genome {
	tr := neat.NewTrait()
	tr.Id = 1
	tr2 := neat.NewTrait()
	tr2.Id = 2
	tr2.Params[0] = 0.25
	out := network.NewNNode(1, network.OutputNeuron)
	out.Trait = tr
	in1 := network.NewNNode(2, network.InputNeuron)
	in1.Trait = tr2
	hid := network.NewNNode(3, network.HiddenNeuron)
	hid.Trait = tr
	in2 := network.NewNNode(4, network.InputNeuron)
	in2.Trait = tr
	bias := network.NewNNode(5, network.BiasNeuron)
	bias.Trait = tr2
	for _, n := range []*network.NNode{in1, in2, bias} {
		n.ActivationType = neatmath.NullActivation
	}
	genes := []*genetics.Gene{
		genetics.NewGeneWithTrait(tr, 0.5, in1, hid, false, 1, 0.5),
		genetics.NewGeneWithTrait(tr2, -0.75, hid, out, false, 2, -0.75),
		genetics.NewGeneWithTrait(tr, 1.5, in2, out, false, 3, 1.5),
		genetics.NewGeneWithTrait(tr2, 0.125, bias, out, false, 4, 0.125),
	}
	return genetics.NewGenome(1, []*neat.Trait{tr, tr2}, []*network.NNode{out, in1, hid, in2, bias}, genes)
}

// noTraitStart is the XOR topology with nodes and genes that carry NO trait (nil pointers); the genome still owns one
// trait, as the mutators require.
func noTraitStart() *genetics.Genome {
	tr := neat.NewTrait()
	tr.Id = 1
	tr.Params[0] = 0.5
	mk := func(id int, t network.NodeNeuronType) *network.NNode {
		n := network.NewNNode(id, t)
		if t != network.OutputNeuron {
			n.ActivationType = neatmath.NullActivation
		}
		return n
	}
	n1, n2, n3, n4 := mk(1, network.BiasNeuron), mk(2, network.InputNeuron), mk(3, network.InputNeuron), mk(4, network.OutputNeuron)
	genes := []*genetics.Gene{
		genetics.NewGene(0.25, n1, n4, false, 1, 0.25),
		genetics.NewGene(-0.5, n2, n4, false, 2, -0.5),
		genetics.NewGene(0.75, n3, n4, false, 3, 0.75),
	}
	return genetics.NewGenome(1, []*neat.Trait{tr}, []*network.NNode{n1, n2, n3, n4}, genes)
}

// Command vh_x10 records traces of Species.reproduce as it runs inside real sequential epochs of goNEAT (growth suite
// X10 "Reproduce", binding B1 of DESIGN.md): one NDJSON event per hook event of the `x10.*` hook sites, with the
// projected abstract state, for validation against spec/Reproduce.tla by spec/Trace_Reproduce.tla.
package main

import (
	"fmt"
	"os"

	"github.com/yaricom/goNEAT/v4/neat"
)

type command func(args []string) int

var commands = map[string]command{}

func main() {
	_ = neat.InitLogger("error")
	if len(os.Args) < 2 {
		fmt.Fprintln(os.Stderr, "usage: vh_x10 <command> [flags]")
		os.Exit(2)
	}
	cmd, ok := commands[os.Args[1]]
	if !ok {
		fmt.Fprintf(os.Stderr, "vh_x10: unknown command %q\n", os.Args[1])
		os.Exit(2)
	}
	os.Exit(cmd(os.Args[2:]))
}
